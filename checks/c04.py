"""C04: aggregates are component-wise: operators, equality, accessors, layout, text."""
import json
import os
import re
import vlib


def gen_programs(chk, num, depth, seed, cap):
    cfg = os.path.join(chk.work, "AggregateGen.cfg")
    open(cfg, "w").write("CONSTANTS N = 3 MaxDepth = %d\nINIT Init\nNEXT Next\nINVARIANT Export\nINVARIANT SlotLocal\nCHECK_DEADLOCK FALSE\n" % depth)
    r = vlib.run_tlc("MCAggregate", cfg, workers=1, timeout=1800, extra=["-simulate", "num=%d" % num, "-depth", str(depth + 2), "-seed", str(seed)])
    beh = sorted(set(re.findall(r'"BEHAVIOUR (.*)"\s*$', r["out"], re.M)))
    if not beh:
        raise vlib.Infra("no Aggregate behaviours generated:\n" + r["out"][-1500:])
    progs, perprefix = [], {}
    for b in beh:
        h = json.loads(b.replace('\\"', '"'))
        key = json.dumps(h[:-1])
        perprefix[key] = perprefix.get(key, 0) + 1
        if perprefix[key] <= 2:
            progs.append(h)
    step = max(1, len(progs) // cap)
    return progs[::step][:cap]


def run(tier):
    chk = vlib.Check("C04", tier)
    thorough = tier == "thorough"
    chk.model("MCAggregate", what="register machine over small integers: each slot of a result depends on the same slot of the operands only (SlotLocal), all operator sequences to depth 3")
    exe = vlib.compile_harness("rec_agg", ["rec_agg.cpp"])
    w = chk.work
    progs = []
    for k, (num, depth) in enumerate([(40, 5), (40, 8)] if not thorough else [(200, 5), (200, 8), (150, 11)]):
        progs += gen_programs(chk, num, depth, vlib.SEED * 10 + k, 1200 if thorough else 150)
    pp = os.path.join(w, "programs.txt")
    with open(pp, "w") as f:
        for i, p in enumerate(progs):
            f.write("prog %d\n" % i)
            for s in p:
                f.write("%s %d %d\n" % (s["op"], s["sp"], s["k"]))
    rp = vlib.run_to_file([exe, "replay", pp], os.path.join(w, "replay.ndjson"), timeout=3600)
    # shard on object boundaries (step 1 of a program on one (family, element type))
    shards = [[] for _ in range(16)]
    cur, n = None, 0
    for line in open(rp):
        if '"step":1,' in line:
            n += 1
        shards[n % 16].append(line)
    files = []
    for i, s in enumerate(shards):
        p = os.path.join(w, "agg.%02d.ndjson" % i)
        open(p, "w").writelines(s)
        files.append(p)
    chk.traces("AggregateTrace", files, what="%d TLC-generated operation sequences replayed on Vec2/3/4 x {short,int,int64,half,float,double}, Color3/4 x {uchar,half,float,double}, Shear6/Quat/Matrix22/33/44 x {float,double}; state read through 5 routes after every step" % len(progs), episodes=n, timeout=7200)
    sp = vlib.run_to_file([exe, "static"], os.path.join(w, "static.ndjson"))
    chk.traces("AggregateTrace", [sp], what="==/!= on pairs differing in exactly one slot (each slot), equalWithAbsError/RelError, sizeof/offsets, stream output tokens, converting constructors", episodes=1)
    chk.sample(progs[len(progs) // 2])
    chk.sample_lines(rp, idx=(2,), maxlen=700)
    chk.sample_lines(sp, idx=(1, 5), maxlen=400)
    chk.assumptions += ["integer element types: operand values are small so that no signed overflow occurs (at most two multiplicative steps per sequence); zero divisors are never generated",
                        "half element type: operator results are specified as widen-operate-narrow (Half module)",
                        "foreign-type interop constructors are not exercised; character element types' text is not judged"]
    return chk.finish(extra_cov={"programs_replayed": len(progs),
                                 "rule": "one record per (type family, element type, program, step)"})
