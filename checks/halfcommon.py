"""Shared pieces of the C01/C02 checks: build one configuration of half.h, sweep all
2^32 floats + 2^16 halves into a run certificate, validate it with HalfTrace."""
import os
import vlib

CONFIGS = {
    # name: (compiler, std, extra flags, nanmode)
    "cxx14-table":   ("g++", "-std=c++14", [], "sw"),
    "cxx14-notable": ("g++", "-std=c++14", ["-DIMATH_HALF_NO_LOOKUP_TABLE"], "sw"),
    "cxx17-table":   ("g++", "-std=c++17", [], "sw"),
    "cxx20-table":   ("g++", "-std=c++20", [], "sw"),
    "cxx20-notable": ("g++", "-std=c++20", ["-DIMATH_HALF_NO_LOOKUP_TABLE"], "sw"),      # C++20-only library facilities on the bit-shift path
    "cxx14-f16c":    ("g++", "-std=c++14", ["-mf16c"], "f16c"),
    "cxx14-f16c-upward": ("g++", "-std=c++14", ["-mf16c", "-DSWEEP_FE_UPWARD", "-frounding-math"], "f16c"),   # hardware path under fesetround(FE_UPWARD)
    "cxx14-table-upward": ("g++", "-std=c++14", ["-DSWEEP_FE_UPWARD", "-frounding-math"], "sw"),
    "cxx14-notable-daz": ("g++", "-std=c++14", ["-DIMATH_HALF_NO_LOOKUP_TABLE", "-DSWEEP_DAZ_FTZ"], "sw"),   # bit-shift path with denormals-are-zero / flush-to-zero set in MXCSR
    "c-table":       ("gcc", "", [], "sw"),
    "c-notable":     ("gcc", "", ["-DIMATH_HALF_NO_LOOKUP_TABLE"], "sw"),
    "clang14-table": ("clang++", "-std=c++14", [], "sw"),
    "cxx14-fpexc":   ("g++", "-std=c++14", ["-DIMATH_HALF_ENABLE_FP_EXCEPTIONS"], "sw"),
}


def have_f16c():
    try:
        return " f16c" in open("/proc/cpuinfo").read()
    except OSError:
        return False


def sweep(chk, name):
    """256 slices of 2^24 patterns each, swept by 16 processes; slice files are then packed
    into 16 shards of similar line count (packing whole slices only: each slice keeps its own
    begin/end events, whose tiling and completeness the spec and the driver check)."""
    cxx, std, flags, nanmode = CONFIGS[name]
    exe = vlib.compile_harness("sweep_half_" + name, ["sweep_half.c"], flags=flags, cxx=cxx, std=std)
    d = os.path.join(chk.work, name)
    os.makedirs(d, exist_ok=True)
    parts = [os.path.join(d, "part%02d.ndjson" % k) for k in range(16)]
    vlib.parallel(lambda k: vlib.run_to_file([exe, name, str(16 * k), str(16 * k + 15), nanmode], parts[k], timeout=1800), range(16))
    h2f = vlib.run_to_file([exe, name, "-1", "-1", nanmode], os.path.join(d, "h2f.ndjson"), timeout=600)
    # split into slices
    slices = []
    for p in parts:
        cur = None
        with open(p) as f:
            head = f.readline()
            for line in f:
                if line.startswith('{"e":"begin"'):
                    cur = [line]
                    slices.append(cur)
                else:
                    cur.append(line)
    assert len(slices) == 256, len(slices)
    # h2f table in 4 pieces
    with open(h2f) as f:
        hl = f.readlines()
    items = [hl[1 + i * 16384: 1 + (i + 1) * 16384] for i in range(4)] + slices
    items.sort(key=len, reverse=True)
    bins = [[] for _ in range(16)]
    for it in items:
        min(bins, key=lambda b: sum(len(x) for x in b)).append(it)
    files = []
    for i, b in enumerate(bins):
        fp = os.path.join(d, "shard%02d.ndjson" % i)
        with open(fp, "w") as g:
            g.write(head)
            for it in b:
                g.writelines(it)
        files.append(fp)
    for p in parts:
        os.remove(p)
    return files


def validate(chk, name, files):
    res = chk.traces("HalfTrace", files, what="certificate of configuration " + name, episodes=1)
    nrec = 0
    seen = []
    for r in res:
        nrec += r["accepted"] or 0
        for i in r["info"]:
            m = i.replace('"', "").split(",")
            if m[0].strip() == "slice":
                seen.append(int(m[1]))
    if sorted(seen) != [256 * k for k in range(256)]:
        p = os.path.join(chk.outdir, "incomplete-%s.txt" % name)
        open(p, "w").write("slices accepted by the spec: %s\n" % sorted(seen))
        chk.violation("certificate of %s does not cover all 2^32 patterns exactly once" % name, p)
    return res, nrec
