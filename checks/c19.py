"""C19: PyImath arrays index like Python sequences and honour read-only protection."""
import json
import os
import re
import vlib

CLASSES_Q = ["IntArray", "FloatArray", "DoubleArray", "ShortArray", "UnsignedCharArray", "V3fArray", "V3fArray.y", "V2iArray.x"]
CLASSES_T = CLASSES_Q + ["SignedCharArray", "UnsignedShortArray", "UnsignedIntArray", "V2dArray", "V3dArray", "V2iArray", "V4dArray.w", "V3iArray.z"]


def gen_histories(chk, num, depth, seed, cap):
    cfg = os.path.join(chk.work, "PyArrayGen.cfg")
    open(cfg, "w").write("CONSTANTS MaxLen = 4 MaxDepth = %d Sim = TRUE BndLo <- BLoWide BndHi = 6 Steps <- StepsWide\n"
                         "INIT Init\nNEXT Next\nINVARIANT Export\nINVARIANT NoOOB\nCHECK_DEADLOCK FALSE\n" % depth)
    r = vlib.run_tlc("MCPyArray", cfg, workers=1, timeout=1800,
                     extra=["-simulate", "num=%d" % num, "-depth", str(depth + 1), "-seed", str(seed)])
    beh = sorted(set(re.findall(r'"BEHAVIOUR (.*)"\s*$', r["out"], re.M)))
    if not beh:
        raise vlib.Infra("no PyArray behaviours generated:\n" + r["out"][-1500:])
    hs, perprefix = [], {}
    for b in beh:
        h = json.loads(b.replace('\\"', '"'))
        key = json.dumps(h[:-1])
        perprefix[key] = perprefix.get(key, 0) + 1
        if perprefix[key] <= 3:          # simulation prints every successor of the last state: keep 3 per prefix
            hs.append(h)
    step = max(1, len(hs) // cap)
    return hs[::step][:cap]


def directed_histories(chk):
    """Every single event from the directed read-only start state (PyArrayRO.cfg), exhaustively."""
    r = vlib.run_tlc("MCPyArray", "PyArrayRO.cfg", workers=1, timeout=1800)
    chk.cov["states"] += r["distinct"]
    chk.cov["transitions"] += r["states"]
    chk.cov["model_runs"].append({"module": "MCPyArray", "cfg": "PyArrayRO.cfg", "distinct_states": r["distinct"], "ok": r["ok"],
                                  "what": "every event from a state with a read-only array, masked references made before/after makeReadOnly, an alias and an unrelated array; ReadOnlyFrozen, DerivedReadOnly"})
    if not r["ok"]:
        raise vlib.Infra("PyArrayRO run failed:\n" + r["out"][-2000:])
    beh = sorted(set(re.findall(r'"BEHAVIOUR (.*)"\s*$', r["out"], re.M)))
    return [json.loads(b.replace('\\"', '"')) for b in beh]


def build_i64ext(py):
    """harness/py/i64ext.cpp: an extension module that registers FixedArray<int64_t> with the buffer protocol through PyImath's
    public C++ API (the imath module registers no class for this exported instantiation).  Returns the directory holding vi64.so."""
    d = py["dir"]
    out = os.path.join(d, "vi64.so")
    lib = [f for f in os.listdir(os.path.join(d, "src/python/PyImath")) if re.match(r"libPyImath_Python3_11-\d+_\d+\.so$", f)]
    if not lib:
        raise vlib.Infra("libPyImath not found in " + d)
    vlib.sh(["g++", "-O1", "-std=c++14", "-fPIC", "-shared", "-I", os.path.join(vlib.REPO, "src/python/PyImath"), "-I", os.path.join(vlib.REPO, "src/Imath"),
             "-I", os.path.join(d, "src/python/PyImath"), "-I", os.path.join(d, "config"), "-I", "/usr/include/python3.11",
             os.path.join(vlib.HARNESS, "py", "i64ext.cpp"), "-o", out, "-L", os.path.join(d, "src/python/PyImath"), "-l" + lib[0][3:-3], "-lboost_python311"], timeout=900)
    return d


def run(tier):
    chk = vlib.Check("C19", tier)
    thorough = tier == "thorough"
    chk.model("MCPyArray", "MCPyArraySlice.cfg", what="SliceDef (Python list semantics) = SliceAlgo (PySlice_GetIndicesEx-shaped) for len 0..4, bounds -6..6/None, steps -3..3/None")
    chk.model("MCPyArray", "MCPyArray.cfg", what="all API histories to depth 3 (len<=2): NoOOB, ReadOnlyFrozen, DerivedReadOnly")
    py = vlib.pyimath_build()
    hist = []
    for k, (num, depth) in enumerate([(150, 5), (150, 8), (100, 11)] if not thorough else [(500, 5), (500, 8), (400, 11), (300, 14)]):
        hist += gen_histories(chk, num, depth, vlib.SEED * 10 + k, 6000 if thorough else 1500)
    directed = directed_histories(chk)
    hist += directed
    # hand-written: in-place vector operations on a masked reference with an operand of the masked and of the UNMASKED length
    # (the second pairs each selected element with the operand's element at its own position), and with an empty selection
    for m in ([1, 0, 1, 0], [0, 0, 0, 0], [1, 1, 1, 1], [0, 1, 1, 0]):
        k = sum(m)
        for src in ([1, 2, 3, 4], list(range(1, k + 1)), [1, 2, 3], [5]):
            hist.append([{"r": "a", "op": "new", "vals": [10, 20, 30, 40]}, {"r": "c", "o": "a", "op": "getmask", "m": m},
                         {"r": "d", "op": "new", "vals": src}, {"o": "c", "op": "iadd_v", "src": "d"}, {"o": "a", "op": "getitem", "i": 0},
                         {"o": "c", "op": "iadd_v", "src": "c"}, {"o": "a", "op": "getitem", "i": 2}])
    # hand-written: ifelse whose operands are masked references in every combination (self / other masked with a mask that does
    # not select a prefix, choice of all zeros, all ones, mixed): the result takes element k of each operand AS INDEXED THROUGH
    # its mask, and a masked self with an operand of another length raises
    for m in ([0, 0, 1, 1, 1], [1, 0, 1, 0, 1], [0, 1, 1, 1, 0]):
        for ch in ([0, 0, 0], [1, 1, 1], [0, 1, 0]):
            hist.append([{"r": "x", "op": "new", "vals": [10, 11, 12, 13, 14]}, {"r": "a", "op": "new", "vals": [20, 21, 22]},
                         {"r": "mx", "o": "x", "op": "getmask", "m": m},
                         {"r": "r1", "o": "a", "op": "ifelse_v", "m": ch, "src": "mx"},          # plain self, masked other
                         {"r": "r2", "o": "mx", "op": "ifelse_v", "m": ch, "src": "a"},          # masked self, plain other
                         {"r": "y", "op": "new", "vals": [30, 31, 32, 33, 34]}, {"r": "my", "o": "y", "op": "getmask", "m": m[::-1]},
                         {"r": "r3", "o": "mx", "op": "ifelse_v", "m": ch, "src": "my"},         # both masked
                         {"r": "r4", "o": "mx", "op": "ifelse_s", "m": ch, "v": 7},
                         {"r": "r5", "o": "a", "op": "ifelse_v", "m": ch, "src": "x"},           # length mismatch: raises
                         {"o": "r1", "op": "getitem", "i": 0}, {"o": "r3", "op": "getitem", "i": 2}])
    hp = os.path.join(chk.work, "histories.jsonl")
    with open(hp, "w") as f:
        for h in hist:
            f.write(json.dumps(h) + "\n")
    classes = CLASSES_T if thorough else CLASSES_Q
    env = dict(py["env"])
    env["MALLOC_PERTURB_"] = "165"
    drv = os.path.join(vlib.HARNESS, "py", "rep_pyarray.py")

    def rec(c):
        return vlib.run_to_file([py["python"], drv, hp, c, "--perturb"], os.path.join(chk.work, "trace-%s.ndjson" % c.replace(".", "_")), timeout=3600, env=env)
    traces = vlib.parallel(rec, classes)
    # shard each class trace on episode boundaries
    files = []
    neps = 0
    for c, t in zip(classes, traces):
        eps, cur = [], None
        for ln in open(t):
            if ln.startswith('{"e": "reset"'):
                cur = []
                eps.append(cur)
            cur.append(ln)
        neps += len(eps)
        nsh = 4
        for i in range(nsh):
            p = os.path.join(chk.work, "sh-%s-%d.ndjson" % (c.replace(".", "_"), i))
            with open(p, "w") as g:
                for e in eps[i::nsh]:
                    g.writelines(e)
            files.append(p)
    chk.traces("PyArrayTrace", files, what="%d TLC-generated histories replayed through %d array classes of the real imath module (MALLOC_PERTURB_, allocator churn after every release)" % (len(hist), len(classes)), episodes=neps)
    # remaining clauses: buffer protocol, FixedArray2D, FixedMatrix, FixedVArray, StringArray
    env = dict(env)
    env["PYTHONPATH"] = env.get("PYTHONPATH", "") + ":" + build_i64ext(py)
    mp = vlib.run_to_file([py["python"], os.path.join(vlib.HARNESS, "py", "rec_pymisc.py"), str(vlib.SEED), tier],
                          os.path.join(chk.work, "pymisc.ndjson"), timeout=3600, env=env)
    mfiles, _ = vlib.split_file(mp, 8, chk.work, "pymisc")
    chk.traces("PyMiscTrace", mfiles, what="memoryview export and ...ArrayFromBuffer for every exporting class x source type/shape; FixedArray2D get/set/mask for index and forward-slice keys per dimension; FixedMatrix rows (views outliving the matrix); FixedVArray as nested lists: index/forward-slice/mask selection, row := array and rows := variable array assignment with length checks, row views aliasing and outliving the array, read-only; StringArray last-write", episodes=1)
    chk.sample_lines(mp, idx=(3, 200), maxlen=400)
    chk.sample(hist[len(hist) // 2])
    chk.sample_lines(traces[0], idx=(2, 3), maxlen=500)
    chk.assumptions += ["exceptions are compared as raised / not raised, not by class",
                        "source and destination of array assignments never alias in generated histories",
                        "masks applied to masked references are modelled as the code behaves (raises)",
                        "FixedArray2D / FixedMatrix / FixedVArray / StringArray / buffer protocol clauses: see level_note"]
    return chk.finish(extra_cov={"histories_replayed": len(hist), "classes": classes,
                                 "rule": "one record per (array class, history, step); histories are TLC simulation behaviours of MCPyArray (depth 5..14) over lengths 0..4, indices/bounds -6..6, steps -3..3, all masks"})
