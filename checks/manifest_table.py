HOOKS = {
    "guard": "IMATH_VERIF_HOOKS",
    "enable": "no hooks are needed: every property is observed through public API (harness/*.cpp, harness/py/*); the guard name is reserved",
    "baseline_off_cmd": "cmake -G Ninja -S /repo -B /repo/_build -DBUILD_TESTING=ON && cmake --build /repo/_build -j16 && ctest --test-dir /repo/_build -j8 --timeout 900",
    "source_commits": [],
    "add_only": True,
}
NOTES = ("All verdicts come from TLC evaluating spec/*.tla. The harness only drives the real API of the code in /repo "
         "(rebuilt from the current working tree; binaries are cached under a hash of every repo source file) and logs raw bits as ndjson. "
         "Exit 2 means infrastructure failure, never a verdict. See DESIGN.md.")
ALL = ["C%02d" % i for i in range(1, 21)]
CHECKS = [
    {"id": "C01",
     "text": "Exhaustive: every one of the 2^32 float patterns and 2^16 half patterns is executed by the real code (C function and C++ constructor/cast); the outputs are compressed into a run certificate and TLC validates every run end and every table entry against the IEEE-754 value semantics of spec/IEEE754.tla (IsRNE relation with exact big-integer arithmetic), plus tiling of the whole input space. A bounded model run (MCHalf) checks that a transcription of half.h's branch structure refines the same definition.",
     "note": "Trusted: the ~30 lines of run compression in harness/sweep_half.c; monotonicity of RNE in the magnitude bits (checked by TLC on the half lattice, not proved for binary32); the compiler at -O2 without -ffast-math. FP exception flags are not observed.",
     "technique": "TLA+ value-semantics spec (IsRNE relation) + TLC validation of a complete run certificate recorded from the code; TLC refinement check of transcribed algorithm"},
    {"id": "C02",
     "text": "One complete run certificate (all 2^32 floats, all 2^16 halves) per build configuration of half.h that this machine can produce (C++14 table / no-table / F16C, C with table; thorough adds C++17, C++20, C no-table, clang, FP-exception build), each validated by TLC against the same value-semantics relation (payload-relaxed for F16C NaNs); the generator toFloat.cpp is compiled from /repo and its 65,536 printed values and the 65,536 shipped table entries are validated against H2F. Since the relation is functional on the software paths, acceptance of every certificate implies bit-identity across configurations.",
     "note": "Same trusted base as C01. MSVC-intrinsic and CUDA paths cannot be built here. Byte-identity of certificates across software configurations is reported as an extra datum.",
     "technique": "TLC validation of per-configuration run certificates against a TLA+ IEEE-754 spec; generator output vs shipped table validated entry by entry"},
    {"id": "C03",
     "text": "TLC validates recorded executions of class half: all 2^16 patterns for classes/negation/isFinite/isNegative/fpclassify agreement/text round trip; round(n) against the RoundRel relation for n in 0..12 and large n; compound arithmetic with half and float right-hand sides over boundary-class operand sets against 'widen, one correctly rounded binary32 operation computed in exact arithmetic by the spec, narrow'; numeric_limits/HALF_* against extremal elements; halfFunction tables as a Build/Lookup state machine probed at all 2^16 patterns. MCHalf checks class partition, extremality of limits and satisfiability/functionality of RoundRel exhaustively.",
     "note": "Arithmetic operand pairs are a boundary-class product plus seeded random pairs, not all 2^32 pairs. Decimal correctness of printed text is not decided (round trip only). NaN sign/payload of invalid operations is left to the hardware.",
     "technique": "TLA+ spec of half semantics with exact dyadic arithmetic; TLC trace validation of recorded API calls; TLC bounded model run of the definitions"},
    {"id": "C13",
     "text": "Box/Interval as a TLA+ state machine over a coordinate lattice with symbolic extremes; observers defined from the point set Pts(b). TLC explores all histories of makeEmpty/makeInfinite/extendBy/assign to a bounded depth (minimality: box = hull of everything added; set semantics; symmetry). Conformance: every (state, action/query, argument) over the lattice - including inverted min/max pairs - is executed on the real Interval, Box<Vec2> (exhaustively), Box<Vec3>, Box<Vec4> (seeded samples) for 5 element types and validated by TLC; TLC-generated histories are replayed on real objects with the spec threading its own state; transform/affineTransform in all four overloads (result pre-filled with empty / unrelated / infinite) are validated against the exact tight bound of the corner images.",
     "note": "Lattice scope {LOW,-2,0,2,4,MAX}; D=3,4 sampled. extendBy(box) with inverted non-canonical arguments, clip on empty boxes and size/center at the extremes are outside the judged scope. Two genuine defects were found and fixed in /repo (see known_findings.json).",
     "technique": "TLC model checking of a TLA+ Box state machine + TLC trace validation of every lattice transition executed on the real templates + replay of TLC-generated histories"},
    {"id": "C14",
     "text": "Exact rational definition of ray/line-box intersection (finite candidate-parameter set) in TLA+, parametric in the arithmetic: TLC checks on an integer lattice that the candidate-set definition equals a literal search over a grid of parameters and equals the slab method; every recorded call of intersects(box,ray), intersects(box,ray,ip) and findEntryAndExitPoints (float and double) on a seeded lattice sample, on rays constructed to graze edges/corners at non-integer parameters, and on inputs with zero/denormal/huge direction components is validated by TLC: boolean exact, reported points in the box, on the surface, and on the ray within a rounding bound.",
     "note": "Lattice is sampled (10^5 quick, 10^6 thorough), not enumerated. Extreme-direction records outside the judged scope (a deciding plane parameter not representable; origin exactly on a face with a denormal component) are counted as skipped, see DESIGN.md.",
     "technique": "TLA+ exact-arithmetic definition + TLC refinement check (definition vs slab algorithm) + TLC trace validation of recorded calls"},
    {"id": "C18",
     "text": "48-bit LCG state machine in TLA+ (definition via big-integer arithmetic, refinement to a limb-wise product and to the code's mantissa packing checked by TLC from boundary states under all op sequences); recorded interleavings of srand48/lrand48/drand48/nrand48/erand48 are validated step by step with the hidden static state threaded by the spec; the same spec validates glibc's functions (the spec states POSIX, not Imath); Rand32/Rand48 objects and the sphere/gauss samplers are judged for ranges and for determinism against twin objects; TLC-generated behaviours from boundary states are replayed into the code.",
     "note": "2^48 states are sampled (boundary + seeded random). Seeding formulas of Rand32/Rand48 are not pinned (property: pure function of the seed).",
     "technique": "TLA+ generator state machine + TLC trace validation of recorded call interleavings (also of glibc) + replay of TLC-generated behaviours"},
]
NOT_APPLICABLE = [{"property_id": p, "reason": "check under construction in this round (planned in DESIGN.md section 4); not yet claimed"} for p in ALL if p not in [c["id"] for c in CHECKS]]
