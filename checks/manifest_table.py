HOOKS = {
    "guard": "IMATH_VERIF_HOOKS",
    "enable": "no hooks are needed: every property is observed through public API (harness/*.cpp, harness/py/*); the guard name is reserved",
    "baseline_off_cmd": "cmake -G Ninja -S /repo -B /repo/_build -DBUILD_TESTING=ON && cmake --build /repo/_build -j16 && ctest --test-dir /repo/_build -j8 --timeout 900",
    "source_commits": [],
    "add_only": True,
}
NOTES = ("All verdicts come from TLC evaluating spec/*.tla. The harness only drives the real API of the code in /repo "
         "(rebuilt from the current working tree; binaries are cached under a hash of every repo source file) and logs raw bits as ndjson. "
         "Exit 2 means infrastructure failure, never a verdict. See DESIGN.md.")
ALL = ["C%02d" % i for i in range(1, 21)]
CHECKS = [
    {"id": "C01",
     "text": "Exhaustive: every one of the 2^32 float patterns and 2^16 half patterns is executed by the real code (C function and C++ constructor/cast); the outputs are compressed into a run certificate and TLC validates every run end and every table entry against the IEEE-754 value semantics of spec/IEEE754.tla (IsRNE relation with exact big-integer arithmetic), plus tiling of the whole input space. A bounded model run (MCHalf) checks that a transcription of half.h's branch structure refines the same definition.",
     "note": "Trusted: the ~30 lines of run compression in harness/sweep_half.c; monotonicity of RNE in the magnitude bits (checked by TLC on the half lattice, not proved for binary32); the compiler at -O2 without -ffast-math. FP exception flags are not observed.",
     "technique": "TLA+ value-semantics spec (IsRNE relation) + TLC validation of a complete run certificate recorded from the code; TLC refinement check of transcribed algorithm"},
]
NOT_APPLICABLE = [{"property_id": p, "reason": "check under construction in this round (planned in DESIGN.md section 4); not yet claimed"} for p in ALL if p not in [c["id"] for c in CHECKS]]
