"""C02: every half-conversion back-end and language mode returns identical bits."""
import os
import re
import filecmp
import vlib
import halfcommon

QUICK = ["cxx14-table", "cxx14-notable", "c-table", "cxx14-f16c", "cxx14-f16c-upward", "cxx20-notable", "cxx14-fpexc", "cxx14-table-upward", "cxx14-notable-daz"]
THOROUGH = QUICK + ["cxx17-table", "cxx20-table", "c-notable", "clang14-table"]


def table_trace(chk):
    """Run the repo's generator (toFloat.cpp) and lex the shipped toFloat.h; both value
    lists are logged as half->float records for HalfTrace (c = generator, k = shipped)."""
    src = os.path.join(vlib.REPO, "src/Imath/toFloat.cpp")
    exe = vlib.compile_harness("toFloat_gen", [src], link_half=False)
    gen = vlib.sh([exe], timeout=120).stdout
    shipped = open(os.path.join(vlib.REPO, "src/Imath/toFloat.h")).read()
    tok = re.compile(r"\{0x([0-9a-fA-F]{1,8})\}")
    g = [int(x, 16) for x in tok.findall(gen)]
    s = [int(x, 16) for x in tok.findall(shipped)]
    p = os.path.join(chk.work, "table.ndjson")
    if len(g) != 65536 or len(s) != 65536:
        q = os.path.join(chk.outdir, "table-length.txt")
        open(q, "w").write("generator prints %d entries, toFloat.h holds %d; expected 65536 each\n" % (len(g), len(s)))
        chk.violation("lookup table / generator do not have 65536 entries", q)
        n = min(len(g), len(s), 65536)
    else:
        n = 65536
    with open(p, "w") as f:
        f.write('{"e":"cfg","name":"generator-vs-shipped-table","lang":"text","nanmode":"sw"}\n')
        for h in range(n):
            f.write('{"e":"h2f","h":%d,"c":[%d,%d],"k":[%d,%d]}\n' % (h, g[h] >> 16, g[h] & 0xffff, s[h] >> 16, s[h] & 0xffff))
    files, _ = vlib.split_file(p, 8, chk.work, "table", header_lines=1)
    chk.traces("HalfTrace", files, what="toFloat.cpp output and toFloat.h entries vs H2F", episodes=1)


def run(tier):
    chk = vlib.Check("C02", tier)
    chk.model("MCHalf", what="definition vs transcribed algorithm (shared with C01)")
    names = THOROUGH if tier == "thorough" else QUICK
    if not halfcommon.have_f16c():
        names = [n for n in names if "f16c" not in n]
        chk.assumptions.append("CPU lacks F16C: hardware configuration skipped")
    certs = {}
    total = 0
    for n in names:
        files = halfcommon.sweep(chk, n)
        res, nrec = halfcommon.validate(chk, n, files)
        total += nrec
        certs[n] = files
        vlib.log("[C02] configuration %s validated (%d certificate records)" % (n, nrec))
    # extra datum (not the decision): software certificates byte-identical?
    sw = [n for n in names if halfcommon.CONFIGS[n][3] == "sw"]
    ident = {}
    for n in sw[1:]:
        same = True
        for a, b in zip(certs[sw[0]], certs[n]):
            la = open(a).readlines()[1:]
            lb = open(b).readlines()[1:]
            if la != lb:
                same = False
        ident[n] = same
    table_trace(chk)
    chk.sample_lines(certs[names[0]][2], idx=(1, 2, 3))
    chk.sample_lines(os.path.join(chk.work, "table.ndjson"), idx=(2, 1026, 31747))
    chk.assumptions += ["same trusted base as C01 (run compression, monotonicity lemma)",
                        "configurations are those this machine can build: MSVC intrinsics and CUDA paths are not covered"]
    return chk.finish(exhaustive=True, extra_cov={
        "configurations": names, "byte_identical_to_first_software_certificate": ident,
        "inputs_covered": "all 2^32 floats and all 2^16 halves, per configuration; 65536 generator values and 65536 shipped table entries",
        "distinct_nontrivial": total,
        "rule": "one complete run certificate per build configuration of half.h, each validated by TLC against F2HRel/H2F (F2HRelF16C for the hardware path); distinct_nontrivial counts certificate records over all configurations"})
