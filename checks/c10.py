"""C10: quaternion, matrix and axis-angle rotations are mutually consistent."""
import os
import vlib


def run(tier):
    chk = vlib.Check("C10", tier)
    thorough = tier == "thorough"
    chk.model("MCLinAlg", what="polynomial definitions shared with C05: quaternion norm multiplicative, cross product perpendicular, matrix product identities")
    exe = vlib.compile_harness("rec_rotation", ["rec_rotation.cpp"])
    w = chk.work
    count = 200 if thorough else 60
    files = vlib.parallel(lambda i: vlib.run_to_file([exe, str(vlib.SEED * 16 + i + 1), str(count)], os.path.join(w, "rot%02d.ndjson" % i)), range(16))
    chk.traces("RotationTrace", files, what="unit quaternions from Pythagorean lattices and near-degenerate families (w near 0, near +-1, half turns, |x|<|y|<<|z|), both signs; direction pairs from generic to exactly / nearly opposite (pi - 10^-k); slerp at dyadic, equally spaced and out-of-range parameters; squad/spline keys", episodes=1, timeout=7200)
    chk.sample_lines(files[0], idx=(1, 4, 5), maxlen=700)
    chk.assumptions += ["tolerances are 16-64 eps absolute on unit-size quantities; setRotation's direction error is admitted to grow like eps / |from^ + to^| towards opposite directions",
                        "slerp's linearity in t is checked as equality of 4-D dot products between equally spaced parameters (incl. t outside [0,1]) and the midpoint recursion, not through acos",
                        "tangent continuity of consecutive spline segments is screened by one-sided difference quotients (h = 2^-12, double precision, successive keys less than 60 degrees apart): a finite-difference check, not a proof of C1",
                        "exp(log q) is judged for real part above -63/64"]
    return chk.finish(extra_cov={"rule": "one record per (relation group, element type, inputs)"})
