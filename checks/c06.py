"""C06: matrix inversion returns a true inverse, or a clean singular outcome."""
import os
import re
import vlib


def run(tier):
    chk = vlib.Check("C06", tier)
    thorough = tier == "thorough"
    chk.model("MCLinAlg", what="polynomial definitions of determinant/minors (shared with C05): cofactor expansion, multiplicativity")
    exe = vlib.compile_harness("rec_invert", ["rec_invert.cpp"])
    w = chk.work
    count = 60 if thorough else 7
    files = vlib.parallel(lambda i: vlib.run_to_file([exe, str(vlib.SEED * 16 + i + 1), str(count)], os.path.join(w, "inv%02d.ndjson" % i)), range(16))
    res = chk.traces("InvertTrace", files, what="Matrix22/33/44 x float/double x {inverse, invert, gjInverse, gjInvert} x {(), (false)}: integer, full-precision, graded condition, nearly dependent, structured singular, |det| around 1, small determinant, affine / one-ulp-off-affine / projective last column, permutation-like", episodes=1, timeout=7200)
    skipped = 0
    for r in res:
        for i in r["info"]:
            m = re.match(r'"skipped",\s*(\d+)', i)
            if m:
                skipped += int(m.group(1))
    chk.cov["skipped_by_condition"] = skipped
    chk.sample_lines(files[0], idx=(1, 3, 5), maxlen=700)
    chk.assumptions += ["accuracy clause applies when kappa_inf <= 1/(4 eps) and the exact inverse is below max/4; bound K = 64 n",
                        "'moderately scaled' = non-zero entries within 2^(+-emax/8)",
                        "Gauss-Jordan's singular clause is judged only where a pivot column is exactly zero by structure (zero row/column, duplicate rows)",
                        "throwing forms are covered by C07"]
    return chk.finish(extra_cov={"rule": "one record per matrix with the results of every non-throwing form; forms with identical results judged once"})
