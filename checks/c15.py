"""C15: line, plane, sphere, triangle primitives satisfy their geometric definitions."""
import os
import vlib


def run(tier):
    chk = vlib.Check("C15", tier)
    thorough = tier == "thorough"
    chk.model("MCGeom", what="GeomCore on integers, 595k lattice cases: the triangle hit point lies on the line and in the plane, barycentric numerators sum to the denominator and recombine the vertices into the hit point, a line aimed at v0 has coordinates (1,0,0); the sphere quadratic equals |pos + t dir - c|^2 - r^2; |w.(u x v)|^2 <= |segment|^2 |u x v|^2 with equality exactly for the common perpendicular; parallel lines: |seg x u| independent of the points")
    chk.model("MCLinAlg", what="polynomial definitions shared with C05: cross product perpendicular to its operands, Lagrange identity, triple product")
    exe = vlib.compile_harness("rec_geom", ["rec_geom.cpp"])
    w = chk.work
    count = 400 if thorough else 60
    files = vlib.parallel(lambda i: vlib.run_to_file([exe, str(vlib.SEED * 16 + i + 1), str(count)], os.path.join(w, "geom%02d.ndjson" % i)), range(16))
    chk.traces("GeomTrace", files, what="lattice and dyadic lines (skew, intersecting, exactly parallel, coincident, nearly parallel at 2^-6..2^-14), points on and off the lines; planes from three points / point+normal / normal+distance, reflections, negation, line-plane intersections incl. lines parallel to and inside axis-aligned planes, plane x matrix for signed permutations, integer matrices, scale*rotation*translation and reflections; spheres with the ray origin outside, inside, on the sphere, pointing away, through the centre, near-tangent and missing; boxes for circumscribe; triangles aimed at interior points, edges, vertices and outside (barycentric lattice in eighths), front and back facing, origin beyond the triangle, zero-area triangles, lines parallel to the plane; closestVertex to lines and points; rotatePoint; project/orthogonal/reflect for Vec2/3/4", episodes=1, timeout=7200)
    chk.sample_lines(files[0], idx=(1, 2, 9), maxlen=700)
    chk.assumptions += ["inputs are small-integer or dyadic lattice points so that the exact geometry (cross products, barycentric numerators, discriminants) is computed without rounding in the specification; results are admitted within 64 eps at the scale of the inputs, amplified by 1/sin^2 of the angle between two lines (judged down to sin^2 = 2^-10) or 1/|n.dir| for line-plane hits",
                        "triangle hits are required for barycentric coordinates >= 2^-8 and forbidden for one <= -2^-8; in between (edges, vertices) either answer is admitted, but a reported hit must still reproduce its point from its barycentric coordinates",
                        "sphere: a reported parameter must be non-negative, lie on the sphere and have no smaller non-negative root (root-selection margin about sqrt(eps)); a refusal is rejected only when a root is clearly present",
                        "reflectVector is judged as the code defines it (2 n (n.v) - v: an involution preserving length and the normal component); the 'negates signed distance' clause is decided for reflectPoint",
                        "rotatePoint's sense of rotation is taken from the implementation (clockwise seen along the line direction)"]
    return chk.finish(extra_cov={"rule": "one record per (primitive, element type, input family)"})
