"""C08 and the vector part of C07 share one recorder and one trace spec (VecNormTrace); a rejected
record is attributed to the property whose clause failed."""
import os
import re
import vlib


def record_and_validate(chk, tier, keep=1):
    thorough = tier == "thorough"
    exe = vlib.compile_harness("rec_vecnorm", ["rec_vecnorm.cpp"])
    w = chk.work
    count = 8 if thorough else 1
    files = vlib.parallel(lambda i: vlib.run_to_file([exe, str(vlib.SEED * 16 + i + 1), str(count)], os.path.join(w, "vn%02d.ndjson" % i)), range(16))
    allp = os.path.join(w, "all.ndjson")
    seen = set()
    with open(allp, "w") as g:
        for f in files:
            for line in open(f):
                if line not in seen:
                    seen.add(line)
                    # keep = k > 1: every k-th normalisation record (all Vec3(Vec4) records): C07's quick tier judges a third of
                    # the records C08 judges in full - the pairing clauses it is after hold or fail for whole families at once
                    if keep > 1 and line.startswith('{"e":"vec"') and (len(seen) + vlib.SEED) % keep != 0:
                        continue
                    g.write(line)
    shards, n = vlib.split_file(allp, 16, w, "vnsh")
    return shards, allp


def run(pid, tier):
    chk = vlib.Check(pid, tier)
    chk.model("MCVecNorm", what="the VecNorm relations accept exact norms / exactly normalised vectors and reject values 16 ulp off, flipped signs and wrong ratios (non-vacuity and satisfiability of the relations), across the exponent range", workers=4)
    shards, allp = record_and_validate(chk, tier, keep=3 if (pid == "C07" and tier != "thorough") else 1)
    # attribute rejections: VecNormTrace tags each BADREC with the property whose clause failed
    mine = lambda rec, what: {"event": rec.get("e", ""), "what": what}
    res = vlib.validate_shards("VecNormTrace", shards, timeout=7200)
    nrec = nbad = 0
    for r in res:
        nrec += r["accepted"] or 0
        for (ln, wh) in r["bad"]:
            if ('"%s"' % pid) in wh:
                nbad += 1
                chk._bad("VecNormTrace", r["file"], ln, wh, vlib.read_line(r["file"], ln), None)
    chk.cov["records_validated"] += nrec
    chk.cov["traces_validated_against_impl"] += 1
    chk.cov["trace_runs"].append({"module": "VecNormTrace", "files": len(shards), "records": nrec, "rejected": nbad})
    vlib.log("[%s] trace VecNormTrace: %d records, %d rejected for this property" % (pid, nrec, nbad))
    chk.sample_lines(allp, idx=(1, 30, 2000), maxlen=700)
    if pid == "C08":
        chk.assumptions += ["scope: squared components do not overflow (evaluated exactly by the spec)",
                            "length within 8 ulp (checked by squaring, no sqrt in the spec); normalisation clauses apply when the norm is a normal number: signs, ratios (2x2 minors) and unit length within 16 eps"]
    else:
        if tier != "thorough":
            chk.assumptions += ["quick tier: every third normalisation record of the shared recorder is judged here (C08's quick tier judges all of them for its own clauses; the thorough tier of this property judges all)"]
        chk.assumptions += ["normalize*/Vec3(Vec4) pairs: checked returns => identical bits; throws std::domain_error exactly for the null vector / only when a quotient is within a factor 4 of max"]
    return chk


if __name__ == "__main__":
    pass
