"""C12: matrix factorisations recompose to their input with structured factors."""
import os
import vlib


def run(tier):
    chk = vlib.Check("C12", tier)
    thorough = tier == "thorough"
    if thorough:
        chk.model("MCFactor", what="exact factorisation on an integer lattice (8 scales x 27 shears x 24 rotations): the product S*H*R determines its factors (5184 distinct products), the factors are what Gram-Schmidt on the rows reads off (row_i . row_j identities), S * (H * R) = M with det(H * R) = 1, and negating all scales gives -M with negative determinant", timeout=3600)
    chk.model("MCLinAlg", what="polynomial definitions shared with C05: matrix product, determinant, transpose identities")
    exe = vlib.compile_harness("rec_factor", ["rec_factor.cpp", os.path.join(vlib.REPO, "src/Imath/ImathMatrixAlgo.cpp")])
    w = chk.work
    count = 60 if thorough else 10
    files = vlib.parallel(lambda i: vlib.run_to_file([exe, str(vlib.SEED * 16 + i + 1), str(count)], os.path.join(w, "fac%02d.ndjson" % i)), range(16))
    chk.traces("FactorTrace", files, what="affine 4x4 and 3x3 matrices composed from (s,h,r,t) with rotation and translation both non-zero: plain, one negative scale, two negative scales, one scale 2^-4..2^-12, one zero scale (degenerate: must be reported by all eight entry points, by return value and by std::domain_error); computeRSMatrix with all four keep flags; 3x3/4x4 matrices for jacobiSVD (with and without forcePositiveDeterminant) and the symmetric eigen solver: generic, rank-deficient, diagonal, repeated values, rank one, exchange matrix, zero; point sets of 1..7 points (generic, collinear, coplanar, zero weights) related by exact rigid / scaled transforms or perturbed", episodes=1, timeout=7200)
    chk.sample_lines(files[0], idx=(1, 3, 5), maxlen=700)
    chk.assumptions += ["recomposition is judged on the factor matrices the library's own set* builders produce from the extracted factors (those builders are validated by C09), multiplied exactly in the specification",
                        "tolerance: 64 eps of the working type at the scale of the matrix row (affine) or of the largest entry (SVD, eigen); scales down to 2^-12 of the others are inside the judged conditioning, smaller ones are not generated",
                        "procrustes optimality is decided by the first and second order conditions on the rotation (Q^T N symmetric, tr(P) I - P positive semidefinite), centroid correspondence and the optimal uniform scale, all evaluated exactly from the logged points; global optimality is not decided",
                        "minEigenVector/maxEigenVector are judged against the eigenvalue of smallest/largest absolute value, as their documentation states"]
    return chk.finish(extra_cov={"rule": "one record per (matrix or point set, element type, entry-point group)"})
