"""C01: float<->half conversion is exact IEEE-754 binary16, round-to-nearest-even."""
import os
import vlib
import halfcommon


def run(tier):
    chk = vlib.Check("C01", tier)
    chk.model("MCHalf", what="AlgoF2H/AlgoH2F refine H2F/F2HRel on all 2^16 halves and a structured float set; corollaries; classes; limits; round(n)")
    files = halfcommon.sweep(chk, "cxx14-table")
    res, nrec = halfcommon.validate(chk, "cxx14-table", files)
    if halfcommon.have_f16c():
        # the same statement holds for the hardware path, whatever the thread's rounding direction (C02 compares the back-ends;
        # here the F16C build under fesetround(FE_UPWARD) is held to the definition directly)
        f2 = halfcommon.sweep(chk, "cxx14-f16c-upward")
        res2, nrec2 = halfcommon.validate(chk, "cxx14-f16c-upward", f2)
        nrec += nrec2
    # ... and for the software path built with the documented IMATH_HALF_ENABLE_FP_EXCEPTIONS macro (extra statements in the
    # overflow / underflow branches must not disturb the conversion)
    f3 = halfcommon.sweep(chk, "cxx14-fpexc")
    res3, nrec3 = halfcommon.validate(chk, "cxx14-fpexc", f3)
    nrec += nrec3
    # ... and for the software path under a non-default floating-point environment: rounding direction upward, and
    # denormals-are-zero / flush-to-zero (the conversions are integer algorithms, independent of the FPU state)
    for extra in ("cxx14-table-upward", "cxx14-notable-daz"):
        f4 = halfcommon.sweep(chk, extra)
        res4, nrec4 = halfcommon.validate(chk, extra, f4)
        nrec += nrec4
    chk.sample_lines(files[3], idx=(1, 2, 3, 200))
    chk.sample_lines(files[0], idx=(2, 65540))
    chk.assumptions += [
        "run compression in harness/sweep_half.c (a run is emitted only when an output changes)",
        "RNE is monotone in the magnitude bits, so a run whose two ends satisfy F2HRel with the same image satisfies it throughout (checked by TLC on the half lattice in MCHalf, not proved for binary32)",
        "g++ -O2 on this machine compiles half.h as the shipped build does (no -ffast-math)"]
    return chk.finish(exhaustive=True, extra_cov={
        "inputs_covered": "all 2^32 float patterns via imath_float_to_half and half(float).bits(); all 2^16 half patterns via imath_half_to_float and half::operator float",
        "float_patterns": 4294967296, "half_patterns": 65536,
        "rule": "every float bit pattern is executed natively; maximal runs of equal output form a certificate; TLC validates both ends of every run plus tiling; distinct_nontrivial counts certificate records (runs + table entries)",
        "distinct_nontrivial": nrec})
