"""C08: length() and normalisation are accurate for every non-overflowing vector."""
import vecnorm_common


def run(tier):
    chk = vecnorm_common.run("C08", tier)
    return chk.finish(extra_cov={"rule": "exponent sweep over the whole range (every binary32 exponent, a seeded subset of binary64 exponents) x magnitude patterns (single component, equal, separated by 0/1/12/p/60 binades, signed zeros, lengthTiny threshold) x Vec2/3/4"})
