"""C18: random generators are deterministic, range-correct and rand48-compatible."""
import json
import os
import re
import vlib


def export_behaviours(chk, depth):
    """TLC enumerates every op sequence of the given depth from every boundary state and prints
    them; they are converted (lexically) to the replayer's line format."""
    cfg = os.path.join(chk.work, "Rand48Gen.cfg")
    open(cfg, "w").write("CONSTANT Depth = %d\nINIT Init\nNEXT Next\nINVARIANT Export\nCHECK_DEADLOCK FALSE\n" % depth)
    r = vlib.run_tlc("MCRand48", cfg, workers=1, timeout=1200)
    if not r["ok"]:
        raise vlib.Infra("behaviour export failed:\n" + r["out"][-2000:])
    beh = []
    for m in re.finditer(r'"BEHAVIOUR (.*)"\s*$', r["out"], re.M):
        beh.append(json.loads(m.group(1).replace('\\"', '"')))
    p = os.path.join(chk.work, "behaviours.txt")
    with open(p, "w") as f:
        for b in beh:
            for step in b:
                if step["op"] == "set":
                    f.write("set %d %d %d\n" % tuple(step["st"]))
                else:
                    f.write(step["op"] + "\n")
    return p, beh


def run(tier):
    chk = vlib.Check("C18", tier)
    thorough = tier == "thorough"
    chk.model("MCRand48", what="StepLimbs refines Step; erand48 bit packing satisfies the POSIX relation; ranges; boundary states x all op sequences")
    exe = vlib.compile_harness("rec_rand", ["rec_rand.cpp", os.path.join(vlib.REPO, "src/Imath/ImathRandom.cpp")], flags=["-ffp-contract=off"])
    w = chk.work
    eps = 400 if thorough else 60
    nshard = 16
    files, gfiles, ofiles = [], [], []
    for i in range(nshard):
        sd = str(vlib.SEED * 1000 + i)
        files.append(vlib.run_to_file([exe, "imath", sd, str(eps)], os.path.join(w, "imath.%02d.ndjson" % i)))
        ofiles.append(vlib.run_to_file([exe, "objects", sd, str(max(10, eps // 4))], os.path.join(w, "objects.%02d.ndjson" % i)))
    for i in range(4):
        gfiles.append(vlib.run_to_file([exe, "glibc", str(vlib.SEED * 77 + i), str(eps)], os.path.join(w, "glibc.%02d.ndjson" % i)))
    chk.traces("Rand48Trace", files, what="Imath rand48 family: interleaved srand48/lrand48/drand48/nrand48/erand48", episodes=eps * nshard)
    chk.traces("Rand48Trace", ofiles, what="Rand32/Rand48 objects: ranges, samplers, determinism against twins")
    g = chk.traces("Rand48Trace", gfiles, what="glibc's rand48 family under the same spec (validates the spec as a statement of POSIX)")
    # solidSphereRand at the resolution of its rejection test: millions of draws, the near-boundary ones judged exactly
    bfiles = vlib.parallel(lambda i: vlib.run_to_file([exe, "ballscan", str(vlib.SEED * 16 + i), str(2000 if thorough else 700)], os.path.join(w, "ball.%02d.ndjson" % i)), range(8))
    allb = os.path.join(w, "ball.ndjson")
    with open(allb, "w") as gg:
        for bf in bfiles:
            gg.write(open(bf).read())
    bsh, nb = vlib.split_file(allb, 16, w, "ballsh")
    chk.traces("Rand48Trace", bsh, what="solidSphereRand<V2f/V3f/V4f/V3d>(Rand48 / Rand32): 8 x 6 seeds x %d draws each, the points within 2^-20 of the unit sphere judged with the float-exact squared length <= 1" % ((2000 if thorough else 700) * 1000))
    bp, beh = export_behaviours(chk, 5 if thorough else 4)
    rp = vlib.run_to_file([exe, "replay", bp], os.path.join(w, "replay.ndjson"))
    rfiles, _ = vlib.split_file(rp, 8, w, "replay")
    chk.traces("Rand48Trace", rfiles, what="%d TLC-generated behaviours from boundary states replayed into the code" % len(beh), episodes=len(beh))
    chk.sample_lines(files[0], idx=(1, 2, 3, 4))
    chk.sample_lines(ofiles[0], idx=(2, 5))
    chk.sample(beh[1] if len(beh) > 1 else beh)
    chk.assumptions += ["Rand32/Rand48 seeding formulas are not pinned (the property only demands a pure function of the seed): determinism is checked against twin objects",
                        "2^48 states are sampled (boundary states + seeded random), not enumerated",
                        "the ball scan models Vec::length2() as unfused IEEE arithmetic; the recorder is compiled with -ffp-contract=off so that the library's inline code is"]
    return chk.finish(extra_cov={"behaviours_replayed": len(beh),
                                 "rule": "episodes = seeded random interleavings of all entry points over 4 caller-visible state arrays (half of them boundary states) and the static state; distinct records counted"})
