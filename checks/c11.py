"""C11: Euler angles round-trip through matrices and quaternions in all 24 orders."""
import json
import os
import re
import vlib


def run(tier):
    chk = vlib.Check("C11", tier)
    thorough = tier == "thorough"
    r = chk.model("MCEuler", what="all order codes 0..0x2111: encode/decode bijection on the 24 legal codes, angleOrder/angleMapping mutually inverse; exports the table of legal codes")
    m = re.search(r'"TABLE (\[.*\])"', r["out"])
    if not m:
        raise vlib.Infra("MCEuler did not export the order table")
    codes = json.loads(m.group(1))
    exe = vlib.compile_harness("rec_euler", ["rec_euler.cpp"])
    w = chk.work
    tp = os.path.join(w, "table.txt")
    open(tp, "w").write("\n".join(map(str, codes)) + "\n")
    tf = vlib.run_to_file([exe, "table", tp], os.path.join(w, "table.ndjson"))
    chk.traces("EulerTrace", [tf], what="the 24 legal orders exported by TLC, replayed on Euler<float> and Euler<double> with distinguishable angles: order(), flags, angleOrder/angleMapping, IJK and XYZ slot layouts", episodes=len(codes))
    count = 40 if thorough else 5
    files = vlib.parallel(lambda i: vlib.run_to_file([exe, "rec", str(vlib.SEED * 16 + i + 1), str(count)], os.path.join(w, "eul%02d.ndjson" % i)), range(16))
    # (seed 16k+... with it == 0 in shard 0 also records every signed axis-permutation matrix x every order: exact gimbal lock)
    chk.traces("EulerTrace", files, what="24 orders x angle triples over several periods x float/double, middle angle at and within 10^-k of gimbal lock: toMatrix33/44/toQuat vs the definitional product of elementary rotations; extraction and conversion back; re-ordering; makeNear family (targets in the same and in other orders); extractEuler*; angleMod", episodes=1, timeout=7200)
    chk.sample_lines(tf, idx=(1, 13), maxlen=500)
    chk.sample_lines(files[0], idx=(1, 2), maxlen=700)
    chk.assumptions += ["libm is trusted for sin/cos (logged facts constrained by sin^2+cos^2 = 1)",
                        "matrices within 64 eps of the definition; round trips within 256 eps; makeNear/nearestRotation/simpleXYZRotation and angleMod to single precision, as the property states"]
    return chk.finish(extra_cov={"orders": len(codes), "rule": "one record per (order, element type, angle triple, relation group)"})
