"""C09: transform builders act as documented; in-place forms pre-multiply."""
import json
import os
import re
import vlib


def gen_programs(chk, dim, num, seed):
    cfg = os.path.join(chk.work, "TransformGen%d.cfg" % dim)
    open(cfg, "w").write("CONSTANTS Dim = %d MaxDepth = 4\nINIT Init\nNEXT Next\nINVARIANT Export\nINVARIANT PointsFirstThroughSet\nCHECK_DEADLOCK FALSE\n" % dim)
    r = vlib.run_tlc("MCTransform", cfg, workers=1, timeout=900, extra=["-simulate", "num=%d" % num, "-depth", "6", "-seed", str(seed)])
    beh = sorted(set(re.findall(r'"BEHAVIOUR (.*)"\s*$', r["out"], re.M)))
    if not beh:
        raise vlib.Infra("no Transform behaviours generated:\n" + r["out"][-1500:])
    return [json.loads(b.replace('\\"', '"')) for b in beh]


def run(tier):
    chk = vlib.Check("C09", tier)
    thorough = tier == "thorough"
    chk.model("MCTransform", "MCTransform3.cfg", what="2-D homogeneous (3x3) integer matrices: M' = Set * M; a point goes first through the new transform, then through the old matrix")
    chk.model("MCTransform", "MCTransform4.cfg", what="3-D homogeneous (4x4) integer matrices, all shear overloads")
    exe = vlib.compile_harness("rec_transform", ["rec_transform.cpp"])
    w = chk.work
    count = 150 if thorough else 18
    files = vlib.parallel(lambda i: vlib.run_to_file([exe, "rec", str(vlib.SEED * 16 + i + 1), str(count)], os.path.join(w, "tf%02d.ndjson" % i)), range(16))
    chk.traces("TransformTrace", files, what="every set* builder (all overloads) against its documented layout incl. action on points; single in-place steps on NON-affine current matrices (float/double, integer/dyadic/full-precision parameters, angles over many periods); frames incl. degenerate direction pairs", episodes=1, timeout=7200)
    progs = []
    for dim in (3, 4):
        progs += [(dim, p) for p in gen_programs(chk, dim, 80 if thorough else 15, vlib.SEED + dim)]
    pp = os.path.join(w, "programs.txt")
    with open(pp, "w") as f:
        for i, (dim, p) in enumerate(progs):
            f.write("prog %d %d\n" % (i, dim))
            for s in p:
                f.write("%s %s\n" % (s["op"], " ".join(map(str, s["a"]))))
    rp = vlib.run_to_file([exe, "replay", pp], os.path.join(w, "replay.ndjson"))
    # shard on program boundaries (step 1)
    shards = [[] for _ in range(8)]
    n = 0
    for line in open(rp):
        if '"step":1,' in line and '"t":"f"' in line:
            n += 1
        shards[n % 8].append(line)
    rfiles = []
    for i, s in enumerate(shards):
        p = os.path.join(w, "tfreplay.%02d.ndjson" % i)
        open(p, "w").writelines(s)
        rfiles.append(p)
    chk.traces("TransformTrace", rfiles, what="%d TLC-generated sequences (depth 4) of in-place operations from non-affine integer matrices, replayed on Matrix33/Matrix44 float and double; each step chained through the observed matrix" % len(progs), episodes=len(progs))
    chk.sample_lines(files[0], idx=(1, 13, 30), maxlen=600)
    chk.sample(progs[0][1])
    chk.assumptions += ["libm is trusted for sin/cos values (facts admitted to 2 ulp and constrained by sin^2+cos^2 = 1)",
                        "in-place operations are compared with the product of the code's own set* matrix (validated separately) and the current matrix",
                        "frame axes are judged to 2^-14 relative (nextFrame takes its angle from acosf); 'nearly parallel' = |a x b|^2 < 2^-10 |a|^2 |b|^2 is outside the judged scope except for orthonormality of alignZAxisWithTargetDir/rotationMatrixWithUpDir"]
    return chk.finish(extra_cov={"programs_replayed": len(progs), "rule": "one record per (function/operation, element type, arguments[, current matrix])"})
