"""C03: half is a coherent numeric type: arithmetic, classes, limits, round(n), LUT, text."""
import os
import vlib


def run(tier):
    chk = vlib.Check("C03", tier)
    thorough = tier == "thorough"
    chk.model("MCHalf", what="class partition, limits extremal, RoundRel satisfiable+functional+within half a unit, for all 2^16 x n in 0..12")
    exe = vlib.compile_harness("rec_half", ["rec_half.cpp"])
    w = chk.work
    jobs = [("cls", [exe, "cls"]), ("limits", [exe, "limits"]),
            ("arith", [exe, "arith", tier, str(vlib.SEED)]),
            ("lut", [exe, "lut", tier])]
    stride = 1 if thorough else 5
    jobs.append(("round", [exe, "round", str(stride), str(vlib.SEED)]))
    vlib.parallel(lambda j: vlib.run_to_file(j[1], os.path.join(w, j[0] + ".ndjson"), timeout=1800), jobs)
    # stateless event kinds are sharded freely; the LUT trace is stateful (lutbuild precedes its lookups)
    for name, nsh in (("cls", 4), ("round", 16), ("arith", 16)):
        files, n = vlib.split_file(os.path.join(w, name + ".ndjson"), nsh, w, name)
        chk.traces("HalfTrace", files, what=name, episodes=1)
        chk.sample_lines(files[0], idx=(1, 7))
    chk.traces("HalfTrace", [os.path.join(w, "limits.ndjson")], what="numeric_limits<half> and HALF_* macros", episodes=1)
    chk.sample_lines(os.path.join(w, "limits.ndjson"), idx=(1,), maxlen=900)
    # LUT: one shard per table (each starts with its lutbuild line)
    lines = open(os.path.join(w, "lut.ndjson")).readlines()
    shards, cur = [], None
    for ln in lines:
        if ln.startswith('{"e":"lutbuild"'):
            cur = []
            shards.append(cur)
        cur.append(ln)
    files = []
    for i, s in enumerate(shards):
        p = os.path.join(w, "lut.%02d.ndjson" % i)
        open(p, "w").writelines(s)
        files.append(p)
    chk.traces("HalfTrace", files, what="halfFunction tables: Build then Lookup of all 2^16 patterns", episodes=len(files))
    chk.sample_lines(files[1], idx=(1, 2))
    chk.assumptions += ["hardware float +,-,*,/ are not trusted: the spec computes the correctly rounded binary32 result itself (IEEE754!FOp) and then F2H",
                        "when the float operation is invalid or an operand is NaN only NaN-ness of the result is required",
                        "text round trip is checked as equality of re-read bits for finite halves; decimal correctness of the digits is not decided"]
    return chk.finish(extra_cov={
        "rule": "classes/negation/text: all 2^16 patterns; round(n): every %s pattern x 19 values of n; arithmetic: boundary-class operand set B x B x 4 ops (half rhs), B x boundary floats x 4 ops (float rhs) plus seeded random pairs; LUT: each table probed at all 2^16 patterns" % ("" if thorough else "5th"),
        "exhaustive": False})
