"""C14: ray-box and line-box intersection are geometrically exact."""
import os
import re
import vlib


def run(tier):
    chk = vlib.Check("C14", tier)
    thorough = tier == "thorough"
    chk.model("MCRayBox", "MCRayBoxT.cfg" if thorough else "MCRayBox.cfg",
              what="candidate-set definition = literal search over a fine grid of parameters = slab method, on an integer lattice (all boxes incl. inverted x origins x directions)")
    exe = vlib.compile_harness("rec_raybox", ["rec_raybox.cpp"])
    w = chk.work
    nl, nt, ne = (400000, 120000, 30000) if thorough else (50000, 14000, 3500)
    jobs = []
    for i in range(16):
        sd = str(vlib.SEED * 100 + i)
        jobs.append(("lat%02d" % i, [exe, "lattice", sd, str(nl // 16)]))
        jobs.append(("thr%02d" % i, [exe, "through", sd, str(nt // 16)]))
        jobs.append(("ext%02d" % i, [exe, "extreme", sd, str(ne // 16)]))
    vlib.parallel(lambda j: vlib.run_to_file(j[1], os.path.join(w, j[0] + ".ndjson"), timeout=1800), jobs)
    # one shard = one lattice + one through + one extreme file (balanced)
    files = []
    for i in range(16):
        p = os.path.join(w, "shard%02d.ndjson" % i)
        seen = set()
        with open(p, "w") as g:
            for pre in ("lat", "thr", "ext"):
                for line in open(os.path.join(w, "%s%02d.ndjson" % (pre, i))):
                    if line not in seen:        # drop exact duplicates so that records are distinct cases
                        seen.add(line)
                        g.write(line)
        # keep every trace file well below 65536 records (TLC's limit on the length of one behaviour)
        n = sum(1 for _ in open(p))
        if n > 40000:
            sub, _ = vlib.split_file(p, (n + 39999) // 40000, w, "shard%02d_" % i)
            files += sub
        else:
            files.append(p)
    res = chk.traces("RayBoxTrace", files, what="lattice sample + constructed grazing rays + extreme direction components; float and double; 3 entry points each", episodes=1, timeout=7200)
    skipped = 0
    for r in res:
        for i in r["info"]:
            m = re.match(r'"skipped",\s*(\d+)', i)
            if m:
                skipped += int(m.group(1))
    chk.cov["skipped_by_condition"] = skipped
    chk.sample_lines(files[0], idx=(1, 2), maxlen=700)
    chk.sample_lines(os.path.join(w, "thr00.ndjson"), idx=(1,), maxlen=700)
    chk.sample_lines(os.path.join(w, "ext00.ndjson"), idx=(1,), maxlen=700)
    chk.assumptions += ["lattice cases are a seeded sample of the bounded lattice (boxes with corners in {0..3}^3 incl. flat and inverted, origins in [-1,4]^3 or [-16,16]^3, directions in [-2,2]^3 or [-13,13]^3), not the whole lattice",
                        "extreme-direction records (zero, denormal, huge components) are judged where the exact decision is stable: a hit is required when the ray also hits the box shrunk by 2^-20 relative on every side and its first-contact parameter is below max/4, a miss when it also misses the box grown by the same margin; grazing contact within that margin and flat boxes are counted in skipped_by_condition (the integer-lattice records judge grazing contact exactly)",
                        "reported points are required to be in the box, on its surface (unless the origin is inside) and within 16 u (|pos_i| + |t dir_i|) of the exact point"]
    return chk.finish(extra_cov={"rule": "one record per (family, element type, box, origin, direction) with the results of intersects(box,ray), intersects(box,ray,ip), findEntryAndExitPoints; exact duplicates removed"})
