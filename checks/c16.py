"""C16: frustum projection, depth mapping, planes and culling are mutually consistent."""
import json
import os
import re
import vlib


def gen_programs(chk, num, seed):
    cfg = os.path.join(chk.work, "FrustumGen.cfg")
    open(cfg, "w").write("CONSTANTS MaxDepth = 4\nINIT Init\nNEXT Next\nINVARIANT Export\nINVARIANT StaysWellFormed\nINVARIANT StepRelations\nCHECK_DEADLOCK FALSE\n")
    r = vlib.run_tlc("MCFrustum", cfg, workers=1, timeout=900, extra=["-simulate", "num=%d" % num, "-depth", "6", "-seed", str(seed)])
    beh = sorted(set(re.findall(r'"BEHAVIOUR (.*)"\s*$', r["out"], re.M)))
    if not beh:
        raise vlib.Infra("no Frustum behaviours generated:\n" + r["out"][-1500:])
    return [json.loads(b.replace('\\"', '"')) for b in beh]


def run(tier):
    chk = vlib.Check("C16", tier)
    thorough = tier == "thorough"
    chk.model("MCFrustum", "MCFrustum.cfg" if not thorough else "MCFrustumDeep.cfg", what="Frustum state machine (set / setOrthographic / modifyNearAndFar / window) on integer lattices; in every reachable state: corners map to the cube corners, matrix entries are the coefficients of the clip map, depth closed forms satisfy the defining relation, the six planes bound exactly the hull of the corners with outward normals, localToScreen inverts screenToLocal, the centre/extent box test equals the test over all corners; modifyNearAndFar keeps slopes and aspect, windows nest")
    exe = vlib.compile_harness("rec_frustum", ["rec_frustum.cpp"])
    w = chk.work
    count = 120 if thorough else 24
    files = vlib.parallel(lambda i: vlib.run_to_file([exe, "rec", str(vlib.SEED * 16 + i + 1), str(count)], os.path.join(w, "fr%02d.ndjson" % i)), range(16))
    chk.traces("FrustumTrace", files, what="perspective and orthographic frusta: symmetric, asymmetric, off-axis windows, near/far ratios up to 2^22, dyadic and tiny (1/64) windows; points in, around, 3x beyond the frustum and behind the eye plane; normalized depths 0..1 with two integer z ranges; cameras: identity, translated, rigid, uniformly and non-uniformly scaled, rolled 90 degrees, sheared, quarter turns; witnesses inside and outside with boxes and spheres centred on them or touching them with a corner / surface point", episodes=1, timeout=7200)
    progs = gen_programs(chk, 120 if thorough else 30, vlib.SEED + 16)
    progs = progs[::max(1, len(progs) // (1000 if thorough else 160))]
    pp = os.path.join(w, "programs.txt")
    with open(pp, "w") as f:
        for i, p in enumerate(progs):
            f.write("prog %d\n" % i)
            for s in p:
                f.write("%s %s\n" % (s["op"], " ".join(map(str, s["a"]))))
    rp = vlib.run_to_file([exe, "replay", pp], os.path.join(w, "replay.ndjson"))
    shards = [[] for _ in range(8)]
    n = -1
    for line in open(rp):
        if '"e":"step"' in line and '"step":1,' in line:
            n += 1
        shards[n % 8].append(line)
    rfiles = []
    for i, s in enumerate(shards):
        if s:
            p = os.path.join(w, "frreplay.%02d.ndjson" % i)
            open(p, "w").writelines(s)
            rfiles.append(p)
    chk.traces("FrustumTrace", rfiles, what="%d TLC-generated operation sequences (depth 4) replayed on Frustum<float> and Frustum<double>: each step's post-state against the transition relation from the observed pre-state (chained), copy/assignment/equality, and every query after every step" % len(progs), episodes=2 * len(progs))
    chk.sample_lines(files[0], idx=(1, 2, 5), maxlen=700)
    chk.sample(progs[0])
    chk.assumptions += ["libm is trusted for tan/atan2: fov relations are checked through tan() of the returned angle, below 90 degrees",
                        "tolerances are 64 eps relative, amplified by (|l|+|r|)/(r-l) for screen coordinates of off-axis windows and by 1/sin^2 of the angle a window subtends for the direction of perspective side planes",
                        "planes(p, M) is judged for affine cameras with positive determinant (rigid, scaled, sheared): images of the face corners on the plane, all other corner images strictly inside, and equality with planes(p)[k] * M",
                        "culling: witnesses are constructed by the recorder but verified by the specification (inside the object and strictly inside all six recorded planes) before an isVisible = false is rejected; completelyContains = true is rejected if any box corner / the sphere's extreme point lies clearly outside a plane; clear cases in the other direction (object wholly beyond one plane; object wholly inside) are also required"]
    return chk.finish(extra_cov={"programs_replayed": len(progs), "rule": "one record per (query group, element type, frustum[, camera, object])"})
