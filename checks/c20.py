"""C20: vectorised PyImath ops equal element-wise scalar ops under any task partition."""
import json
import os
import re
import subprocess
import vlib

QUICK = ["IntArray", "FloatArray", "DoubleArray", "UnsignedCharArray", "V2fArray", "V3fArray", "V3dArray", "V4fArray", "V3iArray",
         "QuatfArray", "M44fArray", "M33dArray", "C4fArray", "Box3fArray", "@functions", "@hosts", "@2d"]
ALL = ["BoolArray", "Box2dArray", "Box2fArray", "Box2iArray", "Box2sArray", "Box3dArray", "Box3fArray", "Box3iArray", "Box3sArray",
       "C3cArray", "C3fArray", "C4cArray", "C4fArray", "DoubleArray", "EulerdArray", "EulerfArray", "FloatArray", "IntArray", "M22dArray",
       "M22fArray", "M33dArray", "M33fArray", "M44dArray", "M44fArray", "QuatdArray", "QuatfArray", "ShortArray", "SignedCharArray",
       "UnsignedCharArray", "UnsignedIntArray", "UnsignedShortArray", "V2dArray", "V2fArray", "V2iArray", "V2sArray", "V3dArray", "V3fArray",
       "V3iArray", "V3sArray", "V4dArray", "V4fArray", "V4iArray", "V4sArray", "V2i64Array", "V3i64Array", "V4i64Array", "@functions", "@hosts", "@2d"]


def build_shim(py):
    d = py["dir"]
    out = os.path.join(vlib.BUILD, "poolshim-%s.so" % os.path.basename(d))
    src = os.path.join(vlib.HARNESS, "poolshim.cpp")
    lib = [f for f in os.listdir(os.path.join(d, "src/python/PyImath")) if re.match(r"libPyImath_Python3_11-\d+_\d+\.so$", f)]
    if not lib:
        raise vlib.Infra("libPyImath not found in " + d)
    vlib.sh(["g++", "-O2", "-std=c++14", "-fPIC", "-shared", "-I", os.path.join(vlib.REPO, "src/python/PyImath"),
             "-I", os.path.join(d, "src/python/PyImath"), "-I", os.path.join(d, "config"), src, "-o", out,
             "-L", os.path.join(d, "src/python/PyImath"), "-l" + lib[0][3:-3], "-lpthread"], timeout=600)
    return out


def schedules(chk, ncells, seed):
    """Every (partition, order) of ncells abstract cells, exported by TLC; plus seeded fine partitions."""
    cfg = os.path.join(chk.work, "TaskPoolGen.cfg")
    open(cfg, "w").write('CONSTANTS N = %d Threads <- ThreadsA Kind = "wellformed" MinIter = 1\nINIT Init\nNEXT Next\nINVARIANT ExportSchedules\nCHECK_DEADLOCK FALSE\n' % ncells)
    r = vlib.run_tlc("MCTaskPool", cfg, workers=1, timeout=900)
    m = re.search(r'"SCHEDULES (.*)"\s*$', r["out"], re.M)
    if not m:
        raise vlib.Infra("no schedules exported:\n" + r["out"][-1500:])
    sch = json.loads(m.group(1).replace('\\"', '"'))
    out = []
    for s in sch:
        rs = [[a, b, i % 3] for i, (a, b) in enumerate(s["ranges"])]
        out.append({"n": s["n"], "ranges": rs, "threaded": len(rs) > 1})
    # fine partitions: singletons at both ends, many small blocks, reversed order
    import random
    rnd = random.Random(seed)
    n = 64
    cuts = sorted(rnd.sample(range(1, n), 9))
    pts = [0, 1] + [c for c in cuts if c > 1 and c < n - 1] + [n - 1, n]
    pts = sorted(set(pts))
    fine = [[pts[i], pts[i + 1], i % 5] for i in range(len(pts) - 1)]
    out.append({"n": n, "ranges": fine, "threaded": True})
    out.append({"n": n, "ranges": fine[::-1], "threaded": True})
    sh = fine[:]
    rnd.shuffle(sh)
    out.append({"n": n, "ranges": sh, "threaded": True})
    return out


def run(tier):
    chk = vlib.Check("C20", tier)
    thorough = tier == "thorough"
    chk.model("MCTaskPool", "MCTaskPool_wellformed.cfg", what="well-formed tasks: result independent of partition, order and element-level interleaving; writes in bounds")
    # negative controls must be rejected by the model (non-vacuity of the theorem)
    neg = {}
    for k in ("ignoresStart", "relIndex", "sharedScratch"):
        r = vlib.run_tlc("MCTaskPool", "MCTaskPool_%s.cfg" % k, timeout=900)
        neg[k] = bool(r["invariant_violated"])
        if not neg[k]:
            raise vlib.Infra("negative control %s was not rejected by the model" % k)
    py = vlib.pyimath_build()
    so = build_shim(py)
    sch = schedules(chk, 5 if thorough else 4, vlib.SEED)
    sp = os.path.join(chk.work, "schedules.json")
    json.dump(sch, open(sp, "w"))
    classes = ALL if thorough else QUICK
    drv = os.path.join(vlib.HARNESS, "py", "rec_vectorised.py")
    crashed = []

    def rec(c):
        p = os.path.join(chk.work, "vec-%s.ndjson" % c.strip("@"))
        with open(p, "w") as f:
            e = dict(os.environ)
            e.update(py["env"])
            r = subprocess.run([py["python"], drv, so, sp, c, str(vlib.SEED), tier], stdout=f, stderr=subprocess.PIPE, env=e, timeout=7200)
        if r.returncode != 0 and -r.returncode in vlib.FATAL_SIGNALS:
            with open(p, "w") as f:                 # a fatal signal is believed only if a second run repeats it
                r2 = subprocess.run([py["python"], drv, so, sp, c, str(vlib.SEED), tier], stdout=f, stderr=subprocess.PIPE, env=e, timeout=7200)
            if r2.returncode == r.returncode:
                raise vlib.Crash([py["python"], drv, so, sp, c, str(vlib.SEED), tier], -r.returncode, r2.stderr.decode("utf8", "replace")[-3000:], p)
            r = r2
        if r.returncode != 0:
            crashed.append((c, r.returncode, r.stderr.decode("utf8", "replace")[-800:]))
        return p
    files = vlib.parallel(rec, classes)
    if crashed:
        raise vlib.Infra("vectorised driver failed for %s" % crashed[:3])
    files = [f for f in files if os.path.getsize(f) > 0]
    res = chk.traces("TaskPoolTrace", files, what="%d array classes + free functions + array-taking methods of Matrix44 / Box / FrustumTest (hand-written tasks, incl. the per-thread partial boxes of Box.extendBy) + array methods with heterogeneous arguments + every operator of the 2-D array and matrix classes against an independent element oracle; %d schedules (all partitions/orders of %d cells from TLC, fine partitions, threaded variants)" % (len(classes) - 3, len(sch), 5 if thorough else 4), heap="6g")
    # the scalar bindings of the math free functions against the definitions of the C++ functions they wrap (FunTrace = C17's spec)
    e2 = dict(os.environ)
    e2.update(py["env"])
    scp = vlib.run_to_file([py["python"], drv, so, sp, "@scalars", str(vlib.SEED), tier], os.path.join(chk.work, "scalars.ndjson"), timeout=1800, env=e2)
    sfiles, _ = vlib.split_file(scp, 8, chk.work, "scalars")
    chk.traces("FunTrace", sfiles, what="scalar bindings imath.clamp / lerp / lerpfactor / abs / sign / cmp / cmpt / iszero / equal (double and int overloads) and divs / mods / divp / modp, on IEEE specials (NaN, signed zeros, infinities, inverted ranges) and dyadic operands, against the definitions of the C++ functions", episodes=1)
    lap = vlib.run_to_file([py["python"], drv, so, sp, "@linalg", str(vlib.SEED), tier], os.path.join(chk.work, "scalar-linalg.ndjson"), timeout=1800, env=e2)
    lfiles, _ = vlib.split_file(lap, 8, chk.work, "scalarla")
    chk.traces("LinAlgTrace", lfiles, what="scalar bindings of dot / cross / quaternion and matrix products / vector x matrix (plain and homogeneous, operator and multVecMatrix) / determinant / transposed for V2-4, M22-44, Quat in float and double, against the algebraic definitions (C05's spec)", episodes=1)
    vnp = vlib.run_to_file([py["python"], drv, so, sp, "@vecnorm", str(vlib.SEED), tier], os.path.join(chk.work, "scalar-vecnorm.ndjson"), timeout=1800, env=e2)
    vres = vlib.validate_shards("VecNormTrace", [vnp], timeout=3600)
    vbad = 0
    for r_ in vres:
        for (ln, wh) in r_["bad"]:
            vbad += 1
            chk._bad("VecNormTrace", r_["file"], ln, wh, vlib.read_line(r_["file"], ln), None)
    chk.cov["records_validated"] += sum((r_["accepted"] or 0) for r_ in vres)
    chk.cov["trace_runs"].append({"module": "VecNormTrace", "files": 1, "records": sum((r_["accepted"] or 0) for r_ in vres), "rejected": vbad,
                                  "what": "scalar bindings of length / length2 / dot and the six normalisation forms of V2/V3/V4 in float and double (zero, axis, generic, huge, tiny and subnormal vectors) against C08/C07's relations"})
    vlib.log("[C20] trace VecNormTrace: %d records, %d rejected (scalar bindings of the normalisation forms)" % (sum((r_["accepted"] or 0) for r_ in vres), vbad))
    ivp = vlib.run_to_file([py["python"], drv, so, sp, "@invert", str(vlib.SEED), tier], os.path.join(chk.work, "scalar-invert.ndjson"), timeout=1800, env=e2)
    ifiles, _ = vlib.split_file(ivp, 8, chk.work, "scalarinv")
    chk.traces("InvertTrace", ifiles, what="scalar bindings of inverse / invert / gjInverse / gjInvert (singExc = False) for M22/M33/M44 in float and double: integer, full-precision, affine and exactly singular matrices, against C06's specification (true inverse, identity for singular input, in-place = returning)", episodes=1)
    combos = 0
    for f in files:
        combos += sum(1 for line in open(f) if line.startswith('{"e": "ref"'))
    chk.sample_lines(files[1], idx=(1,), maxlen=500)
    chk.sample(sch[3])
    chk.sample_lines(files[1], idx=(3,), maxlen=300)
    chk.assumptions += ["entry points are discovered by introspection of the module; a combination that raises TypeError on 6-element arrays is treated as non-existent",
                        "the scalar-binding comparison is made for class-element arrays (V*, Quat*, M*, C*, Box*) and the free functions; for primitive-element arrays Python's own operators are not the scalar binding and that clause is not judged",
                        "threaded schedules run each range on its own thread released by a barrier; data races that never change a result are not detected",
                        "scalar bindings vs the C++ library: judged here for the math free functions (clamp, lerp, lerpfactor, abs, sign, cmp, cmpt, iszero, equal, divs/mods/divp/modp) against C17's definitions; and for the products of the vector / matrix / quaternion classes against C05's definitions; for the remaining class methods the C++ functions themselves are judged by the other properties' recorders and the bindings are taken to forward to them"]
    return chk.finish(extra_cov={"entry_point_combinations": combos, "negative_controls_rejected": neg, "schedules": len(sch),
                                 "rule": "one sched record per (class, operator/method/function, argument-kind combination, length, schedule, threaded?)"})
