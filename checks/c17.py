"""C17: scalar, root-finding and colour utilities equal their mathematical definitions."""
import os
import vlib


def run(tier):
    chk = vlib.Check("C17", tier)
    thorough = tier == "thorough"
    chk.model("MCFun", what="four-way sign tables of divs/mods/divp/modp refine the definitions on -40..40; floor/ceil/trunc characterisation on a dyadic grid; hsv2rgb and rgb2hsv mutually inverse (exact rationals) on the k/8 lattice")
    exe = vlib.compile_harness("rec_fun", ["rec_fun.cpp", os.path.join(vlib.REPO, "src/Imath/ImathFun.cpp"), os.path.join(vlib.REPO, "src/Imath/ImathColorAlgo.cpp")])
    w = chk.work
    jobs = [("strata", [exe, "strata"]), ("deltas", [exe, "deltas"])]
    count = 6 if thorough else 1
    for i in range(14):
        jobs.append(("misc%02d" % i, [exe, "misc", str(vlib.SEED * 16 + i + 1), str(count)]))
    vlib.parallel(lambda j: vlib.run_to_file(j[1], os.path.join(w, j[0] + ".ndjson"), timeout=3600), jobs)
    # strata records are independent; deltas are stateful (tiling) and stay in one file per function
    sfiles, _ = vlib.split_file(os.path.join(w, "strata.ndjson"), 8, w, "strata")
    chk.traces("FunTrace", sfiles, what="floor/ceil/trunc: measured run structure over ALL float patterns with |x| < 2^31 (192 strata), ends + probes + tiling checked against the definition", episodes=1)
    dl = open(os.path.join(w, "deltas.ndjson")).readlines()
    dfiles = []
    for fn in ("succf", "predf", "finitef"):
        p = os.path.join(w, "delta-%s.ndjson" % fn)
        open(p, "w").writelines([x for x in dl if '"fn":"%s"' % fn in x])
        dfiles.append(p)
    chk.traces("FunTrace", dfiles, what="succf/predf/finitef: runs of constant (out - in) over all 2^32 patterns, both ends and the middle of every run, tiling", episodes=3)
    allp = os.path.join(w, "misc.ndjson")
    seen = set()
    with open(allp, "w") as g:
        for j in jobs[2:]:
            for line in open(os.path.join(w, j[0] + ".ndjson")):
                if line not in seen:
                    seen.add(line)
                    g.write(line)
    mfiles, _ = vlib.split_file(allp, 16, w, "miscsh")
    chk.traces("FunTrace", mfiles, what="sampled doubles (succd/predd/finited/floor/ceil/trunc), integer division grid, lerp/ulerp/lerpfactor/clamp/cmp/cmpt/iszero/equal/equalWith*Error/abs/sign, polynomials built from chosen roots, rgb/hsv lattice, integer colours, packed colours", episodes=1)
    chk.sample_lines(os.path.join(w, "strata.ndjson"), idx=(40,), maxlen=600)
    chk.sample_lines(os.path.join(w, "deltas.ndjson"), idx=(1, 4))
    chk.sample_lines(allp, idx=(200, 5000, 7000), maxlen=400)
    chk.assumptions += ["floor/ceil/trunc: the sweep's run statistics are trusted as measurements; TLC checks the ends, probes at run starts and the arithmetic of the tiling, which together with equal spacing pin the function on the whole stratum",
                        "succf/predf: a run of constant delta whose ends and middle satisfy Succ/Pred satisfies it throughout (consecutive patterns are consecutive values)",
                        "roots: accuracy K eps (sum|a_k||r|^k + scale |p'(r)|) / |p'(r)|, K = 64 (linear, quadratic; scale = |r|) or 4096 (cubics; scale = largest root); repeated roots are not judged",
                        "integer colours: only range, alpha pass-through and the value channel are judged (truncation makes other channels move by more than one unit)",
                        "comparisons with a tolerance argument are judged outside a 4-eps band around the threshold"]
    return chk.finish(extra_cov={"float_patterns_covered_by_strata": 2 * (0x3f800000 + 31 * 0x800000),
                                 "rule": "strata and delta runs cover complete pattern ranges; other records are one per (function, element type, arguments)"})
