"""C05: products, transposes, minors, determinants equal their algebraic definitions."""
import os
import vlib


def run(tier):
    chk = vlib.Check("C05", tier)
    thorough = tier == "thorough"
    chk.model("MCLinAlg", what="identities of the polynomial definitions over small integer matrices: det(AB)=det A det B, det A^T=det A, cofactor expansion along every row/column, (AB)^T=B^T A^T, cross product perpendicular, quaternion norm multiplicative")
    exe = vlib.compile_harness("rec_linalg", ["rec_linalg.cpp"])
    w = chk.work
    count = 220 if thorough else 24
    files = vlib.parallel(lambda i: vlib.run_to_file([exe, str(vlib.SEED * 16 + i + 1), str(count)], os.path.join(w, "la%02d.ndjson" % i)), range(16))
    # balance: concatenate and re-split
    allp = os.path.join(w, "all.ndjson")
    seen = set()
    with open(allp, "w") as g:
        for f in files:
            for line in open(f):
                if line not in seen:
                    seen.add(line)
                    g.write(line)
    shards, n = vlib.split_file(allp, 16, w, "lash")
    chk.traces("LinAlgTrace", shards, what="all pairs of basis elements (scaled by distinct primes) for every bilinear form; small-integer, dyadic, full-precision and badly scaled random operands; sparse/affine patterns; every spelling", episodes=1, timeout=7200)
    chk.sample_lines(allp, idx=(1, 40, 900), maxlen=500)
    chk.assumptions += ["bound: |result - exact| <= 8(n+2) eps sum|products| (n = number of terms) + a floor of subnormal units; tightness is not decided",
                        "homogeneous divides with an exactly zero weight are not judged",
                        "minorOf and fastMinor are judged separately (they are different functions, not spellings of one product)"]
    return chk.finish(extra_cov={"rule": "one record per (function, element type, operands) holding the results of all spellings; exact duplicates removed"})
