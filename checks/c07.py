"""C07: throwing and non-throwing variants of every operation agree."""
import os
import vlib
import vecnorm_common


def run(tier):
    chk = vecnorm_common.run("C07", tier)        # normalize*/Vec3(Vec4) pairs (VecNormTrace, clause C07)
    thorough = tier == "thorough"
    exe = vlib.compile_harness("rec_paired", ["rec_paired.cpp"])
    w = chk.work
    count = 40 if thorough else 6
    files = vlib.parallel(lambda i: vlib.run_to_file([exe, str(vlib.SEED * 16 + i + 1), str(count)], os.path.join(w, "pr%02d.ndjson" % i)), range(16))
    chk.traces("PairedTrace", files, what="inverse/invert/gjInverse/gjInvert (singExc true vs false vs noexcept) for Matrix22/33/44; decomposition functions with an exc flag (Matrix44 and Matrix33); Frustum ...Exc methods and setExc; float and double", episodes=1)
    chk.sample_lines(files[0], idx=(1, 200, 400), maxlen=600)
    chk.assumptions += ["inversion: checked throws std::invalid_argument <=> unchecked returned the identity for a non-identity matrix",
                        "decomposition: checked throws std::domain_error <=> unchecked returned false; composed regular/reflection matrices never throw",
                        "frustum: checked throws std::domain_error => some unchecked result is non-finite or within a factor 16 of max (a saturated long for DepthToZ)"]
    return chk.finish(extra_cov={"rule": "one record per (operation, element type, input) with the outcomes of the unchecked and the checked form"})
