// Recorder / replayer for C09: transform builders, in-place transforms, frames.
//   rec_transform rec <seed> <count>     : builders, single in-place steps on non-affine current matrices, frames
//   rec_transform replay <programs.txt>  : TLC-generated sequences of in-place operations with integer parameters
#include "vrec.h"
#include <limits>
#include <ImathMatrixAlgo.h>
#include <ImathFrame.h>
#include <ImathShear.h>
#include <cmath>
#include <fstream>
#include <sstream>

template <class T> static const char* tg () { return vt_tag (T ()); }
template <class T> static std::string js (const Shear6<T>& h) { T a[6] = {h.xy, h.xz, h.yz, h.yx, h.zx, h.zy}; return jlist (a, 6); }

template <class T> static Matrix44<T> rnd44 (Gen<T>& g, int mode)
{
    Matrix44<T> m;
    for (int i = 0; i < 4; ++i) for (int j = 0; j < 4; ++j) m[i][j] = g.pick (mode);
    return m;          // deliberately non-affine: the last column is arbitrary
}
template <class T> static Matrix33<T> rnd33 (Gen<T>& g, int mode)
{
    Matrix33<T> m;
    for (int i = 0; i < 3; ++i) for (int j = 0; j < 3; ++j) m[i][j] = g.pick (mode);
    return m;
}
template <class T> static Matrix22<T> rnd22 (Gen<T>& g, int mode)
{
    Matrix22<T> m;
    for (int i = 0; i < 2; ++i) for (int j = 0; j < 2; ++j) m[i][j] = g.pick (mode);
    return m;
}

template <class T> static T angle (Gen<T>& g, int k)
{
    // angles over many periods, near multiples of pi/2, tiny and zero
    static const double base[] = {0, 1e-9, 0.5, 1.0, 1.5707963267948966, 3.141592653589793, 4.0, 6.283185307179586, -2.5, 100.0, -1000.5, 12345.678};
    double a = base[k % 12];
    if (k % 5 == 4) a += (double) g.full ();
    return (T) a;
}

template <class T> static void builders (Gen<T>& g, int it)
{
    const char* t = tg<T> ();
    int mode = it % 3;
    Vec3<T> v3 (g.pick (mode), g.pick (mode), g.pick (mode));
    Vec2<T> v2 (g.pick (mode), g.pick (mode));
    Vec3<T> p3 (g.pick (mode), g.pick (mode), g.pick (mode));
    Vec2<T> p2 (g.pick (mode), g.pick (mode));
    T s1 = g.pick (mode);
    Shear6<T> h6 (g.pick (mode), g.pick (mode), g.pick (mode), g.pick (mode), g.pick (mode), g.pick (mode));
    auto set = [&] (const char* fn, int n, const std::string& args, const std::string& m, const std::string& extra) {
        Rec r ("set"); r.str ("fn", fn); r.str ("t", t); r.num ("n", n); r.raw ("args", args); r.raw ("m", m); if (!extra.empty ()) r.s += extra; r.emit ();
    };
    { Matrix44<T> m = rnd44<T> (g, mode); m.setTranslation (v3); set ("setTranslation", 4, jv (v3), jv (m), ",\"p\":" + jv (p3) + ",\"q\":" + jv (p3 * m) + ",\"tr\":" + jv (m.translation ())); }
    { Matrix33<T> m = rnd33<T> (g, mode); m.setTranslation (v2); set ("setTranslation", 3, jv (v2), jv (m), ",\"p\":" + jv (p2) + ",\"q\":" + jv (p2 * m) + ",\"tr\":" + jv (m.translation ())); }
    { Matrix44<T> m = rnd44<T> (g, mode); m.setScale (v3); set ("setScale", 4, jv (v3), jv (m), ",\"p\":" + jv (p3) + ",\"q\":" + jv (p3 * m)); }
    { Matrix44<T> m = rnd44<T> (g, mode); m.setScale (s1); Vec3<T> s (s1, s1, s1); set ("setScale", 4, jv (s), jv (m), ""); }
    { Matrix33<T> m = rnd33<T> (g, mode); m.setScale (v2); set ("setScale", 3, jv (v2), jv (m), ",\"p\":" + jv (p2) + ",\"q\":" + jv (p2 * m)); }
    { Matrix33<T> m = rnd33<T> (g, mode); m.setScale (s1); Vec2<T> s (s1, s1); set ("setScale", 3, jv (s), jv (m), ""); }
    { Matrix22<T> m = rnd22<T> (g, mode); m.setScale (v2); set ("setScale22", 2, jv (v2), jv (m), ""); }
    { Matrix22<T> m = rnd22<T> (g, mode); m.setScale (s1); Vec2<T> s (s1, s1); set ("setScale22", 2, jv (s), jv (m), ""); }
    { Matrix33<T> m = rnd33<T> (g, mode); m.setShear (s1); set ("setShear1", 3, jv (s1), jv (m), ",\"p\":" + jv (p2) + ",\"q\":" + jv (p2 * m)); }
    { Matrix33<T> m = rnd33<T> (g, mode); m.setShear (v2); set ("setShear2", 3, jv (v2), jv (m), ",\"p\":" + jv (p2) + ",\"q\":" + jv (p2 * m)); }
    { Matrix44<T> m = rnd44<T> (g, mode); m.setShear (v3); set ("setShear3", 4, jv (v3), jv (m), ",\"p\":" + jv (p3) + ",\"q\":" + jv (p3 * m)); }
    { Matrix44<T> m = rnd44<T> (g, mode); m.setShear (h6); set ("setShear6", 4, js (h6), jv (m), ",\"p\":" + jv (p3) + ",\"q\":" + jv (p3 * m)); }
    T a = angle<T> (g, it);
    std::string trig = std::string (",\"cos\":") + jw ((T) std::cos (a)) + ",\"sin\":" + jw ((T) std::sin (a));
    { Matrix22<T> m = rnd22<T> (g, mode); m.setRotation (a); set ("setRotation", 2, jv (a), jv (m), trig + ",\"p\":" + jv (p2) + ",\"q\":" + jv (p2 * m)); }
    { Matrix33<T> m = rnd33<T> (g, mode); m.setRotation (a); set ("setRotation", 3, jv (a), jv (m), trig); }
    Vec3<T> r3 (angle<T> (g, it), angle<T> (g, it + 3), angle<T> (g, it + 7));
    {
        Matrix44<T> m = rnd44<T> (g, mode); m.setEulerAngles (r3);
        std::string f = std::string (",\"f\":{\"cx\":") + jw ((T) std::cos (r3.x)) + ",\"sx\":" + jw ((T) std::sin (r3.x)) + ",\"cy\":" + jw ((T) std::cos (r3.y)) + ",\"sy\":" + jw ((T) std::sin (r3.y)) +
                        ",\"cz\":" + jw ((T) std::cos (r3.z)) + ",\"sz\":" + jw ((T) std::sin (r3.z)) + "}";
        set ("setEulerAngles", 4, jv (r3), jv (m), f);
    }
    {
        Vec3<T> axis (g.pick (mode), g.pick (mode), g.pick (mode));
        if (it % 4 == 0) axis = axis * (T) 1e10;
        if (it % 4 == 1) axis = axis * (T) 1e-10;
        if (it % 8 == 5) axis = Vec3<T> (T (1 + it % 3), T (it % 2), T (-2)) * (std::numeric_limits<T>::min () * T (16));   // non-zero, but its squared length underflows
        if (axis.length () == 0) axis = Vec3<T> (0, 0, 1);
        Matrix44<T> m = rnd44<T> (g, mode); m.setAxisAngle (axis, a);
        T aa[4] = {axis.x, axis.y, axis.z, a};
        set ("setAxisAngle", 4, jlist (aa, 4), jv (m), trig + ",\"unit\":" + jv (axis.normalized ()));
    }
}

template <class T> static void inplace (Gen<T>& g, int it)
{
    const char* t = tg<T> ();
    int mode = it % 3;
    std::string trv;       // translation() of the result, for the records that set it (the current matrices here are NOT affine)
    auto rec = [&] (const char* op, int n, const std::string& m0, const std::string& args, const std::string& setm, const std::string& m1) {
        Rec r ("inplace"); r.str ("op", op); r.str ("t", t); r.num ("n", n); r.num ("prog", -1); r.num ("step", 0); r.raw ("m0", m0); r.raw ("args", args); r.raw ("set", setm); r.raw ("m1", m1);
        if (!trv.empty ()) { r.raw ("tr", trv); trv.clear (); }
        r.emit ();
    };
    Vec3<T> v3 (g.pick (mode), g.pick (mode), g.pick (mode));
    Vec2<T> v2 (g.pick (mode), g.pick (mode));
    T s1 = g.pick (mode);
    Shear6<T> h6 (g.pick (mode), g.pick (mode), g.pick (mode), g.pick (mode), g.pick (mode), g.pick (mode));
    T a = angle<T> (g, it);
    Vec3<T> r3 (angle<T> (g, it), angle<T> (g, it + 3), angle<T> (g, it + 7));
    Matrix44<T> M = rnd44<T> (g, mode), S, R;
    Matrix33<T> N = rnd33<T> (g, mode), S3, R3;
    Matrix22<T> Q = rnd22<T> (g, mode), S2, R2;
    { R = M; R.translate (v3); S.setTranslation (v3); trv = jv (R.translation ()); rec ("translate", 4, jv (M), jv (v3), jv (S), jv (R)); }
    { R = M; R.scale (v3); S.setScale (v3); trv = jv (R.translation ()); rec ("scale", 4, jv (M), jv (v3), jv (S), jv (R)); }
    { R = M; R.shear (v3); S.setShear (v3); rec ("shear3", 4, jv (M), jv (v3), jv (S), jv (R)); }
    { R = M; R.shear (h6); S.setShear (h6); rec ("shear6", 4, jv (M), js (h6), jv (S), jv (R)); }
    { R = M; R.rotate (r3); S.setEulerAngles (r3); rec ("rotate", 4, jv (M), jv (r3), jv (S), jv (R)); }
    { R3 = N; R3.translate (v2); S3.setTranslation (v2); trv = jv (R3.translation ()); rec ("translate", 3, jv (N), jv (v2), jv (S3), jv (R3)); }
    { R3 = N; R3.scale (v2); S3.setScale (v2); rec ("scale", 3, jv (N), jv (v2), jv (S3), jv (R3)); }
    { R3 = N; R3.shear (s1); S3.setShear (s1); rec ("shear1", 3, jv (N), jv (s1), jv (S3), jv (R3)); }
    { R3 = N; R3.shear (v2); S3.setShear (v2); trv = jv (R3.translation ()); rec ("shear2", 3, jv (N), jv (v2), jv (S3), jv (R3)); }
    { R3 = N; R3.rotate (a); S3.setRotation (a); rec ("rotate-right", 3, jv (N), jv (a), jv (S3), jv (R3)); }
    { R2 = Q; R2.rotate (a); S2.setRotation (a); rec ("rotate-right", 2, jv (Q), jv (a), jv (S2), jv (R2)); }
}

// addOffset(in, t, r (degrees), s, ref) = scale(s) * [rotate(r) with translation row t] * in * ref
template <class T> static void addoffset (Gen<T>& g, int it)
{
    int mode = it % 3;
    auto v = [&] () { return Vec3<T> (g.pick (mode), g.pick (mode), g.pick (mode)); };
    Matrix44<T> in, ref;
    for (int i = 0; i < 4; ++i) for (int j = 0; j < 4; ++j) { in[i][j] = g.pick (mode); ref[i][j] = g.pick (mode); }
    if (it % 2) { in[0][3] = in[1][3] = in[2][3] = 0; in[3][3] = 1; ref[0][3] = ref[1][3] = ref[2][3] = 0; ref[3][3] = 1; }      // frames proper
    Vec3<T> tO = v (), sO = v ();
    Vec3<T> rO ((T) (15 * g.rng.range (-12, 12)), (T) (15 * g.rng.range (-12, 12)), (T) (15 * g.rng.range (-12, 12)));          // degrees
    if (it % 5 == 0) rO = Vec3<T> (0, 0, 0);
    if (it % 5 == 1) tO = Vec3<T> (0, 0, 0);
    Matrix44<T> R; R.rotate (rO * T (M_PI / 180.0));            // the rotation builder (judged by its own records)
    Rec r ("addoffset"); r.str ("t", tg<T> ()); r.raw ("in", jv (in)); r.raw ("ref", jv (ref)); r.raw ("to", jv (tO)); r.raw ("ro", jv (rO)); r.raw ("so", jv (sO));
    r.raw ("R", jv (R)); r.raw ("out", jv (addOffset (in, tO, rO, sO, ref))); r.emit ();
}

template <class T> static void frames (Gen<T>& g, int it)
{
    const char* t = tg<T> ();
    int mode = it % 3;
    auto v = [&] () { return Vec3<T> (g.pick (mode), g.pick (mode), g.pick (mode)); };
    auto rec = [&] (const char* fn, const std::string& in, const std::string& m) { Rec r ("frame"); r.str ("fn", fn); r.str ("t", t); r.raw ("in", in); r.raw ("m", m); r.emit (); };
    Vec3<T> a = v (), b = v (), c = v ();
    int deg = it % 8;     // 0: generic ... degenerate cases: zero vectors, exactly parallel, axis-aligned targets of any length
    if (deg == 3) b = a * (T) 2;
    if (deg == 4) b = Vec3<T> (0, 0, 0);
    if (deg == 5) a = Vec3<T> (0, 0, 0);
    if (deg >= 6)
    {
        static const double lens[4] = {0.5, 1.0, 3.0, 0.03125};
        a = Vec3<T> (0, 0, 0); a[(it / 8) % 3] = (T) (((it / 24) % 2 ? -1.0 : 1.0) * lens[(it / 48) % 4]);
        b = (deg == 6) ? a * (T) ((it / 96) % 2 ? -2.5 : 4.0) : Vec3<T> (0, 0, 0);            // up exactly (anti)parallel to the target, or zero
    }
    rec ("rotationMatrix", "[" + jv (a) + "," + jv (b) + "]", jv (rotationMatrix (a, b)));
    rec ("rotationMatrixWithUpDir", "[" + jv (a) + "," + jv (b) + "," + jv (c) + "]", jv (rotationMatrixWithUpDir (a, b, c)));
    { Matrix44<T> m; alignZAxisWithTargetDir (m, a, b); rec ("alignZAxisWithTargetDir", "[" + jv (a) + "," + jv (b) + "]", jv (m)); }
    if (deg < 3)
    {
        rec ("computeLocalFrame", "[" + jv (c) + "," + jv (a) + "," + jv (b) + "]", jv (computeLocalFrame (c, a, b)));
        // a polyline p0 p1 p2 p3: first, next, next, last
        Vec3<T> p0 = v ();
        if ((it / 8) % 3 == 1)
        {   // the same polyline in very small units (the frame's axes do not depend on the scale of the model)
            T k = (T) std::ldexp (1.0, sizeof (T) == 4 ? -16 : -32);
            p0 *= k; a *= k; b *= k; c *= k;
        }
        Vec3<T> p1 = p0 + a, p2 = p1 + b, p3 = p2 + c;
        if (it % 4 == 1) p2 = p1 + a;            // straight segment
        if (it % 4 == 2) p2 = p1 - a * (T) 0.5 + b * (T) 0.125;   // sharp turn (more than 90 degrees)
        Matrix44<T> f0 = firstFrame (p0, p1, p2);
        rec ("firstFrame", "[" + jv (p0) + "," + jv (p1) + "," + jv (p2) + "]", jv (f0));
        Vec3<T> ti = p1 - p0, tj = p2 - p0;      // tangent at p1: chord p0 -> p2 (as in the library's usage)
        Vec3<T> ti0 = ti, tj0 = tj;
        Matrix44<T> f1 = nextFrame (f0, p0, p1, ti, tj);
        rec ("nextFrame", "[" + jv (f0) + "," + jv (p0) + "," + jv (p1) + "," + jv (ti0) + "," + jv (tj0) + "]", jv (f1));
        rec ("lastFrame", "[" + jv (f1) + "," + jv (p1) + "," + jv (p2) + "]", jv (lastFrame (f1, p1, p2)));
    }
}

static int replay (const char* path)
{
    // lines: "prog <id> <n>" then "start m00 m01 ..." then "<op> a b c ..." (integers)
    std::ifstream in (path);
    std::string   line;
    int prog = -1, n = 0, step = 0;
    Matrix44<float> Af; Matrix44<double> Ad; Matrix33<float> Bf; Matrix33<double> Bd;
    while (std::getline (in, line))
    {
        std::istringstream ss (line);
        std::string op; ss >> op;
        if (op == "prog") { ss >> prog >> n; step = 0; continue; }
        std::vector<int> a; int x; while (ss >> x) a.push_back (x);
        if (op == "start")
        {
            if (n == 4) for (int i = 0; i < 4; ++i) for (int j = 0; j < 4; ++j) { Af[i][j] = (float) a[i * 4 + j]; Ad[i][j] = a[i * 4 + j]; }
            else for (int i = 0; i < 3; ++i) for (int j = 0; j < 3; ++j) { Bf[i][j] = (float) a[i * 3 + j]; Bd[i][j] = a[i * 3 + j]; }
            continue;
        }
        ++step;
        auto rec = [&] (const char* t, const std::string& m0, const std::string& args, const std::string& setm, const std::string& m1) {
            Rec r ("inplace"); r.str ("op", op.c_str ()); r.str ("t", t); r.num ("n", n); r.num ("prog", prog); r.num ("step", step); r.raw ("m0", m0); r.raw ("args", args); r.raw ("set", setm); r.raw ("m1", m1); r.emit ();
        };
        if (n == 4)
        {
            Matrix44<float> Sf, Pf = Af; Matrix44<double> Sd, Pd = Ad;
            std::string af, ad;
            if (op == "translate") { Vec3<float> v (a[0], a[1], a[2]); Vec3<double> w (a[0], a[1], a[2]); Af.translate (v); Ad.translate (w); Sf.setTranslation (v); Sd.setTranslation (w); af = jv (v); ad = jv (w); }
            else if (op == "scale") { Vec3<float> v (a[0], a[1], a[2]); Vec3<double> w (a[0], a[1], a[2]); Af.scale (v); Ad.scale (w); Sf.setScale (v); Sd.setScale (w); af = jv (v); ad = jv (w); }
            else if (op == "shear3") { Vec3<float> v (a[0], a[1], a[2]); Vec3<double> w (a[0], a[1], a[2]); Af.shear (v); Ad.shear (w); Sf.setShear (v); Sd.setShear (w); af = jv (v); ad = jv (w); }
            else if (op == "shear6") { Shear6<float> v (a[0], a[1], a[2], a[3], a[4], a[5]); Shear6<double> w (a[0], a[1], a[2], a[3], a[4], a[5]); Af.shear (v); Ad.shear (w); Sf.setShear (v); Sd.setShear (w); af = js (v); ad = js (w); }
            else continue;
            rec ("f", jv (Pf), af, jv (Sf), jv (Af)); rec ("d", jv (Pd), ad, jv (Sd), jv (Ad));
        }
        else
        {
            Matrix33<float> Sf, Pf = Bf; Matrix33<double> Sd, Pd = Bd;
            std::string af, ad;
            if (op == "translate") { Vec2<float> v (a[0], a[1]); Vec2<double> w (a[0], a[1]); Bf.translate (v); Bd.translate (w); Sf.setTranslation (v); Sd.setTranslation (w); af = jv (v); ad = jv (w); }
            else if (op == "scale") { Vec2<float> v (a[0], a[1]); Vec2<double> w (a[0], a[1]); Bf.scale (v); Bd.scale (w); Sf.setScale (v); Sd.setScale (w); af = jv (v); ad = jv (w); }
            else if (op == "shear1") { float v = (float) a[0]; double w = a[0]; Bf.shear (v); Bd.shear (w); Sf.setShear (v); Sd.setShear (w); af = jv (v); ad = jv (w); }
            else if (op == "shear2") { Vec2<float> v (a[0], a[1]); Vec2<double> w (a[0], a[1]); Bf.shear (v); Bd.shear (w); Sf.setShear (v); Sd.setShear (w); af = jv (v); ad = jv (w); }
            else continue;
            rec ("f", jv (Pf), af, jv (Sf), jv (Bf)); rec ("d", jv (Pd), ad, jv (Sd), jv (Bd));
        }
    }
    return 0;
}

int main (int argc, char** argv)
{
    vt_init ();
    std::string mode = argc > 1 ? argv[1] : "rec";
    if (mode == "replay") return replay (argv[2]);
    uint64_t seed = argc > 2 ? strtoull (argv[2], 0, 10) : 1;
    int      n    = argc > 3 ? atoi (argv[3]) : 10;
    Gen<float> gf (seed); Gen<double> gd (seed + 9);
    for (int it = 0; it < n; ++it)
    {
        builders<float> (gf, it); builders<double> (gd, it);
        inplace<float> (gf, it); inplace<double> (gd, it);
        frames<float> (gf, it); frames<double> (gd, it);
        addoffset<float> (gf, it); addoffset<double> (gd, it);
    }
    return 0;
}
