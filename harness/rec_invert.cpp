// Recorder for C06: matrix inversion, every non-throwing form.
//   rec_invert <seed> <count>
#include "vrec.h"
#include <cmath>
#include <limits>

template <class T> static const char* tg () { return vt_tag (T ()); }

struct Forms
{
    std::string s = "[";
    template <class M> void add (const char* name, int gj, const char* pair, const M& x)
    {
        if (s.size () > 1) s += ",";
        s += "{\"s\":\""; s += name; s += "\",\"gj\":"; s += gj ? "1" : "0"; s += ",\"pair\":\""; s += pair; s += "\",\"x\":"; s += jv (x); s += "}";
    }
    std::string done () { return s + "]"; }
};

template <class T> static void emit22 (const char* fam, const Matrix22<T>& m)
{
    Rec r ("inv"); r.str ("t", tg<T> ()); r.num ("n", 2); r.str ("fam", fam); r.raw ("m", jv (m));
    Forms f;
    f.add ("inverse()", 0, "det", m.inverse ());
    f.add ("inverse(false)", 0, "det", m.inverse (false));
    { Matrix22<T> c = m; c.invert (); f.add ("invert()", 0, "det", c); }
    { Matrix22<T> c = m; c.invert (false); f.add ("invert(false)", 0, "det", c); }
    r.raw ("forms", f.done ()); r.emit ();
}
template <class T, class M> static void emitN (const char* fam, const M& m, int n)
{
    Rec r ("inv"); r.str ("t", tg<T> ()); r.num ("n", n); r.str ("fam", fam); r.raw ("m", jv (m));
    Forms f;
    f.add ("inverse()", 0, "det", m.inverse ());
    f.add ("inverse(false)", 0, "det", m.inverse (false));
    { M c = m; c.invert (); f.add ("invert()", 0, "det", c); }
    { M c = m; c.invert (false); f.add ("invert(false)", 0, "det", c); }
    f.add ("gjInverse()", 1, "gj", m.gjInverse ());
    f.add ("gjInverse(false)", 1, "gj", m.gjInverse (false));
    { M c = m; c.gjInvert (); f.add ("gjInvert()", 1, "gj", c); }
    { M c = m; c.gjInvert (false); f.add ("gjInvert(false)", 1, "gj", c); }
    r.raw ("forms", f.done ()); r.emit ();
}
template <class T, int N, class M> static void emit (const char* fam, const M& m);
template <class T> static void emitM (const char* fam, const Matrix22<T>& m) { emit22<T> (fam, m); }
template <class T> static void emitM (const char* fam, const Matrix33<T>& m) { emitN<T> (fam, m, 3); }
template <class T> static void emitM (const char* fam, const Matrix44<T>& m) { emitN<T> (fam, m, 4); }

static uint64_t g_seed = 0;
template <class T, class M, int N> static void families (Gen<T>& g, int it)
{
    const int p = std::numeric_limits<T>::digits;     // 24 / 53
    M m;
    auto fill = [&] (int lim) { for (int i = 0; i < N; ++i) for (int j = 0; j < N; ++j) m[i][j] = (T) g.rng.range (-lim, lim); };
    // 1. small integers
    fill (3); emitM<T> ("int", m);
    // 2. well-scaled full precision
    for (int i = 0; i < N; ++i) for (int j = 0; j < N; ++j) m[i][j] = g.full ();
    emitM<T> ("full", m);
    // 3. graded condition: D1 * Q * D2, powers of two up to about 1/eps overall
    {
        fill (4);
        for (int i = 0; i < N; ++i) m[i][i] += (T) (i % 2 ? 7 : -6);          // keep Q comfortably non-singular
        int k = g.rng.range (0, (p - 4) / 2);
        for (int i = 0; i < N; ++i)
        {
            int e1 = g.rng.range (-k, k), e2 = g.rng.range (-k, k);
            for (int j = 0; j < N; ++j) { m[i][j] = (T) std::ldexp ((double) m[i][j], e1); }
            for (int j = 0; j < N; ++j) { m[j][i] = (T) std::ldexp ((double) m[j][i], e2); }
        }
        emitM<T> ("graded", m);
    }
    // 4. nearly dependent rows: row_k = row_0 + delta * e, condition grows as delta shrinks
    {
        fill (5);
        for (int i = 0; i < N; ++i) m[i][i] += (T) 9;
        int d = g.rng.range (2, p - 6);
        int k = 1 + (int) g.rng.below (N - 1);
        for (int j = 0; j < N; ++j) m[k][j] = m[0][j];
        m[k][g.rng.below (N)] += (T) std::ldexp (1.0, -d);
        emitM<T> ("near-dependent", m);
    }
    // 5. exactly singular, structured
    {
        fill (4);
        switch (it % 5)
        {
            case 0: for (int j = 0; j < N; ++j) m[g.rng.below (N)][j] = 0; emitM<T> ("zero-row", m); break;
            case 1: { int c = (int) g.rng.below (N); for (int i = 0; i < N; ++i) m[i][c] = 0; emitM<T> ("zero-col", m); break; }
            case 2: { int a = (int) g.rng.below (N), b = (a + 1 + (int) g.rng.below (N - 1)) % N; for (int j = 0; j < N; ++j) m[b][j] = m[a][j]; emitM<T> ("dup-row", m); break; }
            case 3: { // rank one, u (x) w, with every sign pattern of u and w over time (the adjugate's signs follow)
                      T u[4], w[4]; int bits = (int) ((g_seed + (uint64_t) it / 5) % 16);      // the 16 shards cover all sign patterns of (u0, u1, w0, w1)
                      bits = (bits & 3) | ((bits >> 2) << 4) | ((int) g.rng.below (4) << 2) | ((int) g.rng.below (4) << 6);
                      for (int i = 0; i < N; ++i) { u[i] = (T) (1 + g.rng.below (4)) * (((bits >> i) & 1) ? T (-1) : T (1)) * (T) (it % 2 ? 0.25 : 1); w[i] = (T) (1 + g.rng.below (4)) * (((bits >> (4 + i)) & 1) ? T (-1) : T (1)); }
                      for (int i = 0; i < N; ++i) for (int j = 0; j < N; ++j) m[i][j] = u[i] * w[j]; emitM<T> ("rank1", m); break; }
            default: { int a = 0, b = N - 1; for (int j = 0; j < N; ++j) m[b][j] = (T) 2 * m[a][j] - (N > 2 ? m[1][j] : 0); emitM<T> ("rank-n-1", m); break; }
        }
    }
    // 6. |det| straddling 1 (the two scaling branches) and a tiny determinant
    {
        for (int i = 0; i < N; ++i) for (int j = 0; j < N; ++j) m[i][j] = (i == j) ? (T) 1 : (T) g.full () / 8;
        T s = (T) (1.0 + (g.rng.range (-3, 3)) * std::ldexp (1.0, -(p - 2)));
        m[0][0] = s;
        emitM<T> ("det-near-1", m);
        M t = m;
        int e = -g.rng.range (2, std::numeric_limits<T>::max_exponent / 8 - 2);
        for (int i = 0; i < N; ++i) for (int j = 0; j < N; ++j) t[i][j] = (T) std::ldexp ((double) m[i][j], e);
        emitM<T> ("small-det", t);
    }
}
template <class T> static void affine (Gen<T>& g)
{
    // affine fast path vs general path: last column (0,..,0,1), and one-ulp / small perturbations of it
    Matrix44<T> m;
    for (int i = 0; i < 4; ++i) for (int j = 0; j < 4; ++j) m[i][j] = g.full () + (i == j ? (T) 2 : (T) 0);
    m[0][3] = m[1][3] = m[2][3] = 0; m[3][3] = 1;
    emitM<T> ("affine", m);
    Matrix44<T> q = m; q[3][3] = std::nextafter ((T) 1, (T) 2); emitM<T> ("affine+ulp", q);
    q = m; q[3][3] = std::nextafter ((T) 1, (T) 0); emitM<T> ("affine-ulp", q);
    q = m; q[(int) g.rng.below (3)][3] = (T) std::ldexp (1.0, -(std::numeric_limits<T>::digits - 2)); emitM<T> ("affine+eps-col", q);
    Matrix33<T> a;
    for (int i = 0; i < 3; ++i) for (int j = 0; j < 3; ++j) a[i][j] = g.full () + (i == j ? (T) 2 : (T) 0);
    a[0][2] = a[1][2] = 0; a[2][2] = 1;
    emitM<T> ("affine", a);
    Matrix33<T> b = a; b[2][2] = std::nextafter ((T) 1, (T) 2); emitM<T> ("affine+ulp", b);
    b = a; b[(int) g.rng.below (2)][2] = (T) std::ldexp (1.0, -(std::numeric_limits<T>::digits - 2)); emitM<T> ("affine+eps-col", b);
    // exactly singular AFFINE matrices (the fast path): linear block of rank 0 (a zero scale), rank 1 (every cofactor is
    // exactly zero) and rank n-1, on small integers so that all products are exact; the translation row is not zero
    for (int rank = 0; rank < 3; ++rank)
    {
        Matrix44<T> sm; Matrix33<T> s3;
        T u[3], w[3], u2[3], w2[3];
        for (int i = 0; i < 3; ++i) { u[i] = (T) g.rng.range (1, 4) * (g.rng.below (2) ? T (1) : T (-1)); w[i] = (T) g.rng.range (1, 4) * (g.rng.below (2) ? T (1) : T (-1)); u2[i] = (T) g.rng.range (-3, 3); w2[i] = (T) g.rng.range (-3, 3); }
        for (int i = 0; i < 3; ++i) for (int j = 0; j < 3; ++j) sm[i][j] = rank == 0 ? T (0) : u[i] * w[j] + (rank == 2 ? u2[i] * w2[j] : T (0));
        for (int j = 0; j < 3; ++j) { sm[3][j] = (T) g.rng.range (-5, 5); sm[j][3] = 0; }
        if (sm[3][0] == 0) sm[3][0] = 3;
        sm[3][3] = 1;
        emitM<T> ("affine-singular", sm);
        if (rank < 2)
        {
            for (int i = 0; i < 2; ++i) for (int j = 0; j < 2; ++j) s3[i][j] = rank == 0 ? T (0) : u[i] * w[j];
            s3[2][0] = (T) g.rng.range (1, 5); s3[2][1] = (T) g.rng.range (-5, 5); s3[0][2] = s3[1][2] = 0; s3[2][2] = 1;
            emitM<T> ("affine-singular", s3);
        }
    }
    // cancelling determinants: every entry near one, two small singular values (condition about 5 / d, far below 1 / eps);
    // the cofactor expansion of the determinant loses cond^2 digits, elimination loses cond
    {
        int k = 5 + (int) g.rng.below ((uint32_t) (std::numeric_limits<T>::digits / 2 - 3));
        T d = (T) std::ldexp (1.0, -k);
        Matrix33<T> c3 ((T) 1 + d, 1, 1, 1, (T) 1 - d, 1, 1, 1, (T) 1 + d);
        emitM<T> ("cancelling", c3);
        Matrix44<T> c4;
        for (int i = 0; i < 3; ++i) for (int j = 0; j < 3; ++j) c4[i][j] = c3[i][j];
        c4[3][0] = 2; c4[3][1] = 3; c4[3][2] = 5;
        emitM<T> ("cancelling-affine", c4);
        c4[3][3] = std::nextafter ((T) 1, (T) 2);
        emitM<T> ("cancelling-affine+ulp", c4);
    }
    // projective with a clearly non-zero last column and zero translation
    b = a; b[1][2] = (T) 0.5; b[2][1] = 0; emitM<T> ("projective", b);
    b = a; b[0][2] = (T) -0.25; b[2][0] = 0; emitM<T> ("projective", b);
    q = m; q[1][3] = (T) 0.5; q[3][1] = 0; emitM<T> ("projective", q);
    // permutation-like matrices (pivoting)
    Matrix44<T> pm;
    int perm[4] = {3, 1, 2, 0};
    if (g.rng.below (2)) { perm[0] = 1; perm[1] = 3; perm[2] = 0; perm[3] = 2; }
    for (int i = 0; i < 4; ++i) for (int j = 0; j < 4; ++j) pm[i][j] = (j == perm[i]) ? (T) (i + 1) : (T) 0;
    emitM<T> ("permutation", pm);
    for (int i = 0; i < 4; ++i) for (int j = 0; j < 4; ++j) if (j != perm[i]) pm[i][j] = (T) std::ldexp ((double) g.rng.range (-3, 3), -20);
    emitM<T> ("near-permutation", pm);
}

template <class T> static void all (uint64_t seed, int count)
{
    Gen<T> g (seed);
    g_seed = seed;
    for (int it = 0; it < count; ++it)
    {
        families<T, Matrix22<T>, 2> (g, it);
        families<T, Matrix33<T>, 3> (g, it);
        families<T, Matrix44<T>, 4> (g, it);
        affine<T> (g);
    }
}

int main (int argc, char** argv)
{
    vt_init ();
    uint64_t seed = argc > 1 ? strtoull (argv[1], 0, 10) : 1;
    int      n    = argc > 2 ? atoi (argv[2]) : 10;
    all<float> (seed, n);
    all<double> (seed + 500, n);
    return 0;
}
