// Recorder / replayer for C13 (Box, Interval, box transforms).
//   rec_box enum <D> <seed> <samples>  : every (state, action, argument) over the lattice for D=1,2; seeded samples for D=3,4
//   rec_box replay <file>              : replays TLC-generated histories ("D n | op args...") on real objects, all element types
//   rec_box xform <seed> <n>           : transform / affineTransform, four overloads, result pre-filled
// Coordinates are projected to abstract values: lowest() -> -1000, max() -> 1000, small integers -> themselves, else 7777.
#include "vtrace.h"
#include <ImathBox.h>
#include <ImathBoxAlgo.h>
#include <ImathInterval.h>
#include <ImathMatrix.h>
#include <limits>
#include <utility>
#include <vector>
#include <string>
#include <fstream>
#include <sstream>
#include <cmath>

using namespace IMATH_INTERNAL_NAMESPACE;
static FILE* o = stdout;

template <class T> static T conc (int a)
{
    if (a == -1000) return std::numeric_limits<T>::lowest ();
    if (a == 1000) return std::numeric_limits<T>::max ();
    return (T) a;
}
template <class T> static int proj (T v)
{
    if (v == std::numeric_limits<T>::max ()) return 1000;
    if (v == std::numeric_limits<T>::lowest ()) return -1000;
    if (v > (T) -900 && v < (T) 900 && (T) (int) v == v) return (int) v;
    return 7777;
}
template <class T> struct TN;
template <> struct TN<short> { static const char* n () { return "short"; } };
template <> struct TN<int> { static const char* n () { return "int"; } };
template <> struct TN<int64_t> { static const char* n () { return "int64"; } };
template <> struct TN<float> { static const char* n () { return "float"; } };
template <> struct TN<double> { static const char* n () { return "double"; } };

// adapters so that Interval<T> and Box<VecN<T>> are driven by the same code
template <class T> struct A1
{
    typedef Interval<T> B; typedef T P; enum { D = 1 };
    static const char* impl () { return "Interval"; }
    static T& c (P& p, int) { return p; }
    static T cc (const P& p, int) { return p; }
};
template <class T> struct A2
{
    typedef Box<Vec2<T>> B; typedef Vec2<T> P; enum { D = 2 };
    static const char* impl () { return "Box<Vec2>"; }
    static T& c (P& p, int i) { return p[i]; }
    static T cc (const P& p, int i) { return p[i]; }
};
template <class T> struct A3
{
    typedef Box<Vec3<T>> B; typedef Vec3<T> P; enum { D = 3 };
    static const char* impl () { return "Box<Vec3>"; }
    static T& c (P& p, int i) { return p[i]; }
    static T cc (const P& p, int i) { return p[i]; }
};
template <class T> struct A4
{
    typedef Box<Vec4<T>> B; typedef Vec4<T> P; enum { D = 4 };
    static const char* impl () { return "Box<Vec4>"; }
    static T& c (P& p, int i) { return p[i]; }
    static T cc (const P& p, int i) { return p[i]; }
};

template <class A, class T> static typename A::P mkp (const int* a)
{
    typename A::P p;
    for (int i = 0; i < A::D; ++i) A::c (p, i) = conc<T> (a[i]);
    return p;
}
template <class A, class T> static void pp (const typename A::P& p)
{
    fprintf (o, "[");
    for (int i = 0; i < A::D; ++i) fprintf (o, "%s%d", i ? "," : "", proj<T> (A::cc (p, i)));
    fprintf (o, "]");
}
template <class A, class T> static void pb (const typename A::B& b)
{
    fprintf (o, "{\"mn\":"); pp<A, T> (b.min); fprintf (o, ",\"mx\":"); pp<A, T> (b.max); fprintf (o, "}");
}
template <class A, class T> static bool finite_box (const typename A::B& b)
{
    for (int i = 0; i < A::D; ++i)
    {
        int a = proj<T> (A::cc (b.min, i)), c = proj<T> (A::cc (b.max, i));
        if (a <= -900 || a >= 900 || c <= -900 || c >= 900) return false;
    }
    return true;
}
template <class T> static unsigned majorOf (const Interval<T>&) { return 0; }
template <class V> static unsigned majorOf (const Box<V>& b) { return b.majorAxis (); }

template <class A, class T> static void obs (const typename A::B& b)
{
    fprintf (o, ",\"post\":"); pb<A, T> (b);
    fprintf (o, ",\"emp\":%d,\"vol\":%d,\"inf\":%d", (int) b.isEmpty (), (int) b.hasVolume (), (int) b.isInfinite ());
    if (finite_box<A, T> (b))
    {
        fprintf (o, ",\"num\":1,\"size\":"); pp<A, T> (b.size ());
        fprintf (o, ",\"ctr\":"); pp<A, T> (b.center ());
        fprintf (o, ",\"maj\":%u", majorOf (b));
    }
    else fprintf (o, ",\"num\":0");
}
template <class A, class T> static void hdr (const char* e)
{
    fprintf (o, "{\"e\":\"%s\",\"impl\":\"%s\",\"T\":\"%s\",\"D\":%d", e, A::impl (), TN<T>::n (), (int) A::D);
}

// one transition: put the object in state (mn,mx), apply the action, log post-state and observers
template <class A, class T> static void step (const int* mn, const int* mx, int act, const int* a1, const int* a2)
{
    typename A::B b;
    b.min = mkp<A, T> (mn); b.max = mkp<A, T> (mx);
    hdr<A, T> ("step");
    fprintf (o, ",\"pre\":"); pb<A, T> (b);
    switch (act)
    {
        case 0: b.makeEmpty (); fprintf (o, ",\"act\":\"makeEmpty\""); break;
        case 1: b.makeInfinite (); fprintf (o, ",\"act\":\"makeInfinite\""); break;
        case 2: { typename A::P p = mkp<A, T> (a1); b.extendBy (p); fprintf (o, ",\"act\":\"extendPt\",\"p\":"); pp<A, T> (p); break; }
        case 3: { typename A::B c; c.min = mkp<A, T> (a1); c.max = mkp<A, T> (a2); b.extendBy (c); fprintf (o, ",\"act\":\"extendBox\",\"c\":"); pb<A, T> (c); break; }
        case 4: { b = typename A::B (); fprintf (o, ",\"act\":\"ctor0\""); break; }
        case 5: { typename A::P p = mkp<A, T> (a1); b = typename A::B (p); fprintf (o, ",\"act\":\"ctorPt\",\"p\":"); pp<A, T> (p); break; }
        default: { b = typename A::B (mkp<A, T> (a1), mkp<A, T> (a2)); fprintf (o, ",\"act\":\"ctor2\",\"c\":{\"mn\":"); pp<A, T> (mkp<A, T> (a1)); fprintf (o, ",\"mx\":"); pp<A, T> (mkp<A, T> (a2)); fprintf (o, "}"); break; }
    }
    obs<A, T> (b);
    fprintf (o, "}\n");
}

template <class T> static T clipI (const T& p, const Interval<T>& b) { return p < b.min ? b.min : (p > b.max ? b.max : p); }

template <class A, class T> struct Q
{
    static void inPt (const int* mn, const int* mx, const int* p)
    {
        typename A::B b; b.min = mkp<A, T> (mn); b.max = mkp<A, T> (mx);
        typename A::P q = mkp<A, T> (p);
        hdr<A, T> ("q"); fprintf (o, ",\"q\":\"inPt\",\"box\":"); pb<A, T> (b); fprintf (o, ",\"p\":"); pp<A, T> (q);
        fprintf (o, ",\"out\":%d}\n", (int) b.intersects (q));
    }
    static void inBox (const int* mn, const int* mx, const int* cn, const int* cx)
    {
        typename A::B b, c; b.min = mkp<A, T> (mn); b.max = mkp<A, T> (mx); c.min = mkp<A, T> (cn); c.max = mkp<A, T> (cx);
        hdr<A, T> ("q"); fprintf (o, ",\"q\":\"inBox\",\"box\":"); pb<A, T> (b); fprintf (o, ",\"c\":"); pb<A, T> (c);
        fprintf (o, ",\"out\":%d,\"rev\":%d}\n", (int) b.intersects (c), (int) c.intersects (b));
    }
};
template <class A, class T> struct QV   // Box<Vec*> only: clip / closestPointInBox
{
    static void clips (const int* mn, const int* mx, const int* p)
    {
        typename A::B b; b.min = mkp<A, T> (mn); b.max = mkp<A, T> (mx);
        typename A::P q = mkp<A, T> (p);
        hdr<A, T> ("q"); fprintf (o, ",\"q\":\"clip\",\"box\":"); pb<A, T> (b); fprintf (o, ",\"p\":"); pp<A, T> (q);
        fprintf (o, ",\"out\":"); pp<A, T> (clip (q, b)); fprintf (o, ",\"cin\":"); pp<A, T> (closestPointInBox (q, b)); fprintf (o, "}\n");
    }
};
template <class T> static void conq (const int* mn, const int* mx, const int* p)
{
    typedef A3<T> A;
    typename A::B b; b.min = mkp<A, T> (mn); b.max = mkp<A, T> (mx);
    typename A::P q = mkp<A, T> (p);
    hdr<A, T> ("q"); fprintf (o, ",\"q\":\"con\",\"box\":"); pb<A, T> (b); fprintf (o, ",\"p\":"); pp<A, T> (q);
    fprintf (o, ",\"out\":"); pp<A, T> (closestPointOnBox (q, b)); fprintf (o, "}\n");
}

static const int LAT[6] = {-1000, -2, 0, 2, 4, 1000};

// enumerate all D-tuples over LAT[lo..hi]
static void tuples (int D, int lo, int hi, std::vector<std::vector<int>>& out)
{
    std::vector<int> idx (D, lo);
    for (;;)
    {
        std::vector<int> t (D);
        for (int i = 0; i < D; ++i) t[i] = LAT[idx[i]];
        out.push_back (t);
        int k = 0;
        while (k < D && ++idx[k] > hi) { idx[k] = lo; ++k; }
        if (k == D) break;
    }
}

template <class A, class T> static void enumerate (uint64_t seed, int samples)
{
    const int D = A::D;
    std::vector<std::vector<int>> all, fin;
    tuples (D, 0, 5, all);
    tuples (D, 1, 4, fin);
    VtRng rng (seed);
    bool  exhaustive = D <= 2;
    size_t nb = all.size () * all.size ();
    // states
    long nstates = exhaustive ? (long) nb : samples;
    for (long s = 0; s < nstates; ++s)
    {
        const std::vector<int>& mn = exhaustive ? all[s / all.size ()] : all[rng.below ((uint32_t) all.size ())];
        const std::vector<int>& mx = exhaustive ? all[s % all.size ()] : all[rng.below ((uint32_t) all.size ())];
        step<A, T> (mn.data (), mx.data (), 0, 0, 0);
        step<A, T> (mn.data (), mx.data (), 1, 0, 0);
        if (s == 0) step<A, T> (mn.data (), mx.data (), 4, 0, 0);
        // points: all finite points (D<=2) or a few sampled ones
        int npts = exhaustive ? (int) fin.size () : 3;
        for (int k = 0; k < npts; ++k)
        {
            const std::vector<int>& p = exhaustive ? fin[k] : fin[rng.below ((uint32_t) fin.size ())];
            step<A, T> (mn.data (), mx.data (), 2, p.data (), 0);
            if (D > 1 || true) Q<A, T>::inPt (mn.data (), mx.data (), p.data ());
        }
        // membership of extreme points too
        for (int k = 0; k < 2; ++k)
        {
            const std::vector<int>& p = all[rng.below ((uint32_t) all.size ())];
            Q<A, T>::inPt (mn.data (), mx.data (), p.data ());
        }
        // other boxes: all (D=1), sampled otherwise
        int nbox = D == 1 ? (int) nb : (exhaustive ? 24 : 4);
        for (int k = 0; k < nbox; ++k)
        {
            size_t j = D == 1 ? (size_t) k : (size_t) (rng.next () % nb);
            const std::vector<int>& cn = all[j / all.size ()];
            const std::vector<int>& cx = all[j % all.size ()];
            Q<A, T>::inBox (mn.data (), mx.data (), cn.data (), cx.data ());
            step<A, T> (mn.data (), mx.data (), 3, cn.data (), cx.data ());
            if (k < 2) step<A, T> (mn.data (), mx.data (), 6, cn.data (), cx.data ());
        }
        if (s < 8) { const std::vector<int>& p = fin[rng.below ((uint32_t) fin.size ())]; step<A, T> (mn.data (), mx.data (), 5, p.data (), 0); }
    }
    // integer element types: corners whose sums are odd and of either sign (size / center / majorAxis then depend on
    // how the halving rounds; the floating-point types keep to even sums so that every observer stays an integer)
    if (std::numeric_limits<T>::is_integer)
    {
        static const int ODD[5] = {-7, -3, -1, 2, 5};
        long n = 1; for (int i = 0; i < D; ++i) n *= 5;
        long pairs = n * n, cnt = D == 1 ? pairs : 2000;
        for (long s = 0; s < cnt; ++s)
        {
            long j = D == 1 ? s : (long) (rng.next () % (uint64_t) pairs);
            int cn[4], cx[4]; long a = j / n, b = j % n;
            for (int i = 0; i < D; ++i) { cn[i] = ODD[a % 5]; cx[i] = ODD[b % 5]; a /= 5; b /= 5; }
            if (s % 2 == 0) for (int i = 0; i < D; ++i) if (cn[i] > cx[i]) std::swap (cn[i], cx[i]);   // a good share of non-empty ones
            step<A, T> (all[0].data (), all[0].data (), 6, cn, cx);
        }
    }
}
template <class A, class T> static void enumclip (uint64_t seed, int samples)
{
    const int D = A::D;
    std::vector<std::vector<int>> fin;
    tuples (D, 1, 4, fin);
    VtRng rng (seed + 17);
    for (int s = 0; s < samples; ++s)
    {
        const std::vector<int>& mn = fin[rng.below ((uint32_t) fin.size ())];
        const std::vector<int>& mx = fin[rng.below ((uint32_t) fin.size ())];
        const std::vector<int>& p  = fin[rng.below ((uint32_t) fin.size ())];
        QV<A, T>::clips (mn.data (), mx.data (), p.data ());
    }
}
template <class T> static void enumcon (uint64_t seed, int samples)
{
    std::vector<std::vector<int>> fin;
    tuples (3, 1, 4, fin);
    VtRng rng (seed + 29);
    for (int s = 0; s < samples; ++s)
    {
        const std::vector<int>& mn = fin[rng.below ((uint32_t) fin.size ())];
        const std::vector<int>& mx = fin[rng.below ((uint32_t) fin.size ())];
        int p[3];
        for (int i = 0; i < 3; ++i) p[i] = rng.range (-3, 5);
        conq<T> (mn.data (), mx.data (), p);
    }
    // boxes of odd and even extents anywhere in -7..9 with interior points at every offset (the nearest face is decided by
    // comparing distances, so no rounding of a centre may enter), plus points outside
    for (int s = 0; s < samples; ++s)
    {
        int mn[3], mx[3], p[3];
        for (int i = 0; i < 3; ++i) { mn[i] = rng.range (-7, 5); mx[i] = mn[i] + rng.range (0, 9); p[i] = (s % 4 == 3) ? rng.range (-9, 16) : rng.range (mn[i], mx[i]); }
        conq<T> (mn, mx, p);
    }
    // the canonical empty box returns p itself
    int emn[3] = {1000, 1000, 1000}, emx[3] = {-1000, -1000, -1000}, p[3] = {1, -2, 3};
    conq<T> (emn, emx, p);
}

template <class T> static void all_dims (int D, uint64_t seed, int samples)
{
    if (D == 1) enumerate<A1<T>, T> (seed, samples);
    if (D == 2) { enumerate<A2<T>, T> (seed, samples); enumclip<A2<T>, T> (seed, 400); }
    if (D == 3) { enumerate<A3<T>, T> (seed, samples); enumclip<A3<T>, T> (seed, 800); enumcon<T> (seed, 1500); }
    if (D == 4) { enumerate<A4<T>, T> (seed, samples); enumclip<A4<T>, T> (seed, 400); }
}

// ---- replay of TLC-generated histories -----------------------------------------------------------
template <class A, class T> static void replay_one (const std::vector<std::string>& ops)
{
    typename A::B b;
    hdr<A, T> ("hbegin"); obs<A, T> (b); fprintf (o, "}\n");
    for (const std::string& line : ops)
    {
        std::istringstream ss (line);
        std::string        op;
        ss >> op;
        int a1[4] = {0, 0, 0, 0}, a2[4] = {0, 0, 0, 0};
        hdr<A, T> ("hstep");
        if (op == "makeEmpty") { b.makeEmpty (); fprintf (o, ",\"act\":\"makeEmpty\""); }
        else if (op == "makeInfinite") { b.makeInfinite (); fprintf (o, ",\"act\":\"makeInfinite\""); }
        else if (op == "extendPt") { for (int i = 0; i < A::D; ++i) ss >> a1[i]; typename A::P p = mkp<A, T> (a1); b.extendBy (p); fprintf (o, ",\"act\":\"extendPt\",\"p\":"); pp<A, T> (p); }
        else if (op == "extendBox" || op == "assign")
        {
            for (int i = 0; i < A::D; ++i) ss >> a1[i];
            for (int i = 0; i < A::D; ++i) ss >> a2[i];
            typename A::B c; c.min = mkp<A, T> (a1); c.max = mkp<A, T> (a2);
            if (op == "extendBox") b.extendBy (c); else { b.min = c.min; b.max = c.max; }
            fprintf (o, ",\"act\":\"%s\",\"c\":", op.c_str ()); pb<A, T> (c);
        }
        obs<A, T> (b);
        fprintf (o, "}\n");
    }
}
template <class T> static void replay_T (int D, const std::vector<std::string>& ops)
{
    if (D == 1) replay_one<A1<T>, T> (ops);
    if (D == 2) replay_one<A2<T>, T> (ops);
    if (D == 3) replay_one<A3<T>, T> (ops);
    if (D == 4) replay_one<A4<T>, T> (ops);
}
static int replay (const char* path)
{
    std::ifstream in (path);
    std::string   line;
    int           D = 0;
    std::vector<std::string> ops;
    auto flush = [&] () {
        if (!D) return;
        replay_T<short> (D, ops); replay_T<int> (D, ops); replay_T<int64_t> (D, ops); replay_T<float> (D, ops); replay_T<double> (D, ops);
        ops.clear ();
    };
    while (std::getline (in, line))
    {
        if (line.compare (0, 4, "hist") == 0) { flush (); D = atoi (line.c_str () + 5); }
        else if (!line.empty ()) ops.push_back (line);
    }
    flush ();
    return 0;
}

// ---- transforms --------------------------------------------------------------------------------------
template <class S, class T> static void xform (uint64_t seed, int n)
{
    VtRng rng (seed);
    for (int it = 0; it < n; ++it)
    {
        int kind = it % 8;     // 0..3 affine, 4..5 projective, 6 empty, 7 infinite
        Box<Vec3<S>> box;
        int bm[3], bx[3];
        for (int i = 0; i < 3; ++i) { bm[i] = rng.range (-3, 3); bx[i] = bm[i] + rng.range (0, 4); }
        box.min = Vec3<S> ((S) bm[0], (S) bm[1], (S) bm[2]); box.max = Vec3<S> ((S) bx[0], (S) bx[1], (S) bx[2]);
        if (kind == 6) box.makeEmpty ();
        if (kind == 7) box.makeInfinite ();
        Matrix44<T> m;
        int mi[16];
        for (int r = 0; r < 4; ++r) for (int c = 0; c < 4; ++c) { mi[r * 4 + c] = rng.range (-2, 2); }
        bool isproj = kind == 4 || kind == 5;
        if (!isproj) { mi[3] = mi[7] = mi[11] = 0; mi[15] = 1; }
        else
        {   // keep w = x*m03 + y*m13 + z*m23 + m33 strictly positive on the box: small non-negative weights, positive box
            for (int i = 0; i < 3; ++i) { mi[i * 4 + 3] = rng.range (0, 1); bm[i] = rng.range (0, 2); bx[i] = bm[i] + rng.range (0, 3); }
            mi[15] = rng.range (1, 2);
            if (mi[3] + mi[7] + mi[11] == 0) mi[3] = 1;
            box.min = Vec3<S> ((S) bm[0], (S) bm[1], (S) bm[2]); box.max = Vec3<S> ((S) bx[0], (S) bx[1], (S) bx[2]);
        }
        // homogeneous weights of either sign: the whole last column negated (every corner keeps a weight of one sign),
        // and last columns (0, 0, 0, w) with w other than one - not affine in the sense of affineTransform
        if (isproj && (it / 8) % 3 == 1) { mi[3] = -mi[3]; mi[7] = -mi[7]; mi[11] = -mi[11]; mi[15] = -mi[15]; }
        if (!isproj && kind < 4 && (it / 8) % 4 == 2) { static const int ws[4] = {-1, 2, -2, 3}; mi[15] = ws[(it / 32) % 4]; isproj = true; }
        for (int r = 0; r < 4; ++r) for (int c = 0; c < 4; ++c) m[r][c] = (T) mi[r * 4 + c];
        for (int form = 0; form < 4; ++form)
        {
            if ((form == 2 || form == 3) && isproj) continue;   // affineTransform requires an affine matrix
            for (int pre = 0; pre < 4; ++pre)
            {
                if ((form == 0 || form == 2) && pre > 0) continue;
                Box<Vec3<S>> res;
                if (pre == 1) { res.min = Vec3<S> ((S) -50, (S) 60, (S) -70); res.max = Vec3<S> ((S) 80, (S) 90, (S) 100); }
                if (pre == 2) res.makeInfinite ();
                if (pre == 3) res = box;                 // in place: the result object IS the source (transform (b, m, b))
                switch (form)
                {
                    case 0: res = transform (box, m); break;
                    case 1: if (pre == 3) transform (res, m, res); else transform (box, m, res); break;
                    case 2: res = affineTransform (box, m); break;
                    default: if (pre == 3) affineTransform (res, m, res); else affineTransform (box, m, res); break;
                }
                fprintf (o, "{\"e\":\"xform\",\"fn\":\"%s\",\"form\":\"%s\",\"S\":\"%s\",\"T\":\"%s\",\"pre\":%d,\"kind\":\"%s\",\"box\":{\"mn\":[%d,%d,%d],\"mx\":[%d,%d,%d]},\"m\":[",
                         form < 2 ? "transform" : "affineTransform", (form & 1) ? "out" : "ret", TN<S>::n (), TN<T>::n (), pre,
                         kind == 6 ? "empty" : kind == 7 ? "infinite" : isproj ? "projective" : "affine",
                         proj<S> (box.min[0]), proj<S> (box.min[1]), proj<S> (box.min[2]), proj<S> (box.max[0]), proj<S> (box.max[1]), proj<S> (box.max[2]));
                for (int i = 0; i < 16; ++i) fprintf (o, "%s%d", i ? "," : "", mi[i]);
                fprintf (o, "],\"t\":\"%s\",\"rmn\":[", vt_tag (S ()));
                for (int i = 0; i < 3; ++i) { if (i) fprintf (o, ","); vt_num (o, res.min[i]); }
                fprintf (o, "],\"rmx\":[");
                for (int i = 0; i < 3; ++i) { if (i) fprintf (o, ","); vt_num (o, res.max[i]); }
                fprintf (o, "],\"remp\":%d,\"rinf\":%d}\n", (int) res.isEmpty (), (int) res.isInfinite ());
            }
        }
    }
}

int main (int argc, char** argv)
{
    vt_init ();
    std::string mode = argc > 1 ? argv[1] : "enum";
    if (mode == "replay") return replay (argv[2]);
    if (mode == "enum")
    {
        int      D = atoi (argv[2]);
        uint64_t seed = strtoull (argv[3], 0, 10);
        int      samples = atoi (argv[4]);
        std::string T = argc > 5 ? argv[5] : "all";
        if (T == "all" || T == "short") all_dims<short> (D, seed, samples);
        if (T == "all" || T == "int") all_dims<int> (D, seed, samples);
        if (T == "all" || T == "int64") all_dims<int64_t> (D, seed, samples);
        if (T == "all" || T == "float") all_dims<float> (D, seed, samples);
        if (T == "all" || T == "double") all_dims<double> (D, seed, samples);
        return 0;
    }
    if (mode == "xform")
    {
        uint64_t seed = strtoull (argv[2], 0, 10);
        int      n = atoi (argv[3]);
        xform<float, float> (seed, n); xform<double, double> (seed + 1, n); xform<float, double> (seed + 2, n); xform<double, float> (seed + 3, n);
        return 0;
    }
    return 2;
}
