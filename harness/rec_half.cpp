// Recorder for C03: drives the public API of class half on enumerated inputs and logs
// raw bits.  Modes:  cls | round <stride> | arith <tier> <seed> | limits | lut
#include "vtrace.h"
#include <half.h>
#include <halfFunction.h>
#include <halfLimits.h>
#include <cmath>
#include <limits>
#include <sstream>
#include <vector>
#include <set>
#include <utility>

using IMATH_INTERNAL_NAMESPACE::half;

static half mk (unsigned b) { half h; h.setBits ((uint16_t) b); return h; }

static const char* fpc (float f)
{
    switch (std::fpclassify (f))
    {
        case FP_ZERO: return "zero";
        case FP_NORMAL: return "normal";
        case FP_SUBNORMAL: return "subnormal";
        case FP_INFINITE: return "inf";
        case FP_NAN: return "nan";
    }
    return "?";
}

static void rec_cls (FILE* o)
{
    for (unsigned b = 0; b < 65536; ++b)
    {
        half  h = mk (b);
        float f = (float) h;
        half  n = -h;
        std::stringstream ss;
        ss << h;
        half t = mk (0x7e00 ^ 0x0155);
        ss >> t;
        unsigned tb = ss.fail () ? 70000u : t.bits ();
        // printBits: the four overloads, lexed into 0 / 1 / 2 (space) / 9 (anything else)
        std::string pb, pbc, pbf, pbfc;
        {
            auto lex = [] (const std::string& txt) { std::string r = "["; for (size_t i = 0; i < txt.size (); ++i) { char ch = txt[i]; r += (i ? "," : ""); r += (ch == '0' ? "0" : ch == '1' ? "1" : ch == ' ' ? "2" : "9"); } return r + "]"; };
            std::ostringstream a; printBits (a, h); pb = lex (a.str ());
            char c19[19]; memset (c19, 'x', sizeof c19); printBits (c19, h); pbc = lex (std::string (c19, strnlen (c19, 19)));
            std::ostringstream b2; printBits (b2, f); pbf = lex (b2.str ());
            char c35[35]; memset (c35, 'x', sizeof c35); printBits (c35, f); pbfc = lex (std::string (c35, strnlen (c35, 35)));
        }
        uint32_t fw; memcpy (&fw, &f, 4);
        fprintf (o, "{\"e\":\"cls\",\"pb\":%s,\"pbc\":%s,\"pbf\":%s,\"pbfc\":%s,\"fw\":[%u,%u],\"h\":%u,", pb.c_str (), pbc.c_str (), pbf.c_str (), pbfc.c_str (), fw >> 16, fw & 0xffffu, b);
        fprintf (o, "\"fin\":%d,\"nrm\":%d,\"den\":%d,\"zer\":%d,\"nan\":%d,\"inf\":%d,\"neg\":%d,"
                    "\"fpc\":\"%s\",\"fsb\":%d,\"negbits\":%u,\"text\":%u}\n",
                 (int) h.isFinite (), (int) h.isNormalized (), (int) h.isDenormalized (), (int) h.isZero (),
                 (int) h.isNan (), (int) h.isInfinity (), (int) h.isNegative (), fpc (f), (int) std::signbit (f),
                 (unsigned) n.bits (), tb);
    }
}

static void rec_round (FILE* o, unsigned stride, unsigned phase)
{
    static const unsigned ns[] = {0, 1, 2, 3, 4, 5, 6, 7, 8, 9, 10, 11, 12, 15, 16, 31, 32, 0x80000000u, 0xffffffffu};
    for (unsigned b = 0; b < 65536; ++b)
    {
        // boundary patterns (extreme exponents incl. inf/NaN, first/middle/last significands)
        // are always recorded; the rest with the given stride
        unsigned e = (b >> 10) & 31, m = b & 0x3ff;
        bool     boundary = e == 0 || e >= 30 || m <= 1 || m >= 0x3fe || (m >= 0x1ff && m <= 0x201);
        if (!boundary && (b % stride) != (phase % stride)) continue;
        for (unsigned n : ns)
        {
            half r = mk (b).round (n);
            fprintf (o, "{\"e\":\"round\",\"h\":%u,\"nw\":", b);
            vt_w32 (o, n);
            fprintf (o, ",\"out\":%u}\n", (unsigned) r.bits ());
        }
    }
}

static const char* opname[4] = {"add", "sub", "mul", "div"};

static void emit_arith_h (FILE* o, int op, unsigned a, unsigned b)
{
    half x = mk (a), y = mk (b);
    switch (op) { case 0: x += y; break; case 1: x -= y; break; case 2: x *= y; break; default: x /= y; }
    fprintf (o, "{\"e\":\"arith\",\"op\":\"%s\",\"rt\":\"h\",\"a\":%u,\"b\":[%u],\"out\":%u}\n", opname[op], a, b, (unsigned) x.bits ());
}
static void emit_arith_f (FILE* o, int op, unsigned a, uint32_t fb)
{
    half  x = mk (a);
    float y = vt_bitsf (fb);
    switch (op) { case 0: x += y; break; case 1: x -= y; break; case 2: x *= y; break; default: x /= y; }
    fprintf (o, "{\"e\":\"arith\",\"op\":\"%s\",\"rt\":\"f\",\"a\":%u,\"b\":", opname[op], a);
    vt_w32 (o, fb);
    fprintf (o, ",\"out\":%u}\n", (unsigned) x.bits ());
}

// boundary-class halves: every exponent's first/last/adjacent mantissas, both signs
static std::vector<unsigned> boundary_halves (bool full)
{
    static const unsigned ms_full[] = {0, 1, 2, 0x1ff, 0x200, 0x201, 0x3fe, 0x3ff};
    static const unsigned ms_small[] = {0, 1, 0x200, 0x3ff};
    std::vector<unsigned> v;
    for (unsigned s = 0; s < 2; ++s)
        for (unsigned e = 0; e < 32; ++e)
        {
            if (full) for (unsigned m : ms_full) v.push_back ((s << 15) | (e << 10) | m);
            else for (unsigned m : ms_small) v.push_back ((s << 15) | (e << 10) | m);
        }
    return v;
}

// float right-hand sides: float neighbours of the half rounding boundaries and classes
static std::vector<uint32_t> boundary_floats (bool full)
{
    std::vector<uint32_t> v;
    static const uint32_t base[] = {0x00000000u, 0x00000001u, 0x007fffffu, 0x00800000u, 0x33000000u, 0x33000001u, 0x337fffffu,
                                    0x33800000u, 0x387fc000u, 0x387fe000u, 0x38800000u, 0x38800001u, 0x3f7fffffu, 0x3f800000u,
                                    0x3f800001u, 0x3f801000u, 0x3f801001u, 0x3f802000u, 0x3f803000u, 0x3fffffffu, 0x40000000u,
                                    0x40490fdbu, 0x477fe000u, 0x477fefffu, 0x477ff000u, 0x477ff001u, 0x47800000u, 0x4b800000u,
                                    0x7f7fffffu, 0x7f800000u, 0x7f800001u, 0x7fc00000u, 0x7fffffffu, 0x3eaaaaabu, 0x3dcccccdu};
    for (uint32_t b : base) { v.push_back (b); v.push_back (b | 0x80000000u); }
    if (full)
        for (unsigned e = 100; e < 146; ++e)
            for (uint32_t m : {0x000000u, 0x000fffu, 0x001000u, 0x001001u, 0x7fefffu, 0x7ff000u, 0x7fffffu})
                v.push_back ((e << 23) | m);
    return v;
}

static void rec_arith (FILE* o, bool thorough, uint64_t seed)
{
    std::vector<unsigned> B = boundary_halves (thorough);
    std::vector<uint32_t> F = boundary_floats (thorough);
    for (unsigned a : B)
        for (unsigned b : B)
            for (int op = 0; op < 4; ++op) emit_arith_h (o, op, a, b);
    for (unsigned a : B)
        for (uint32_t f : F)
            for (int op = 0; op < 4; ++op) emit_arith_f (o, op, a, f);
    VtRng rng (seed);
    unsigned  nrand = thorough ? 400000u : 60000u;
    for (unsigned i = 0; i < nrand; ++i)
    {
        unsigned a = rng.below (65536), b = rng.below (65536);
        int      op = (int) rng.below (4);
        if (i & 1) emit_arith_h (o, op, a, b);
        else
        {
            // float with a random exponent in the half range and random low bits
            uint32_t fb = ((uint32_t) rng.below (2) << 31) | ((uint32_t) rng.range (96, 146) << 23) | rng.below (1u << 23);
            emit_arith_f (o, op, a, fb);
        }
    }
}

#define LIMW(name) fprintf (o, ",\"" #name "\":%u", (unsigned) std::numeric_limits<half>::name ().bits ())
#define LIMI(name) fprintf (o, ",\"" #name "\":%d", (int) std::numeric_limits<half>::name)
#define MACD(name) do { fprintf (o, ",\"" #name "\":"); vt_d (o, (double) (name)); } while (0)
#define MACI(name) fprintf (o, ",\"" #name "\":%d", (int) (name))

static void rec_limits (FILE* o)
{
    fprintf (o, "{\"e\":\"limits\"");
    LIMW (max); LIMW (lowest); LIMW (min); LIMW (denorm_min); LIMW (epsilon); LIMW (round_error); LIMW (infinity);
    fprintf (o, ",\"qnan\":%u,\"snan\":%u", (unsigned) std::numeric_limits<half>::quiet_NaN ().bits (),
             (unsigned) std::numeric_limits<half>::signaling_NaN ().bits ());
    fprintf (o, ",\"posInf\":%u,\"negInf\":%u,\"qNan\":%u,\"sNan\":%u", (unsigned) half::posInf ().bits (), (unsigned) half::negInf ().bits (),
             (unsigned) half::qNan ().bits (), (unsigned) half::sNan ().bits ());
    LIMI (digits); LIMI (digits10); LIMI (max_digits10); LIMI (radix); LIMI (min_exponent); LIMI (max_exponent);
    LIMI (min_exponent10); LIMI (max_exponent10); LIMI (is_signed); LIMI (is_integer); LIMI (is_exact);
    LIMI (has_infinity); LIMI (has_quiet_NaN); LIMI (has_signaling_NaN); LIMI (is_bounded); LIMI (is_modulo);
    MACD (HALF_MAX); MACD (HALF_MIN); MACD (HALF_NRM_MIN); MACD (HALF_DENORM_MIN); MACD (HALF_EPSILON);
    MACI (HALF_MANT_DIG); MACI (HALF_DIG); MACI (HALF_DECIMAL_DIG); MACI (HALF_RADIX); MACI (HALF_DENORM_MIN_EXP);
    MACI (HALF_MAX_EXP); MACI (HALF_DENORM_MIN_10_EXP); MACI (HALF_MAX_10_EXP);
    fprintf (o, "}\n");
}

static int fbits (half x) { return (int) x.bits (); }

static void rec_lut (FILE* o, bool thorough)
{
    struct P { unsigned dmin, dmax; int dflt, pinf, ninf, nan; };
    std::vector<P> ps = {
        {0xfbff, 0x7bff, 70001, 70002, 70003, 70004},   // default domain [-HALF_MAX, HALF_MAX]
        {0x0000, 0x3c00, 70001, 70002, 70003, 70004},   // [0, 1]: -0 is in the domain, values compare
        {0x8000, 0x3c00, 70011, 70012, 70013, 70014},   // [-0, 1]
        {0xbc00, 0x0001, 70021, 70022, 70023, 70024},   // [-1, min subnormal]
        {0xbc00, 0x8000, 70081, 70082, 70083, 70084},   // [-1, -0]: +0 is in the domain
        {0x3c01, 0x3c01, 70031, 70032, 70033, 70034},   // a single point
        {0x4000, 0x3c00, 70041, 70042, 70043, 70044},   // empty domain (min > max)
    };
    if (thorough)
    {
        ps.push_back ({0x83ff, 0x03ff, 70051, 70052, 70053, 70054});   // subnormals only
        ps.push_back ({0x7bff, 0x7bff, 70061, 70062, 70063, 70064});
        ps.push_back ({0xfbff, 0x8001, 70071, 70072, 70073, 70074});
    }
    int id = 0;
    for (const P& p : ps)
    {
        ++id;
        halfFunction<int> lut (fbits, mk (p.dmin), mk (p.dmax), p.dflt, p.pinf, p.ninf, p.nan);
        fprintf (o, "{\"e\":\"lutbuild\",\"id\":\"L%d\",\"dmin\":%u,\"dmax\":%u,\"dflt\":%d,\"pinf\":%d,\"ninf\":%d,\"nan\":%d}\n", id,
                 p.dmin, p.dmax, p.dflt, p.pinf, p.ninf, p.nan);
        for (unsigned b = 0; b < 65536; ++b)
            fprintf (o, "{\"e\":\"lut\",\"id\":\"L%d\",\"x\":%u,\"out\":%d}\n", id, b, lut (mk (b)));
    }
}

int main (int argc, char** argv)
{
    vt_init ();
    std::string mode = argc > 1 ? argv[1] : "cls";
    FILE* o = stdout;
    if (mode == "cls") rec_cls (o);
    else if (mode == "round") rec_round (o, argc > 2 ? (unsigned) atoi (argv[2]) : 1, argc > 3 ? (unsigned) atoi (argv[3]) : 0);
    else if (mode == "arith") rec_arith (o, argc > 2 && std::string (argv[2]) == "thorough", argc > 3 ? strtoull (argv[3], 0, 10) : 1);
    else if (mode == "limits") rec_limits (o);
    else if (mode == "lut") rec_lut (o, argc > 2 && std::string (argv[2]) == "thorough");
    else return 2;
    return 0;
}
