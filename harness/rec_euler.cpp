// Recorder / replayer for C11 (Euler angles in all 24 orders).
//   rec_euler table <file>      : replays the TLC-generated table of order codes (one integer per line): public
//                                 view of each order (flags, permutations, slot layouts) with distinguishable angles
//   rec_euler rec <seed> <n>    : numeric round trips for all 24 orders x angle triples (incl. gimbal lock)
#include "vrec.h"
#include <ImathEuler.h>
#include <ImathMatrixAlgo.h>
#include <cmath>
#include <fstream>

template <class T> static const char* tg () { return vt_tag (T ()); }

static const int ORDERS[24] = {0x0101, 0x0001, 0x1101, 0x1001, 0x2101, 0x2001, 0x0011, 0x0111, 0x1011, 0x1111, 0x2011, 0x2111,
                               0x2000, 0x2100, 0x1000, 0x1100, 0x0000, 0x0100, 0x2110, 0x2010, 0x1110, 0x1010, 0x0110, 0x0010};

template <class T> static void table (const char* path)
{
    std::ifstream in (path);
    int code;
    while (in >> code)
    {
        typename Euler<T>::Order o = (typename Euler<T>::Order) code;
        Euler<T> e ((T) 1, (T) 2, (T) 3, o);                      // IJK layout: slots hold 1, 2, 3
        int ai, aj, ak, mi, mj, mk;
        e.angleOrder (ai, aj, ak); e.angleMapping (mi, mj, mk);
        Vec3<T> xyz = e.toXYZVector ();
        Euler<T> f (Vec3<T> (10, 20, 30), o, Euler<T>::XYZLayout); // XYZ layout constructor
        Euler<T> f3 ((T) 10, (T) 20, (T) 30, o, Euler<T>::XYZLayout);   // the three-scalar form of the same constructor
        Euler<T> g (o); g.setXYZVector (Vec3<T> (10, 20, 30));
        Euler<T> h; h.setOrder (o);
        Vec3<T> back = f.toXYZVector ();
        // set(axis, relative, parityEven, firstRepeats) with the four components the spec derives from the code
        Euler<T> viaSet; viaSet.set ((typename Euler<T>::Axis) ((code >> 12) & 3), (code & 1) == 0, (code & 0x100) != 0, (code & 0x10) != 0);
        printf ("{\"e\":\"order\",\"t\":\"%s\",\"setord\":%d,\"setargs\":[%d,%d,%d,%d],\"code\":%d,\"legal\":%d,\"order\":%d,\"order2\":%d,\"static\":%d,\"repeated\":%d,\"even\":%d,\"axis\":%d,"
                "\"ao\":[%d,%d,%d],\"am\":[%d,%d,%d],\"slots\":[%d,%d,%d],\"toxyz\":[%d,%d,%d],\"ctorxyz\":[%d,%d,%d],\"ctorxyz3\":[%d,%d,%d],\"setxyz\":[%d,%d,%d],\"back\":[%d,%d,%d]}\n",
                tg<T> (), (int) viaSet.order (), (code >> 12) & 3, (int) ((code & 1) == 0), (int) ((code & 0x100) != 0), (int) ((code & 0x10) != 0), code, (int) Euler<T>::legal (o), (int) e.order (), (int) h.order (), (int) e.frameStatic (), (int) e.initialRepeated (), (int) e.parityEven (),
                (int) e.initialAxis (), ai, aj, ak, mi, mj, mk, (int) e.x, (int) e.y, (int) e.z, (int) xyz.x, (int) xyz.y, (int) xyz.z, (int) f.x, (int) f.y, (int) f.z, (int) f3.x, (int) f3.y, (int) f3.z,
                (int) g.x, (int) g.y, (int) g.z, (int) back.x, (int) back.y, (int) back.z);
    }
}

template <class T> static std::string trig (const Vec3<T>& a)
{
    T v[6] = {(T) std::cos (a.x), (T) std::sin (a.x), (T) std::cos (a.y), (T) std::sin (a.y), (T) std::cos (a.z), (T) std::sin (a.z)};
    return jlist (v, 6);
}

template <class T> static void numeric (Gen<T>& g, int it)
{
    const char* t = tg<T> ();
    const T pi = (T) 3.14159265358979323846;
    for (int oi = 0; oi < 24; ++oi)
    {
        typename Euler<T>::Order o = (typename Euler<T>::Order) ORDERS[oi];
        bool repeated = (ORDERS[oi] & 0x10) != 0;
        // angle triples over several periods; the middle angle at / near gimbal lock
        Vec3<T> a ((T) (g.full () * 2 + (it % 5 - 2) * 2 * pi), (T) (g.full () / 2), (T) (g.full () * 2 + ((it / 5) % 3 - 1) * 2 * pi));
        int lock = (it + oi) % 6;
        if (lock >= 3)
        {
            T base = repeated ? ((lock == 3) ? (T) 0 : pi) : ((lock == 3) ? pi / 2 : -pi / 2);
            T d = (lock == 5) ? (T) 0 : (T) std::pow (10.0, -(double) (1 + (it / 3) % 12));
            a.y = base + ((it % 2) ? d : -d);
        }
        Euler<T> e (a, o);
        Matrix33<T> m3 = e.toMatrix33 ();
        Matrix44<T> m4 = e.toMatrix44 ();
        Quat<T>     q  = e.toQuat ();
        // setEulerAngles on a matrix that held something else before (a projective, translated, scaled one): all 16 entries are set
        Matrix44<T> se ((T) 2, (T) -3, (T) 0.5, (T) 0.25, (T) 7, (T) 1, (T) -2, (T) 0.5, (T) 3, (T) 4, (T) 5, (T) -1, (T) 9, (T) -8, (T) 6, (T) 2);
        se.setEulerAngles (a);
        {
            Rec r ("emat"); r.str ("t", t); r.num ("code", ORDERS[oi]); r.raw ("a", jv ((Vec3<T>) e)); r.raw ("trig", trig<T> (e));
            r.raw ("m33", jv (m3)); r.raw ("m44", jv (m4)); r.raw ("q", jv (q)); r.raw ("mq", jv (q.toMatrix33 ())); r.raw ("seteuler", jv (se)); r.emit ();
        }
        // extraction from 3x3, 4x4 and quaternion; converting back reproduces the rotation
        Euler<T> x3 (o), x4 (o), xq (o);
        x3.extract (m3); x4.extract (m4); xq.extract (q);
        Euler<T> c3 (m3, o), c4 (m4, o);
        {
            Rec r ("eext"); r.str ("t", t); r.num ("code", ORDERS[oi]); r.raw ("m33", jv (m3));
            r.raw ("x3", jv ((Vec3<T>) x3)); r.raw ("x4", jv ((Vec3<T>) x4)); r.raw ("c3", jv ((Vec3<T>) c3)); r.raw ("c4", jv ((Vec3<T>) c4));
            r.raw ("back3", jv (x3.toMatrix33 ())); r.raw ("xq", jv ((Vec3<T>) xq)); r.raw ("backq", jv (xq.toMatrix33 ())); r.raw ("mq", jv (q.toMatrix33 ()));
            r.num ("ord3", (int) c3.order ()); r.emit ();
        }
        // extraction of any order from a rotation that was not built in that order
        {
            typename Euler<T>::Order o2 = (typename Euler<T>::Order) ORDERS[(oi * 7 + it) % 24];
            Euler<T> y (m3, o2);
            Euler<T> re (e, o2);                                  // re-ordering constructor
            Rec r ("eany"); r.str ("t", t); r.num ("code", ORDERS[oi]); r.num ("code2", (int) o2); r.raw ("m33", jv (m3));
            r.raw ("back", jv (y.toMatrix33 ())); r.raw ("reorder", jv (re.toMatrix33 ())); r.num ("ord", (int) re.order ()); r.emit ();
        }
        // makeNear / nearestRotation / simpleXYZRotation: the six non-repeated static orders
        if (oi < 6)
        {
            Vec3<T> tgt ((T) (g.full () * 6), (T) (g.full () * 6), (T) (g.full () * 6));
            Euler<T> n = e; n.makeNear (Euler<T> (tgt, o));
            Vec3<T> xyzRot = e.toXYZVector (), xyzT = Euler<T> (tgt, o).toXYZVector ();
            Vec3<T> nr = xyzRot; Euler<T>::nearestRotation (nr, xyzT, o);
            Euler<T> nre (o); nre.setXYZVector (nr);
            Vec3<T> sr = a; Euler<T>::simpleXYZRotation (sr, tgt);
            Matrix44<T> sm0, sm1; sm0.setEulerAngles (a); sm1.setEulerAngles (sr);
            Rec r ("enear"); r.str ("t", t); r.num ("code", ORDERS[oi]); r.raw ("m", jv (m3)); r.raw ("target", jv (tgt)); r.raw ("near", jv ((Vec3<T>) n)); r.raw ("mnear", jv (n.toMatrix33 ()));
            r.raw ("xyzt", jv (xyzT)); r.raw ("nr", jv (nr)); r.raw ("mnr", jv (nre.toMatrix33 ()));
            r.raw ("a", jv (a)); r.raw ("sr", jv (sr)); r.raw ("sm0", jv (sm0)); r.raw ("sm1", jv (sm1)); r.emit ();
        }
        // makeNear towards a target held in ANOTHER order ("the target" is then the target re-expressed in this order):
        // the rotating-frame order whose word differs in the frame bit only, then any of the 24 orders
        if (oi < 6)
            for (int k = 0; k < 2; ++k)
            {
                int c2 = k == 0 ? (ORDERS[oi] ^ 1) : ORDERS[(oi * 5 + it * 3 + 1) % 24];
                if (c2 == ORDERS[oi]) c2 = ORDERS[(oi + 12) % 24];      // the same order is the enear record above (the target is then used as given)
                typename Euler<T>::Order o2 = (typename Euler<T>::Order) c2;
                Vec3<T> tgt ((T) (g.full () * 3), (T) (g.full () * 1.5), (T) (g.full () * 3));
                if (k == 0 && it % 2 == 0) tgt.z = -tgt.x;
                Euler<T> target (tgt, o2), tre (target, o);
                Euler<T> n = e; n.makeNear (target);
                Rec r ("enear2"); r.str ("t", t); r.num ("code", ORDERS[oi]); r.num ("code2", c2); r.raw ("m", jv (m3)); r.raw ("target", jv (tgt));
                r.raw ("mtgt", jv (target.toMatrix33 ())); r.raw ("tre", jv ((Vec3<T>) tre)); r.raw ("mtre", jv (tre.toMatrix33 ())); r.num ("ordtre", (int) tre.order ());
                r.raw ("near", jv ((Vec3<T>) n)); r.raw ("mnear", jv (n.toMatrix33 ())); r.num ("ordnear", (int) n.order ()); r.emit ();
            }
    }
    // exact gimbal lock: every signed axis-permutation rotation matrix (entries exactly 0, +-1), every order
    if (it == 0)
    {
        static const int perms[6][3] = {{0, 1, 2}, {0, 2, 1}, {1, 0, 2}, {1, 2, 0}, {2, 0, 1}, {2, 1, 0}};
        for (int p = 0; p < 6; ++p) for (int sg = 0; sg < 8; ++sg)
        {
            Matrix33<T> m;
            for (int i = 0; i < 3; ++i) for (int j = 0; j < 3; ++j) m[i][j] = 0;
            for (int i = 0; i < 3; ++i) m[i][perms[p][i]] = (sg >> i) & 1 ? (T) -1 : (T) 1;
            if (m.determinant () < 0) continue;
            Matrix44<T> m4;
            for (int i = 0; i < 3; ++i) for (int j = 0; j < 3; ++j) m4[i][j] = m[i][j];
            Quat<T> q = extractQuat (m4);
            for (int oi = 0; oi < 24; ++oi)
            {
                typename Euler<T>::Order o = (typename Euler<T>::Order) ORDERS[oi];
                Euler<T> x3 (o), x4 (o), xq (o);
                x3.extract (m); x4.extract (m4); xq.extract (q);
                Euler<T> c3 (m, o), c4 (m4, o);
                Rec r ("eext"); r.str ("t", tg<T> ()); r.num ("code", ORDERS[oi]); r.raw ("m33", jv (m));
                r.raw ("x3", jv ((Vec3<T>) x3)); r.raw ("x4", jv ((Vec3<T>) x4)); r.raw ("c3", jv ((Vec3<T>) c3)); r.raw ("c4", jv ((Vec3<T>) c4));
                r.raw ("back3", jv (x3.toMatrix33 ())); r.raw ("xq", jv ((Vec3<T>) xq)); r.raw ("backq", jv (xq.toMatrix33 ())); r.raw ("mq", jv (q.toMatrix33 ()));
                r.num ("ord3", (int) c3.order ()); r.emit ();
            }
        }
    }
    // extractEulerXYZ / extractEulerZYX / extractEuler (2-D)
    {
        Vec3<T> a ((T) (g.full () * 3), (T) (g.full () * 1.5), (T) (g.full () * 3));
        if (it % 4 == 3) a.y = (T) (1.5707963267948966 - std::pow (10.0, -(double) (1 + it % 9)));
        Matrix44<T> m; m.setEulerAngles (a);
        Vec3<T> rx; extractEulerXYZ (m, rx);
        Matrix44<T> bx; bx.setEulerAngles (rx);
        Matrix44<T> mz = Euler<T> (a, Euler<T>::ZYX).toMatrix44 ();
        Vec3<T> rz; extractEulerZYX (mz, rz);
        Matrix44<T> bz = Euler<T> (rz, Euler<T>::ZYX).toMatrix44 ();
        T ang = (T) (g.full () * 6), r2 = 0, r3 = 0;
        Matrix22<T> m2; m2.setRotation (ang); extractEuler (m2, r2);
        Matrix33<T> m3; m3.setRotation (ang); extractEuler (m3, r3);
        Matrix22<T> b2; b2.setRotation (r2);
        Matrix33<T> b3; b3.setRotation (r3);
        Rec r ("exalgo"); r.str ("t", tg<T> ()); r.raw ("m", jv (m)); r.raw ("bx", jv (bx)); r.raw ("mz", jv (mz)); r.raw ("bz", jv (bz));
        r.raw ("m2", jv (m2)); r.raw ("b2", jv (b2)); r.raw ("m3", jv (m3)); r.raw ("b3", jv (b3)); r.emit ();
    }
    // angleMod
    {
        static const double xs[] = {0, 3.0, -3.0, 3.14159265358979, -3.14159265358979, 3.2, -3.2, 6.28318530717958, 6.3, -6.3, 9.5, 100.0, -100.0, 1e3, -12345.5, 1e-10};
        for (double x : xs) { T xx = (T) (x + (it ? (double) g.full () : 0.0)); Rec r ("amod"); r.str ("t", tg<T> ()); r.raw ("x", jw (xx)); r.raw ("out", jw ((float) Euler<T>::angleMod (xx))); r.emit (); }
    }
}

int main (int argc, char** argv)
{
    vt_init ();
    std::string mode = argc > 1 ? argv[1] : "rec";
    if (mode == "table") { table<float> (argv[2]); table<double> (argv[2]); return 0; }
    uint64_t seed = argc > 2 ? strtoull (argv[2], 0, 10) : 1;
    int      n    = argc > 3 ? atoi (argv[3]) : 5;
    Gen<float> gf (seed); Gen<double> gd (seed + 3);
    for (int it = 0; it < n; ++it) { numeric<float> (gf, it + (int) (seed % 16) * n); numeric<double> (gd, it + (int) (seed % 16) * n); }
    return 0;
}
