// Recorder for C08 (length / normalisation accuracy) and the vector part of C07 (checked vs unchecked forms).
//   rec_vecnorm <seed> <count>
#include "vrec.h"
#include <cmath>
#include <limits>
#include <stdexcept>
#include <typeinfo>

template <class T> static const char* tg () { return vt_tag (T ()); }

static const char* excname (const std::exception& e)
{
    if (dynamic_cast<const std::domain_error*> (&e)) return "std::domain_error";
    if (dynamic_cast<const std::invalid_argument*> (&e)) return "std::invalid_argument";
    if (dynamic_cast<const std::logic_error*> (&e)) return "std::logic_error";
    if (dynamic_cast<const std::runtime_error*> (&e)) return "std::runtime_error";
    return "std::exception";
}

struct FormList
{
    std::string s = "[";
    void add (const char* name, const char* exc, const std::string& v)
    {
        if (s.size () > 1) s += ",";
        s += "{\"s\":\""; s += name; s += "\",\"exc\":\""; s += exc; s += "\",\"v\":"; s += v; s += "}";
    }
    std::string done () { return s + "]"; }
};

template <class T, class V> static void one (const V& x, int n)
{
    Rec r ("vec"); r.str ("t", tg<T> ()); r.num ("n", n); r.raw ("x", jv (x));
    r.raw ("len", jw (x.length ())); r.raw ("len2", jw (x.length2 ())); r.raw ("dot", jw (x.dot (x)));
    FormList f;
    { V c = x; c.normalize (); f.add ("normalize", "", jv (c)); }
    { f.add ("normalized", "", jv (x.normalized ())); }
    { V c = x; try { c.normalizeExc (); f.add ("normalizeExc", "", jv (c)); } catch (const std::exception& e) { f.add ("normalizeExc", excname (e), "[]"); } }
    { try { V c = x.normalizedExc (); f.add ("normalizedExc", "", jv (c)); } catch (const std::exception& e) { f.add ("normalizedExc", excname (e), "[]"); } }
    { V c = x; c.normalizeNonNull (); f.add ("normalizeNonNull", "", jv (c)); }
    { f.add ("normalizedNonNull", "", jv (x.normalizedNonNull ())); }
    r.raw ("forms", f.done ()); r.emit ();
}

template <class T> static void v34 (const Vec4<T>& v)
{
    Rec r ("v34"); r.str ("t", tg<T> ()); r.num ("n", 4); r.raw ("x", jv (v));
    Vec3<T> u (v);
    r.raw ("unchecked", std::string ("{\"exc\":\"\",\"v\":") + jv (u) + "}");
    try { Vec3<T> c (v, INF_EXCEPTION); r.raw ("checked", std::string ("{\"exc\":\"\",\"v\":") + jv (c) + "}"); }
    catch (const std::exception& e) { r.raw ("checked", std::string ("{\"exc\":\"") + excname (e) + "\",\"v\":[]}"); }
    r.emit ();
}

template <class T, class V> static void patterns (Gen<T>& g, int n, int e)
{
    // e: binary exponent of the dominant component; patterns of relative magnitude
    static const int seps[] = {0, 1, 12, std::numeric_limits<T>::digits, 60};
    auto val = [&] (int ex) -> T {
        double m = 1.0 + (double) (g.rng.next () >> 12) / 4503599627370496.0;      // [1,2)
        if (g.rng.below (3) == 0) m = 1.0;
        T x = (T) std::ldexp (m, ex);
        return g.rng.below (2) ? x : -x;
    };
    V x;
    // single non-zero component (each position), others +-0
    for (int k = 0; k < n; ++k)
    {
        for (int i = 0; i < n; ++i) x[i] = (i == k) ? val (e) : (g.rng.below (2) ? (T) 0 : -(T) 0);
        one<T> (x, n);
    }
    // equal magnitudes
    { T a = val (e); for (int i = 0; i < n; ++i) x[i] = g.rng.below (2) ? a : -a; one<T> (x, n); }
    // mixed magnitudes
    for (int s : seps)
    {
        for (int i = 0; i < n; ++i) x[i] = val (e - (int) g.rng.below ((uint32_t) s + 1));
        x[g.rng.below ((uint32_t) n)] = val (e);
        one<T> (x, n);
    }
    // generic mantissas at the same exponent
    for (int i = 0; i < n; ++i) x[i] = val (e);
    one<T> (x, n);
    // one dominant component and the others far below it, down to the smallest subnormals, in every order of magnitudes
    // (a scaling by anything but the largest component would overflow or vanish)
    {
        const T dm = std::numeric_limits<T>::denorm_min ();
        for (int k = 0; k < n; ++k)
        {
            for (int i = 0; i < n; ++i) x[i] = (T) 0;
            x[k] = val (e);
            int j = (k + 1 + (int) g.rng.below ((uint32_t) (n - 1))) % n;
            x[j] = (g.rng.below (2) ? dm : -dm) * (T) (1 + g.rng.below (3));
            if (n > 2 && g.rng.below (2)) { int q = 3 - k - j; if (q >= 0 && q < n && q != k && q != j) x[q] = dm; }
            one<T> (x, n);
        }
    }
}

template <class T> static void all (uint64_t seed, int count)
{
    Gen<T> g (seed);
    const int emin = std::numeric_limits<T>::min_exponent - std::numeric_limits<T>::digits;      // smallest subnormal
    const int emax = std::numeric_limits<T>::max_exponent / 2 - 2;                                // squares do not overflow
    // zero vectors with every sign pattern
    for (int s = 0; s < 8; ++s)
    {
        Vec2<T> a ((s & 1) ? -(T) 0 : (T) 0, (s & 2) ? -(T) 0 : (T) 0); one<T> (a, 2);
        Vec3<T> b ((s & 1) ? -(T) 0 : (T) 0, (s & 2) ? -(T) 0 : (T) 0, (s & 4) ? -(T) 0 : (T) 0); one<T> (b, 3);
        Vec4<T> c ((s & 1) ? -(T) 0 : (T) 0, (s & 2) ? -(T) 0 : (T) 0, (s & 4) ? -(T) 0 : (T) 0, (T) 0); one<T> (c, 4);
    }
    // exponent sweep: every exponent for float; a seeded subset for double
    int span = emax - emin + 1;
    int stride = (sizeof (T) == 4) ? 1 : std::max (1, span / (40 * count));
    int phase = (int) (seed % (uint64_t) stride);
    for (int e = emin + phase; e <= emax; e += stride)
    {
        if (sizeof (T) == 4 && ((e - emin + (int) (seed % 16)) % 16) >= count && count < 16) continue;      // the 16 shards share the exponents between them
        patterns<T, Vec2<T>> (g, 2, e);
        patterns<T, Vec3<T>> (g, 3, e);
        patterns<T, Vec4<T>> (g, 4, e);
    }
    // the lengthTiny threshold: squares straddling 2*min
    int et = (std::numeric_limits<T>::min_exponent) / 2;
    for (int d = -3; d <= 3; ++d) { patterns<T, Vec2<T>> (g, 2, et + d); patterns<T, Vec3<T>> (g, 3, et + d); patterns<T, Vec4<T>> (g, 4, et + d); }
    // nearly unit vectors: length 1 + d for |d| from a few ulps up to 2^-8 (no form may treat "close to one" as "already normalised"
    // with a tolerance wider than the element type's own precision)
    for (int rep = 0; rep < 2 * count; ++rep)
        for (int k = 8; k < std::numeric_limits<T>::digits; k += (sizeof (T) == 4 ? 3 : 5))
        {
            long double c[4], sq = 0;
            int n = 2 + (int) g.rng.below (3);
            for (int i = 0; i < n; ++i) { c[i] = (long double) g.rng.range (-1000, 1000) + 0.5L; sq += c[i] * c[i]; }
            if (g.rng.below (3) == 0) { for (int i = 1; i < n; ++i) { sq -= c[i] * c[i]; c[i] = std::ldexp (c[i], -(int) g.rng.range (8, 30)); sq += c[i] * c[i]; } }    // (1, small, small)
            long double sc = (1.0L + (g.rng.below (2) ? 1 : -1) * std::ldexp (1.0L, -k)) / std::sqrt (sq);
            if (n == 2) { Vec2<T> v ((T) (c[0] * sc), (T) (c[1] * sc)); one<T> (v, 2); }
            else if (n == 3) { Vec3<T> v ((T) (c[0] * sc), (T) (c[1] * sc), (T) (c[2] * sc)); one<T> (v, 3); }
            else { Vec4<T> v ((T) (c[0] * sc), (T) (c[1] * sc), (T) (c[2] * sc), (T) (c[3] * sc)); one<T> (v, 4); }
        }
    // Vec3(Vec4[, INF_EXCEPTION]): w in {0, denormal, <1, >=1}, components up to the maximum
    const T big = std::numeric_limits<T>::max ();
    const T ws[] = {0, std::numeric_limits<T>::denorm_min (), std::numeric_limits<T>::min (), (T) 1e-10, (T) 0.25, (T) 0.5,
                    std::nextafter ((T) 1, (T) 0), 1, 2, (T) 1e10};
    const T cs[] = {0, 1, (T) 3.5, (T) 1e20, big / 16, big / 4, big / 2, big};
    for (T w : ws) for (T c : cs) for (int k = 0; k < 3; ++k)
    {
        Vec4<T> v ((T) 1, (T) -2, (T) 0.5, g.rng.below (2) ? w : -w);
        v[k] = g.rng.below (2) ? c : -c;
        v34<T> (v);
        // components straddling the guard max*|w| by one ulp
        if (w > 0 && w < 1) { T m = big * w; Vec4<T> b (v); b[k] = m; v34<T> (b); b[k] = std::nextafter (m, (T) 0); v34<T> (b); b[k] = std::nextafter (m, big); v34<T> (b); }
    }
}

int main (int argc, char** argv)
{
    vt_init ();
    uint64_t seed = argc > 1 ? strtoull (argv[1], 0, 10) : 1;
    int      n    = argc > 2 ? atoi (argv[2]) : 2;
    all<float> (seed, n);
    all<double> (seed + 77, n);
    return 0;
}
