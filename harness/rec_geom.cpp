// Recorder for C15: Line3, Plane3, Sphere3, triangle and vector-algebra primitives.
//   rec_geom <seed> <count>
#include "vrec.h"
#include <ImathLine.h>
#include <ImathLineAlgo.h>
#include <ImathPlane.h>
#include <ImathSphere.h>
#include <ImathVecAlgo.h>
#include <ImathBox.h>
#include <cmath>

template <class T> static const char* tg () { return vt_tag (T ()); }
template <class T> static Vec3<T> iv (Gen<T>& g, int lim = 9) { return Vec3<T> (g.smallInt (lim), g.smallInt (lim), g.smallInt (lim)); }
template <class T> static Vec3<T> nz (Gen<T>& g, int lim = 9) { Vec3<T> v; do v = iv (g, lim); while (v.x == 0 && v.y == 0 && v.z == 0); return v; }
template <class T> static Vec3<T> vmode (Gen<T>& g, int mode) { return Vec3<T> (g.pick (mode), g.pick (mode), g.pick (mode)); }
template <class T> static void putline (Rec& r, const char* a, const char* b, const Line3<T>& l) { r.raw (a, jv (l.pos)); r.raw (b, jv (l.dir)); }

template <class T> static void line_point (Gen<T>& g, int it)
{
    int mode = it % 3;
    Vec3<T> p0 = mode ? vmode (g, mode) : iv (g), u = mode ? vmode (g, mode) : nz (g);
    if (u.length2 () == 0) u.x = 1;
    Vec3<T> p1 = p0 + u;
    Line3<T> l (p0, p1);
    Vec3<T> q = mode ? vmode (g, mode) : iv (g, 20);
    if (it % 7 == 0) q = p0 + u * T (3);                       // a point on the line
    Rec r ("linept"); r.str ("t", tg<T> ()); r.raw ("p0", jv (p0)); r.raw ("p1", jv (p1)); putline (r, "pos", "dir", l);
    r.raw ("q", jv (q)); r.raw ("cp", jv (l.closestPointTo (q))); r.raw ("d", jw (l.distanceTo (q))); r.raw ("at2", jv (l (T (2)))); r.emit ();
}

template <class T> static void line_line (Gen<T>& g, int it)
{
    int fam = it % 6;      // 0 skew, 1 intersecting, 2 parallel, 3 nearly parallel, 4 coincident, 5 skew (dyadic)
    Vec3<T> a0 = iv (g), u = nz (g), b0 = iv (g), v = nz (g);
    if (fam == 5) { a0 = vmode (g, 1); b0 = vmode (g, 1); }
    if (fam == 1) { Vec3<T> x = iv (g); a0 = x - u * T (g.rng.range (-3, 3)); b0 = x - v * T (g.rng.range (-3, 3)); }
    if (fam == 2) { v = u * T (g.rng.below (2) ? 2 : -1); }
    if (fam == 3) { T k = (T) std::ldexp (1.0, (int) g.rng.range (6, sizeof (T) == 4 ? 14 : 34)); v = u * k + nz (g, 2); }
    if (fam == 4) { b0 = a0 + u * T (2); v = u * T (-3); }
    Line3<T> l1 (a0, a0 + u), l2 (b0, b0 + v);
    Vec3<T> p1 (7, 7, 7), p2 (7, 7, 7);
    bool ok = closestPoints (l1, l2, p1, p2);
    Rec r ("lines"); r.str ("t", tg<T> ()); r.num ("fam", fam);
    r.raw ("a0", jv (a0)); r.raw ("u", jv (u)); r.raw ("b0", jv (b0)); r.raw ("v", jv (v));
    putline (r, "pos1", "dir1", l1); putline (r, "pos2", "dir2", l2);
    r.raw ("cp1", jv (l1.closestPointTo (l2))); r.raw ("cp2", jv (l2.closestPointTo (l1)));
    r.raw ("dist", jw (l1.distanceTo (l2))); r.raw ("dist21", jw (l2.distanceTo (l1)));
    r.num ("ok", ok); r.raw ("p1", jv (p1)); r.raw ("p2", jv (p2)); r.emit ();
}

template <class T> static void plane (Gen<T>& g, int it)
{
    const char* t = tg<T> ();
    int mode = it % 2;
    Vec3<T> p1 = mode ? vmode (g, 1) : iv (g), p2 = mode ? vmode (g, 1) : iv (g), p3 = mode ? vmode (g, 1) : iv (g);
    if (((p2 - p1) % (p3 - p1)).length2 () == 0) { p2 = p1 + Vec3<T> (1, 0, 0); p3 = p1 + Vec3<T> (0, 1, 0); }
    Plane3<T> P (p1, p2, p3);
    { Rec r ("plane3"); r.str ("t", t); r.raw ("p1", jv (p1)); r.raw ("p2", jv (p2)); r.raw ("p3", jv (p3)); r.raw ("n", jv (P.normal)); r.raw ("dist", jw (P.distance));
      r.raw ("d1", jw (P.distanceTo (p1))); r.raw ("d2", jw (P.distanceTo (p2))); r.raw ("d3", jw (P.distanceTo (p3))); r.emit (); }
    Vec3<T> n = nz (g), pp = iv (g);
    { Plane3<T> Q (pp, n); Rec r ("planepn"); r.str ("t", t); r.raw ("p", jv (pp)); r.raw ("nin", jv (n)); r.raw ("n", jv (Q.normal)); r.raw ("dist", jw (Q.distance)); r.raw ("dp", jw (Q.distanceTo (pp))); r.emit (); }
    { T d = g.dyadic (); Plane3<T> Q (n, d); Plane3<T> Q2; Q2.set (n, d);
      Rec r ("planend"); r.str ("t", t); r.raw ("nin", jv (n)); r.raw ("din", jw (d)); r.raw ("n", jv (Q.normal)); r.raw ("dist", jw (Q.distance)); r.raw ("n2", jv (Q2.normal)); r.raw ("dist2", jw (Q2.distance)); r.emit (); }
    // operations on P
    Vec3<T> q = mode ? vmode (g, 1) : iv (g, 20), v = nz (g);
    if (it % 5 == 0) q = p1 + (p2 - p1) * T (2) + (p3 - p1) * T (-1);   // a point of the plane
    {
        Vec3<T> rq = P.reflectPoint (q), rv = P.reflectVector (v);
        Plane3<T> N = -P;
        Rec r ("planeops"); r.str ("t", t); r.raw ("n", jv (P.normal)); r.raw ("dist", jw (P.distance)); r.raw ("q", jv (q)); r.raw ("dq", jw (P.distanceTo (q)));
        r.raw ("rq", jv (rq)); r.raw ("rrq", jv (P.reflectPoint (rq))); r.raw ("drq", jw (P.distanceTo (rq)));
        r.raw ("v", jv (v)); r.raw ("rv", jv (rv)); r.raw ("rrv", jv (P.reflectVector (rv)));
        r.raw ("nn", jv (N.normal)); r.raw ("ndist", jw (N.distance)); r.raw ("ndq", jw (N.distanceTo (q))); r.emit ();
    }
    // line-plane intersection
    {
        int fam = it % 4;      // 0/1 generic, 2 parallel to the plane (axis-aligned plane), 3 line inside an axis-aligned plane
        bool almost = (it % 20 == 6);   // (fam 2) ... parallel but for a slope at the bottom of the number range: the parameter overflows
        Plane3<T> Q = P;
        Vec3<T> a0 = iv (g), u = nz (g);
        if (fam >= 2)
        {
            int ax = g.rng.below (3);
            Vec3<T> nn (0, 0, 0); nn[ax] = g.rng.below (2) ? T (1) : T (-2);
            Q = Plane3<T> (nn, T (g.rng.range (-3, 3)));
            u[ax] = 0; if (u.length2 () == 0) u[(ax + 1) % 3] = 1;
            if (fam == 3) a0[ax] = Q.distance * Q.normal[ax];
        }
        Line3<T> l (a0, a0 + u);
        if (almost && fam == 2)
            for (int i = 0; i < 3; ++i)
                if (Q.normal[i] != 0) { l.dir[i] = std::numeric_limits<T>::denorm_min () * T (1 + it % 5); if (l.pos[i] == Q.distance * Q.normal[i]) l.pos[i] += 1; }
        Vec3<T> pt (7, 7, 7); T tt = 7;
        bool ok = Q.intersect (l, pt), okT = Q.intersectT (l, tt);
        Rec r ("planeline"); r.str ("t", t); r.num ("fam", fam); r.raw ("n", jv (Q.normal)); r.raw ("dist", jw (Q.distance)); putline (r, "pos", "dir", l);
        r.num ("ok", ok); r.raw ("pt", jv (pt)); r.num ("okT", okT); r.raw ("tt", jw (tt)); r.raw ("lt", jv (l (tt))); r.emit ();
    }
    // plane * matrix
    {
        Matrix44<T> M;
        int fam = it % 5;      // 0 rigid-ish lattice (signed permutation + translation), 1 integer matrix, 2 S*R*T generic, 3 reflection, 4 projective
        if (fam == 0 || fam == 3)
        {
            static const int perm[6][3] = {{0, 1, 2}, {1, 2, 0}, {2, 0, 1}, {0, 2, 1}, {2, 1, 0}, {1, 0, 2}};
            int pi = g.rng.below (6);
            M = Matrix44<T> (0, 0, 0, 0, 0, 0, 0, 0, 0, 0, 0, 0, 0, 0, 0, 1);
            for (int i = 0; i < 3; ++i) M[i][perm[pi][i]] = g.rng.below (2) ? T (1) : T (-1);
            for (int j = 0; j < 3; ++j) M[3][j] = g.smallInt ();
        }
        else if (fam == 1 || fam == 4)
        {
            do { for (int i = 0; i < 3; ++i) for (int j = 0; j < 3; ++j) M[i][j] = g.smallInt (3); } while (M.determinant () == 0);
            for (int j = 0; j < 3; ++j) M[3][j] = g.smallInt ();
            if (fam == 4) for (int i = 0; i < 3; ++i) M[i][3] = T (g.rng.range (-1, 1)) / T (128);     // homogeneous weight stays within 1 +- 1/2
        }
        else
        {
            Matrix44<T> S, R, Tm;
            S.setScale (Vec3<T> (T (1 + g.rng.below (3)), T (0.5), T (2))); R.setEulerAngles (Vec3<T> (g.full (), g.full (), g.full ())); Tm.setTranslation (iv (g));
            M = S * R * Tm;
        }
        Plane3<T> PM = P * M;
        Vec3<T> i1 = p1 * M, i2 = p2 * M, i3 = p3 * M, qm = q * M;
        Rec r ("planemat"); r.str ("t", t); r.num ("fam", fam); r.raw ("n", jv (P.normal)); r.raw ("dist", jw (P.distance)); r.raw ("m", jv (M));
        r.raw ("p1", jv (p1)); r.raw ("p2", jv (p2)); r.raw ("p3", jv (p3));
        r.raw ("n2", jv (PM.normal)); r.raw ("dist2", jw (PM.distance)); r.raw ("i1", jv (i1)); r.raw ("i2", jv (i2)); r.raw ("i3", jv (i3));
        r.raw ("e1", jw (PM.distanceTo (i1))); r.raw ("e2", jw (PM.distanceTo (i2))); r.raw ("e3", jw (PM.distanceTo (i3)));
        r.raw ("q", jv (q)); r.raw ("dq", jw (P.distanceTo (q))); r.raw ("qm", jv (qm)); r.raw ("dqm", jw (PM.distanceTo (qm))); r.emit ();
    }
}

template <class T> static void sphere (Gen<T>& g, int it)
{
    const char* t = tg<T> ();
    int fam = it % 6;       // 0 generic, 1 origin inside, 2 origin on the sphere, 3 pointing away, 4 through the centre, 5 near tangent / miss
    Vec3<T> c = iv (g); T rad = T (1 + g.rng.below (6));
    Vec3<T> a0 = iv (g, 12), u = nz (g);
    if (fam == 1) a0 = c + Vec3<T> (T (0.25), T (-0.25), T (0.5)) * rad;
    if (fam == 2) { Vec3<T> o (0, 0, 0); o[g.rng.below (3)] = g.rng.below (2) ? rad : -rad; a0 = c + o; }
    if (fam == 3) { u = nz (g); a0 = c + u * (rad + 2); }                      // outside, direction away from the centre
    if (fam == 4) { u = nz (g); a0 = c - u * T (3); }
    if (fam == 5) { int ax = g.rng.below (3); Vec3<T> o (0, 0, 0); o[ax] = rad + T (g.rng.range (-1, 1)) * T (0.125); u[ax] = 0; if (u.length2 () == 0) u[(ax + 1) % 3] = 1; a0 = c + o - u * T (2); }
    if (it % 12 == 7 || it % 12 == 10)
    {   // the origin hundreds to thousands of radii away, aimed at the centre, half a radius off it, or one and a half radii off it
        Vec3<T> far_ = nz (g) * T (40 * (1 + g.rng.below (8))) * rad;
        Vec3<T> side (-far_.y, far_.x, 0); if (side.length2 () == 0) side = Vec3<T> (0, -far_.z, far_.y);
        side = side.normalized () * rad * T (g.rng.below (3)) * T (0.75);            // 0, 0.75 r, 1.5 r off the centre
        a0 = c + far_;
        u = (c + side) - a0;
    }
    Sphere3<T> S (c, rad);
    Line3<T> l (a0, a0 + u);
    T tt = 7; Vec3<T> pt (7, 7, 7);
    bool okT = S.intersectT (l, tt), ok = S.intersect (l, pt);
    Rec r ("sphere"); r.str ("t", t); r.num ("fam", fam); r.raw ("c", jv (c)); r.raw ("r", jw (rad)); putline (r, "pos", "dir", l);
    r.num ("okT", okT); r.raw ("tt", jw (tt)); r.raw ("lt", jv (l (tt))); r.num ("ok", ok); r.raw ("pt", jv (pt)); r.emit ();
    Vec3<T> mn = vmode (g, it % 3), ext (std::fabs (g.pick (it % 3)), std::fabs (g.pick (it % 3)), std::fabs (g.pick (it % 3)));
    if (it % 4 == 1) ext[g.rng.below (3)] = 0;                                     // a rectangle: flat on one axis
    if (it % 4 == 2) { int k = g.rng.below (3); ext[(k + 1) % 3] = 0; ext[(k + 2) % 3] = 0; }   // a segment: flat on two
    if (it % 16 == 3) ext = Vec3<T> (0, 0, 0);                                    // a single point
    Box<Vec3<T>> bx (mn, mn + ext);
    Sphere3<T> C; C.circumscribe (bx);
    Rec q ("circ"); q.str ("t", t); q.raw ("mn", jv (bx.min)); q.raw ("mx", jv (bx.max)); q.raw ("c", jv (C.center)); q.raw ("r", jw (C.radius)); q.emit ();
}

template <class T> static void triangle (Gen<T>& g, int it)
{
    const char* t = tg<T> ();
    int fam = it % 8;   // 0-2 interior, 3 on an edge, 4 at a vertex, 5 outside, 6 degenerate triangle, 7 line parallel to the plane
    Vec3<T> v0 = iv (g), v1 = iv (g), v2 = iv (g);
    if (fam != 6 && ((v1 - v0) % (v2 - v0)).length2 () == 0) { v1 = v0 + Vec3<T> (4, 0, 0); v2 = v0 + Vec3<T> (0, 4, 0); }
    if (fam == 6) v2 = v0 + (v1 - v0) * T (2);
    int b0, b1, b2;     // barycentric coordinates of the aimed point, in eighths
    if (fam <= 2) { b0 = 1 + g.rng.below (6); b1 = 1 + g.rng.below (7 - b0); b2 = 8 - b0 - b1; }
    else if (fam == 3) { b0 = 0; b1 = 1 + g.rng.below (7); b2 = 8 - b1; int k = g.rng.below (3); if (k == 1) { int x = b0; b0 = b1; b1 = x; } if (k == 2) { int x = b0; b0 = b2; b2 = x; } }
    else if (fam == 4) { b0 = 8; b1 = 0; b2 = 0; int k = g.rng.below (3); if (k == 1) { b0 = 0; b1 = 8; } if (k == 2) { b0 = 0; b2 = 8; } }
    else { b0 = -(1 + g.rng.below (8)); b1 = 1 + g.rng.below (8); b2 = 8 - b0 - b1; int k = g.rng.below (3); if (k == 1) { int x = b0; b0 = b1; b1 = x; } if (k == 2) { int x = b0; b0 = b2; b2 = x; } }
    Vec3<T> aim = (v0 * T (b0) + v1 * T (b1) + v2 * T (b2)) / T (8);
    Vec3<T> u = nz (g, 4);
    if (fam == 7) { u = (v1 - v0) + (v2 - v0) * T (g.rng.range (-2, 2)); if (u.length2 () == 0) u = v1 - v0; if (it % 16 >= 8) aim += (v1 - v0) % (v2 - v0); }
    int back = g.rng.range (1, 3), fwd = g.rng.range (1, 3);
    if (it % 5 == 0) back = -back - fwd;            // the triangle lies behind the line's origin: still an intersection of the *line*
    Vec3<T> p0 = aim - u * T (back), p1 = p0 + u * T (fwd + (back < 0 ? 1 : back));
    if (p1 == p0) p1 = p0 + u;
    Line3<T> l (p0, p1);
    Vec3<T> pt (7, 7, 7), bary (7, 7, 7); bool front = false;
    bool ok = intersect (l, v0, v1, v2, pt, bary, front);
    Rec r ("tri"); r.str ("t", t); r.num ("fam", fam); r.raw ("p0", jv (p0)); r.raw ("p1", jv (p1)); putline (r, "pos", "dir", l);
    r.raw ("v0", jv (v0)); r.raw ("v1", jv (v1)); r.raw ("v2", jv (v2)); r.num ("ok", ok); r.raw ("pt", jv (pt)); r.raw ("bary", jv (bary)); r.num ("front", front); r.emit ();
    // closest vertex to a line and to a point
    Vec3<T> a0 = iv (g, 12), w = nz (g), p = iv (g, 12);
    Line3<T> m (a0, a0 + w);
    Rec c ("cvert"); c.str ("t", t); c.raw ("v0", jv (v0)); c.raw ("v1", jv (v1)); c.raw ("v2", jv (v2)); c.raw ("a0", jv (a0)); c.raw ("w", jv (w)); putline (c, "pos", "dir", m);
    c.raw ("cl", jv (closestVertex (v0, v1, v2, m))); c.raw ("p", jv (p)); c.raw ("cp", jv (closestVertex (v0, v1, v2, p)));
    Vec2<T> s0 (v0.x, v0.y), s1 (v1.x, v1.y), s2 (v2.x, v2.y), sp (p.x, p.y);
    c.raw ("cp2", jv (closestVertex (s0, s1, s2, sp))); c.emit ();
    // rotate a point around a line
    T ang = (it % 4 == 0) ? T (g.rng.range (-4, 4)) * T (M_PI / 4) : g.full () * 2;
    Vec3<T> rp = iv (g, 12);
    if ((rp - m.closestPointTo (rp)).length2 () == 0) rp += Vec3<T> (w.y, -w.x, 0) + Vec3<T> (0, w.z, -w.y);
    // every sixth point lies ON the axis (the origin of an axis-aligned line, or that origin moved along it): it stays where it is
    if (it % 6 == 5) { Vec3<T> ax (0, 0, 0); ax[it % 3] = (T) (it % 2 ? 2 : -3); m.pos = iv (g); m.dir = ax.normalized (); rp = m.pos + m.dir * T ((it / 6) % 5); }
    Rec q ("rotpt"); q.str ("t", t); q.raw ("p", jv (rp)); putline (q, "pos", "dir", m); q.raw ("ang", jw (ang)); q.raw ("cos", jw ((T) std::cos (ang))); q.raw ("sin", jw ((T) std::sin (ang)));
    q.raw ("q", jv (m.closestPointTo (rp))); q.raw ("r", jv (rotatePoint (rp, m, ang))); q.emit ();
}

template <class V> static void valgo (Gen<typename V::BaseType>& g, int it)
{
    typedef typename V::BaseType T;
    int mode = it % 3;
    V s, w;
    for (unsigned i = 0; i < V::dimensions (); ++i) { s[i] = g.pick (mode); w[i] = g.pick (mode); }
    if (s.length2 () == 0) s[0] = 1;
    if (w.length2 () == 0) w[0] = 1;
    if (it % 7 == 0) w = s * T (2);
    // very short (but normal) vectors, whose squared length underflows to zero: the projection is still defined
    const T shrink = (T) std::ldexp (1.0, sizeof (T) == 4 ? -80 : -540);
    if (it % 5 == 1) s *= shrink;
    if (it % 5 == 2) w *= shrink;
    if (it % 10 == 3) { s *= shrink; w *= shrink; }
    Rec r ("valgo"); r.str ("t", tg<T> ()); r.num ("n", V::dimensions ()); r.raw ("s", jv (s)); r.raw ("w", jv (w));
    r.raw ("proj", jv (project (s, w))); r.raw ("orth", jv (orthogonal (s, w))); r.raw ("refl", jv (reflect (s, w))); r.emit ();
}

template <class T> static void all (Gen<T>& g, int k)
{
    line_point<T> (g, k); line_line<T> (g, k); plane<T> (g, k); sphere<T> (g, k); triangle<T> (g, k);
    valgo<Vec2<T>> (g, k); valgo<Vec3<T>> (g, k); valgo<Vec4<T>> (g, k);
}

int main (int argc, char** argv)
{
    vt_init ();
    uint64_t seed = argc > 1 ? strtoull (argv[1], 0, 10) : 1;
    int      n    = argc > 2 ? atoi (argv[2]) : 10;
    Gen<float> gf (seed); Gen<double> gd (seed + 13);
    for (int it = 0; it < n; ++it)
    {
        int k = it + (int) (seed % 16) * n;
        all<float> (gf, k); all<double> (gd, k);
    }
    return 0;
}
