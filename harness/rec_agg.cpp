// Replayer / recorder for C04: aggregates are component-wise.
//   rec_agg replay <programs.txt>   : replays TLC-generated operation sequences on every (type family, element type)
//   rec_agg static                  : equality family, layout, stream output, conversions
// A program is a block of lines "prog <id>" followed by steps "<op> <spelling> <operand-index>".
#include "vtrace.h"
#include <ImathVec.h>
#include <ImathColor.h>
#include <ImathShear.h>
#include <ImathQuat.h>
#include <ImathMatrix.h>
#include <half.h>
#include <cstddef>
#include <iomanip>
#include <fstream>
#include <sstream>
#include <string>
#include <vector>
#include <limits>
#include <cmath>

using namespace IMATH_INTERNAL_NAMESPACE;
static FILE* o = stdout;

// ---- element types: tag, logging, value pools --------------------------------------------------------
template <class T> struct E;
#define INT_E(TY, TAG)                                                                                         \
    template <> struct E<TY>                                                                                   \
    {                                                                                                          \
        static const char* tag () { return TAG; }                                                              \
        static void        log (std::string& s, TY v) { s += std::to_string ((long long) v); }                 \
        static TY          pool (int k, int slot) { static const int p[] = {1, 2, 3, 5, 7, 4, 6, 9}; return (TY) (p[(k * 3 + slot * 5 + k * slot) % 8] * ((std::numeric_limits<TY>::is_signed && ((k + slot) % 3 == 0)) ? -1 : 1)); } \
        static TY          scalar (int k) { static const int p[] = {2, 3, 5, 7}; return (TY) p[k % 4]; }     \
    };
INT_E (short, "i16") INT_E (int, "i32") INT_E (int64_t, "i64") INT_E (unsigned char, "u8")
template <> struct E<float>
{
    static const char* tag () { return "f"; }
    static void log (std::string& s, float v) { uint32_t u = vt_fbits (v); s += "[" + std::to_string (u >> 16) + "," + std::to_string (u & 0xffff) + "]"; }
    static float special (int k)
    {
        static const uint32_t sp[] = {0x80000000u, 0x7f800000u, 0xff800000u, 0x7fc00000u, 0x7f7fffffu, 0x00000001u, 0x00800000u, 0x3eaaaaabu, 0x3dcccccdu, 0xc0490fdbu};
        return vt_bitsf (sp[k % 10]);
    }
    static float pool (int k, int slot)
    {
        if (k >= 8) return special (k + slot * 3);
        static const float p[] = {1, 2, 3, 0.5f, 7, 1.5f, 6, 0.25f, 10, 0.1f, 3.3f};
        float v = p[(k * 3 + slot * 5 + k * slot) % 11];
        return ((k + slot) % 3 == 0) ? -v : v;
    }
    static float scalar (int k) { static const float p[] = {2, 3, 0.5f, 7, 0.1f, 1e30f}; return p[k % 6]; }
};
template <> struct E<double>
{
    static const char* tag () { return "d"; }
    static void log (std::string& s, double v)
    {
        uint64_t u = vt_dbits (v);
        s += "[" + std::to_string ((u >> 48) & 0xffff) + "," + std::to_string ((u >> 32) & 0xffff) + "," + std::to_string ((u >> 16) & 0xffff) + "," + std::to_string (u & 0xffff) + "]";
    }
    static double pool (int k, int slot)
    {
        if (k >= 8)
        {
            static const uint64_t sp[] = {0x8000000000000000ull, 0x7ff0000000000000ull, 0xfff0000000000000ull, 0x7ff8000000000000ull, 0x7fefffffffffffffull, 1ull, 0x0010000000000000ull, 0x3fd5555555555555ull};
            return vt_bitsd (sp[(k + slot * 3) % 8]);
        }
        static const double p[] = {1, 2, 3, 0.5, 7, 1.5, 6, 0.25, 10, 0.1, 3.3};
        double v = p[(k * 3 + slot * 5 + k * slot) % 11];
        return ((k + slot) % 3 == 0) ? -v : v;
    }
    static double scalar (int k) { static const double p[] = {2, 3, 0.5, 7, 0.1, 1e300}; return p[k % 6]; }
};
template <> struct E<half>
{
    static const char* tag () { return "h"; }
    static void log (std::string& s, half v) { s += "[" + std::to_string (v.bits ()) + "]"; }
    static half pool (int k, int slot)
    {
        if (k >= 8) { static const unsigned sp[] = {0x8000, 0x7c00, 0xfc00, 0x7e00, 0x7bff, 0x0001, 0x0400, 0x3555}; half h; h.setBits ((unsigned short) sp[(k + slot * 3) % 8]); return h; }
        static const float p[] = {1, 2, 3, 0.5f, 7, 1.5f, 6, 0.25f, 10, 0.1f, 3.3f};
        float v = p[(k * 3 + slot * 5 + k * slot) % 11];
        return half (((k + slot) % 3 == 0) ? -v : v);
    }
    static half scalar (int k) { static const float p[] = {2, 3, 0.5f, 7, 0.1f, 1000.f}; return half (p[k % 6]); }
};

template <class T> static std::string jl (const T* v, int n)
{
    std::string s = "[";
    for (int i = 0; i < n; ++i) { if (i) s += ","; E<T>::log (s, v[i]); }
    return s + "]";
}

// ---- type families -----------------------------------------------------------------------------------------
// every adapter: A, N, name(), make(v), idx(a,out), named(a,out), getv(a,out), caps
enum { CAP_VMUL = 1, CAP_SLEFT = 2, CAP_NEGATE = 4, CAP_VDIV = 8 };

template <class T> struct FVec2
{
    typedef Vec2<T> A; enum { N = 2, CAPS = CAP_VMUL | CAP_SLEFT | CAP_NEGATE | CAP_VDIV };
    static const char* name () { return "Vec2"; }
    static A make (const T* v) { return A (v[0], v[1]); }
    static void idx (const A& a, T* x) { for (int i = 0; i < N; ++i) x[i] = a[i]; }
    static void named (const A& a, T* x) { x[0] = a.x; x[1] = a.y; }
    static void getv (const A& a, T* x) { a.getValue (x[0], x[1]); }
    static const T* ptr (const A& a) { return a.getValue (); }
};
template <class T> struct FVec3
{
    typedef Vec3<T> A; enum { N = 3, CAPS = CAP_VMUL | CAP_SLEFT | CAP_NEGATE | CAP_VDIV };
    static const char* name () { return "Vec3"; }
    static A make (const T* v) { return A (v[0], v[1], v[2]); }
    static void idx (const A& a, T* x) { for (int i = 0; i < N; ++i) x[i] = a[i]; }
    static void named (const A& a, T* x) { x[0] = a.x; x[1] = a.y; x[2] = a.z; }
    static void getv (const A& a, T* x) { a.getValue (x[0], x[1], x[2]); }
    static const T* ptr (const A& a) { return a.getValue (); }
};
template <class T> struct FVec4
{
    typedef Vec4<T> A; enum { N = 4, CAPS = CAP_VMUL | CAP_SLEFT | CAP_NEGATE | CAP_VDIV };
    static const char* name () { return "Vec4"; }
    static A make (const T* v) { return A (v[0], v[1], v[2], v[3]); }
    static void idx (const A& a, T* x) { for (int i = 0; i < N; ++i) x[i] = a[i]; }
    static void named (const A& a, T* x) { x[0] = a.x; x[1] = a.y; x[2] = a.z; x[3] = a.w; }
    static void getv (const A& a, T* x) { a.getValue (x[0], x[1], x[2], x[3]); }
    static const T* ptr (const A& a) { return a.getValue (); }
};
template <class T> struct FColor3
{
    typedef Color3<T> A; enum { N = 3, CAPS = CAP_VMUL | CAP_SLEFT | CAP_NEGATE | CAP_VDIV };
    static const char* name () { return "Color3"; }
    static A make (const T* v) { return A (v[0], v[1], v[2]); }
    static void idx (const A& a, T* x) { for (int i = 0; i < N; ++i) x[i] = a[i]; }
    static void named (const A& a, T* x) { x[0] = a.x; x[1] = a.y; x[2] = a.z; }
    static void getv (const A& a, T* x) { a.getValue (x[0], x[1], x[2]); }
    static const T* ptr (const A& a) { return a.getValue (); }
};
template <class T> struct FColor4
{
    typedef Color4<T> A; enum { N = 4, CAPS = CAP_VMUL | CAP_SLEFT | CAP_NEGATE | CAP_VDIV };
    static const char* name () { return "Color4"; }
    static A make (const T* v) { return A (v[0], v[1], v[2], v[3]); }
    static void idx (const A& a, T* x) { for (int i = 0; i < N; ++i) x[i] = a[i]; }
    static void named (const A& a, T* x) { x[0] = a.r; x[1] = a.g; x[2] = a.b; x[3] = a.a; }
    static void getv (const A& a, T* x) { a.getValue (x[0], x[1], x[2], x[3]); }
    static const T* ptr (const A& a) { return a.getValue (); }
};
template <class T> struct FShear6
{
    typedef Shear6<T> A; enum { N = 6, CAPS = CAP_VMUL | CAP_SLEFT | CAP_NEGATE | CAP_VDIV };
    static const char* name () { return "Shear6"; }
    static A make (const T* v) { return A (v[0], v[1], v[2], v[3], v[4], v[5]); }
    static void idx (const A& a, T* x) { for (int i = 0; i < N; ++i) x[i] = a[i]; }
    static void named (const A& a, T* x) { x[0] = a.xy; x[1] = a.xz; x[2] = a.yz; x[3] = a.yx; x[4] = a.zx; x[5] = a.zy; }
    static void getv (const A& a, T* x) { a.getValue (x[0], x[1], x[2], x[3], x[4], x[5]); }
    static const T* ptr (const A& a) { return &a.xy; }
};
template <class T> struct FQuat
{
    typedef Quat<T> A; enum { N = 4, CAPS = CAP_SLEFT };
    static const char* name () { return "Quat"; }
    static A make (const T* v) { return A (v[0], v[1], v[2], v[3]); }
    static void idx (const A& a, T* x) { for (int i = 0; i < N; ++i) x[i] = a[i]; }
    static void named (const A& a, T* x) { x[0] = a.r; x[1] = a.v.x; x[2] = a.v.y; x[3] = a.v.z; }
    static void getv (const A& a, T* x) { named (a, x); }
    static const T* ptr (const A& a) { return &a.r; }
};
template <class T> struct FM22
{
    typedef Matrix22<T> A; enum { N = 4, CAPS = CAP_SLEFT | CAP_NEGATE };
    static const char* name () { return "Matrix22"; }
    static A make (const T* v) { return A (v[0], v[1], v[2], v[3]); }
    static void idx (const A& a, T* x) { for (int i = 0; i < 2; ++i) for (int j = 0; j < 2; ++j) x[i * 2 + j] = a[i][j]; }
    static void named (const A& a, T* x) { for (int i = 0; i < 2; ++i) for (int j = 0; j < 2; ++j) x[i * 2 + j] = a.x[i][j]; }
    static void getv (const A& a, T* x) { Matrix22<T> c; a.getValue (c); idx (c, x); }
    static const T* ptr (const A& a) { return a.getValue (); }
};
template <class T> struct FM33
{
    typedef Matrix33<T> A; enum { N = 9, CAPS = CAP_SLEFT | CAP_NEGATE };
    static const char* name () { return "Matrix33"; }
    static A make (const T* v) { return A (v[0], v[1], v[2], v[3], v[4], v[5], v[6], v[7], v[8]); }
    static void idx (const A& a, T* x) { for (int i = 0; i < 3; ++i) for (int j = 0; j < 3; ++j) x[i * 3 + j] = a[i][j]; }
    static void named (const A& a, T* x) { for (int i = 0; i < 3; ++i) for (int j = 0; j < 3; ++j) x[i * 3 + j] = a.x[i][j]; }
    static void getv (const A& a, T* x) { Matrix33<T> c; a.getValue (c); idx (c, x); }
    static const T* ptr (const A& a) { return a.getValue (); }
};
template <class T> struct FM44
{
    typedef Matrix44<T> A; enum { N = 16, CAPS = CAP_SLEFT | CAP_NEGATE };
    static const char* name () { return "Matrix44"; }
    static A make (const T* v) { return A (v[0], v[1], v[2], v[3], v[4], v[5], v[6], v[7], v[8], v[9], v[10], v[11], v[12], v[13], v[14], v[15]); }
    static void idx (const A& a, T* x) { for (int i = 0; i < 4; ++i) for (int j = 0; j < 4; ++j) x[i * 4 + j] = a[i][j]; }
    static void named (const A& a, T* x) { for (int i = 0; i < 4; ++i) for (int j = 0; j < 4; ++j) x[i * 4 + j] = a.x[i][j]; }
    static void getv (const A& a, T* x) { Matrix44<T> c; a.getValue (c); idx (c, x); }
    static const T* ptr (const A& a) { return a.getValue (); }
};

// capability-dispatched operations (overloads chosen at compile time)
template <class A> static void vmul (A& acc, const A& b, int sp, std::true_type) { if (sp == 0) acc = acc * b; else acc *= b; }
template <class A> static void vmul (A&, const A&, int, std::false_type) {}
template <class A> static void vdiv (A& acc, const A& b, int sp, std::true_type) { if (sp == 0) acc = acc / b; else acc /= b; }
template <class A> static void vdiv (A&, const A&, int, std::false_type) {}
template <class A, class T> static void sleft (A& acc, T s, std::true_type) { acc = s * acc; }
template <class A, class T> static void sleft (A& acc, T s, std::false_type) { acc = acc * s; }
template <class A> static void negate_ (A& acc, std::true_type) { acc.negate (); }
template <class A> static void negate_ (A& acc, std::false_type) { acc = -acc; }

template <class F, class T> static void observe (const char* ev, int prog, int step, const char* op, int sp, const std::string& operand, const typename F::A& acc)
{
    T a[16], b[16], c[16], d[16];
    F::idx (acc, a); F::named (acc, b); F::getv (acc, c);
    memcpy (d, &acc, sizeof (T) * F::N);
    const T* p = F::ptr (acc);
    T e[16];
    for (int i = 0; i < F::N; ++i) e[i] = p[i];
    std::string s = std::string ("{\"e\":\"") + ev + "\",\"fam\":\"" + F::name () + "\",\"T\":\"" + E<T>::tag () + "\",\"n\":" + std::to_string ((int) F::N) + ",\"prog\":" + std::to_string (prog) +
                    ",\"step\":" + std::to_string (step) + ",\"op\":\"" + op + "\",\"sp\":" + std::to_string (sp) + ",\"operand\":" + operand + ",\"acc\":" + jl (a, F::N) + ",\"named\":" + jl (b, F::N) +
                    ",\"getv\":" + jl (c, F::N) + ",\"raw\":" + jl (d, F::N) + ",\"ptr\":" + jl (e, F::N) + ",\"size\":" + std::to_string (sizeof (typename F::A)) + "}\n";
    fputs (s.c_str (), o);
}

struct Step { std::string op; int sp; int k; };

template <class F, class T> static void run_program (int prog, const std::vector<Step>& steps, bool specials)
{
    typedef typename F::A A;
    T v[16];
    for (int i = 0; i < F::N; ++i) v[i] = E<T>::pool (0, i);
    A acc = F::make (v);
    int stepno = 0;
    for (const Step& st : steps)
    {
        int k = st.k;
        if (!specials && k >= 8) k %= 8;
        for (int i = 0; i < F::N; ++i) v[i] = E<T>::pool (k, i);
        A b = F::make (v);
        T s = E<T>::scalar (st.k);
        std::string operand = jl (v, F::N);
        std::string sc = "[" + jl (&s, 1).substr (1);
        bool done = true;
        if (st.op == "set") acc = b;
        else if (st.op == "add") { if (st.sp == 0) acc = acc + b; else acc += b; }
        else if (st.op == "sub") { if (st.sp == 0) acc = acc - b; else acc -= b; }
        else if (st.op == "mul") { if (!(F::CAPS & CAP_VMUL)) done = false; vmul (acc, b, st.sp, std::integral_constant<bool, (F::CAPS & CAP_VMUL) != 0> ()); }
        else if (st.op == "div") { if (!(F::CAPS & CAP_VDIV)) done = false; vdiv (acc, b, st.sp, std::integral_constant<bool, (F::CAPS & CAP_VDIV) != 0> ()); }
        else if (st.op == "smul")
        {
            operand = sc;
            if (st.sp == 0) acc = acc * s; else if (st.sp == 1) acc *= s; else sleft (acc, s, std::integral_constant<bool, (F::CAPS & CAP_SLEFT) != 0> ());
        }
        else if (st.op == "sdiv") { operand = sc; if (st.sp == 0) acc = acc / s; else acc /= s; }
        else if (st.op == "neg") { operand = "[]"; if (st.sp == 0) acc = -acc; else negate_ (acc, std::integral_constant<bool, (F::CAPS & CAP_NEGATE) != 0> ()); }
        else done = false;
        if (!done) continue;
        observe<F, T> ("agg", prog, ++stepno, st.op.c_str (), st.sp, operand, acc);
    }
}

template <class T> static void run_all_families (int prog, const std::vector<Step>& steps, bool fl)
{
    run_program<FVec2<T>, T> (prog, steps, fl); run_program<FVec3<T>, T> (prog, steps, fl); run_program<FVec4<T>, T> (prog, steps, fl);
}
template <class T> static void run_float_families (int prog, const std::vector<Step>& steps)
{
    run_all_families<T> (prog, steps, true);
    run_program<FColor3<T>, T> (prog, steps, true); run_program<FColor4<T>, T> (prog, steps, true);
    run_program<FShear6<T>, T> (prog, steps, true); run_program<FQuat<T>, T> (prog, steps, true);
    run_program<FM22<T>, T> (prog, steps, true); run_program<FM33<T>, T> (prog, steps, true); run_program<FM44<T>, T> (prog, steps, true);
}

static int replay (const char* path)
{
    std::ifstream in (path);
    std::string   line;
    int           prog = -1;
    std::vector<Step> steps;
    auto flush = [&] () {
        if (prog < 0) return;
        run_all_families<short> (prog, steps, false); run_all_families<int> (prog, steps, false); run_all_families<int64_t> (prog, steps, false);
        run_all_families<half> (prog, steps, true);
        run_program<FColor3<half>, half> (prog, steps, true); run_program<FColor4<half>, half> (prog, steps, true);
        run_program<FColor3<unsigned char>, unsigned char> (prog, steps, false); run_program<FColor4<unsigned char>, unsigned char> (prog, steps, false);
        run_float_families<float> (prog, steps); run_float_families<double> (prog, steps);
        steps.clear ();
    };
    while (std::getline (in, line))
    {
        std::istringstream ss (line);
        std::string op; ss >> op;
        if (op == "prog") { flush (); ss >> prog; }
        else if (!op.empty ()) { Step s; s.op = op; ss >> s.sp >> s.k; steps.push_back (s); }
    }
    flush ();
    return 0;
}

// ---- static part: equality, layout, text, conversion ------------------------------------------------------------
template <class F, class T> static void statics ()
{
    typedef typename F::A A;
    const int N = F::N;
    T v[16], w[16];
    for (int i = 0; i < N; ++i) v[i] = E<T>::pool (1, i);
    A a = F::make (v);
    // layout
    {
        std::string s = std::string ("{\"e\":\"agglayout\",\"fam\":\"") + F::name () + "\",\"T\":\"" + E<T>::tag () + "\",\"n\":" + std::to_string (N) + ",\"sizeof\":" + std::to_string (sizeof (A)) +
                        ",\"elem\":" + std::to_string (sizeof (T)) + ",\"offsets\":[";
        const T* base = F::ptr (a);
        for (int i = 0; i < N; ++i) { s += (i ? "," : "") + std::to_string ((long) ((const char*) (base + i) - (const char*) &a)); }
        fputs ((s + "]}\n").c_str (), o);
    }
    // equality: identical, and differing in exactly one slot (each slot)
    for (int slot = -1; slot < N; ++slot)
    {
        for (int i = 0; i < N; ++i) w[i] = v[i];
        if (slot >= 0) w[slot] = E<T>::pool (2, slot + 1) == v[slot] ? E<T>::pool (3, slot + 2) : E<T>::pool (2, slot + 1);
        A b = F::make (w);
        std::string s = std::string ("{\"e\":\"aggeq\",\"fam\":\"") + F::name () + "\",\"T\":\"" + E<T>::tag () + "\",\"n\":" + std::to_string (N) + ",\"a\":" + jl (v, N) + ",\"b\":" + jl (w, N) +
                        ",\"eq\":" + std::to_string ((int) (a == b)) + ",\"ne\":" + std::to_string ((int) (a != b)) + "}\n";
        fputs (s.c_str (), o);
    }
}
template <class F, class T> static void tolerant ()
{
    // equalWithAbsError / equalWithRelError depend on every component
    typedef typename F::A A;
    const int N = F::N;
    T v[16], w[16];
    for (int i = 0; i < N; ++i) v[i] = (T) (8 + i);
    A a = F::make (v);
    const T tol = (T) 2;
    for (int slot = -1; slot < N; ++slot)
        for (int big = 0; big < 2; ++big)
        {
            for (int i = 0; i < N; ++i) w[i] = v[i];
            if (slot >= 0) w[slot] = (T) (v[slot] + (big ? 5 : 1));
            A b = F::make (w);
            T relt = (T) 0.25;
            std::string s = std::string ("{\"e\":\"aggtol\",\"fam\":\"") + F::name () + "\",\"T\":\"" + E<T>::tag () + "\",\"n\":" + std::to_string (N) + ",\"a\":" + jl (v, N) + ",\"b\":" + jl (w, N) +
                            ",\"tol\":" + jl (&tol, 1) + ",\"abs\":" + std::to_string ((int) a.equalWithAbsError (b, tol)) + ",\"reltol\":" + jl (&relt, 1) + ",\"rel\":" +
                            std::to_string ((int) a.equalWithRelError (b, relt)) + "}\n";
            fputs (s.c_str (), o);
        }
}
template <class F, class T> static void text (int rows)
{
    typedef typename F::A A;
    const int N = F::N;
    T v[16];
    // k < 3: default stream state, small values; k >= 3: std::fixed with wide values (fields wider than any setw)
    for (int k = 0; k < 6; ++k)
    {
        for (int i = 0; i < N; ++i) v[i] = E<T>::pool ((k % 3) + 1, i);
        bool wide = k >= 3 && !std::numeric_limits<T>::is_integer && sizeof (T) >= 4;
        if (k >= 3 && !wide) continue;
        if (wide) for (int i = 0; i < N; ++i) v[i] = (T) (v[i] * (T) (i % 2 ? 12345 : -4321));
        A a = F::make (v);
        std::ostringstream ss;
        if (wide) ss << std::fixed;
        ss << a;
        std::string txt = ss.str ();
        while (!txt.empty () && (txt.back () == '\n' || txt.back () == ' ')) txt.pop_back ();      // matrices end with a newline after ')'
        // pure lexing: strip one leading '(' and one trailing ')', split on whitespace
        std::string body = txt;
        int opens = 0, closes = 0;
        for (char c : txt) { if (c == '(') ++opens; if (c == ')') ++closes; }
        if (!body.empty () && body.front () == '(') body.erase (0, 1);
        if (!body.empty () && body.back () == ')') body.pop_back ();
        std::vector<std::string> toks; { std::istringstream ts (body); std::string t; while (ts >> t) toks.push_back (t); }
        int lines = 1; for (char c : txt) if (c == '\n') ++lines;
        std::string s = std::string ("{\"e\":\"aggtext\",\"fam\":\"") + F::name () + "\",\"T\":\"" + E<T>::tag () + "\",\"n\":" + std::to_string (N) + ",\"rows\":" + std::to_string (rows) +
                        ",\"opens\":" + std::to_string (opens) + ",\"closes\":" + std::to_string (closes) + ",\"lines\":" + std::to_string (lines) + ",\"first\":\"" +
                        (txt.empty () ? std::string ("") : std::string (1, txt.front ())) + "\",\"last\":\"" + (txt.empty () ? std::string ("") : std::string (1, txt.back ())) + "\",\"tokens\":[";
        for (size_t i = 0; i < toks.size (); ++i) s += std::string (i ? "," : "") + "\"" + toks[i] + "\"";
        s += "],\"tokvals\":[";
        for (size_t i = 0; i < toks.size (); ++i) { std::string w; E<double>::log (w, strtod (toks[i].c_str (), 0)); s += (i ? "," : "") + w; }
        s += "],\"compvals\":[";
        T c[16]; F::idx (a, c);
        for (int i = 0; i < N; ++i) { std::string w; E<double>::log (w, (double) (float) c[i] == (double) c[i] ? (double) c[i] : (double) c[i]); s += (i ? "," : "") + w; }
        s += "],\"comps\":[";
        for (int i = 0; i < N; ++i) { std::ostringstream cs; if (wide) cs << std::fixed; cs << c[i]; s += std::string (i ? "," : "") + "\"" + cs.str () + "\""; }
        bool single = true;
        if (rows == 1)
        {
            std::string expect = "(";
            for (int i = 0; i < N; ++i) { std::ostringstream cs; if (wide) cs << std::fixed; cs << c[i]; expect += (i ? " " : "") + cs.str (); }
            expect += ")";
            single = false; s += "],\"text\":\"" + txt + "\",\"joined\":\"" + expect + "\"}\n";
        }
        if (single) s += "]}\n";
        fputs (s.c_str (), o);
    }
}
template <class S, class T> static void conv ()
{
    // converting constructors: component-wise cast, order preserved
    S v[4]; for (int i = 0; i < 4; ++i) v[i] = (S) (3 + 2 * i);
    Vec2<S> a2 (v[0], v[1]); Vec3<S> a3 (v[0], v[1], v[2]); Vec4<S> a4 (v[0], v[1], v[2], v[3]);
    Vec2<T> b2 (a2); Vec3<T> b3 (a3); Vec4<T> b4 (a4);
    T w[4];
    w[0] = b2.x; w[1] = b2.y;
    fputs ((std::string ("{\"e\":\"aggconv\",\"fam\":\"Vec2\",\"from\":\"") + E<S>::tag () + "\",\"T\":\"" + E<T>::tag () + "\",\"a\":" + jl (v, 2) + ",\"out\":" + jl (w, 2) + "}\n").c_str (), o);
    w[0] = b3.x; w[1] = b3.y; w[2] = b3.z;
    fputs ((std::string ("{\"e\":\"aggconv\",\"fam\":\"Vec3\",\"from\":\"") + E<S>::tag () + "\",\"T\":\"" + E<T>::tag () + "\",\"a\":" + jl (v, 3) + ",\"out\":" + jl (w, 3) + "}\n").c_str (), o);
    w[0] = b4.x; w[1] = b4.y; w[2] = b4.z; w[3] = b4.w;
    fputs ((std::string ("{\"e\":\"aggconv\",\"fam\":\"Vec4\",\"from\":\"") + E<S>::tag () + "\",\"T\":\"" + E<T>::tag () + "\",\"a\":" + jl (v, 4) + ",\"out\":" + jl (w, 4) + "}\n").c_str (), o);
}

template <class T> static void statics_vec ()
{
    statics<FVec2<T>, T> (); statics<FVec3<T>, T> (); statics<FVec4<T>, T> ();
    text<FVec2<T>, T> (1); text<FVec3<T>, T> (1); text<FVec4<T>, T> (1);
}
template <class T> static void statics_float ()
{
    statics_vec<T> ();
    statics<FColor3<T>, T> (); statics<FColor4<T>, T> (); statics<FShear6<T>, T> (); statics<FQuat<T>, T> ();
    statics<FM22<T>, T> (); statics<FM33<T>, T> (); statics<FM44<T>, T> ();
    tolerant<FVec2<T>, T> (); tolerant<FVec3<T>, T> (); tolerant<FVec4<T>, T> (); tolerant<FShear6<T>, T> ();
    tolerant<FM22<T>, T> (); tolerant<FM33<T>, T> (); tolerant<FM44<T>, T> ();
    text<FColor3<T>, T> (1); text<FColor4<T>, T> (1); text<FShear6<T>, T> (1); text<FQuat<T>, T> (1);
    text<FM22<T>, T> (2); text<FM33<T>, T> (3); text<FM44<T>, T> (4);
}

int main (int argc, char** argv)
{
    std::string mode = argc > 1 ? argv[1] : "static";
    if (mode == "replay") return replay (argv[2]);
    statics_vec<short> (); statics_vec<int> (); statics_vec<int64_t> (); statics_vec<half> ();
    statics<FColor3<unsigned char>, unsigned char> (); statics<FColor4<unsigned char>, unsigned char> ();
    statics<FColor3<half>, half> (); statics<FColor4<half>, half> ();
    tolerant<FVec3<int>, int> (); tolerant<FVec4<short>, short> ();
    statics_float<float> (); statics_float<double> ();
    conv<float, double> (); conv<double, float> (); conv<int, float> (); conv<float, int> (); conv<short, int> (); conv<int, int64_t> (); conv<half, float> (); conv<float, half> (); conv<int64_t, double> ();
    return 0;
}
