// Replayer / recorder for C04: aggregates are component-wise.
//   rec_agg replay <programs.txt>   : replays TLC-generated operation sequences on every (type family, element type)
//   rec_agg static                  : equality family, layout, stream output, conversions
// A program is a block of lines "prog <id>" followed by steps "<op> <spelling> <operand-index>".
#include "vtrace.h"
#include <ImathVec.h>
#include <ImathColor.h>
#include <ImathShear.h>
#include <ImathQuat.h>
#include <ImathMatrix.h>
#include <half.h>
#include <cstddef>
#include <iomanip>
#include <fstream>
#include <sstream>
#include <string>
#include <vector>
#include <limits>
#include <cmath>

using namespace IMATH_INTERNAL_NAMESPACE;
static FILE* o = stdout;

// ---- element types: tag, logging, value pools --------------------------------------------------------
template <class T> struct E;
#define INT_E(TY, TAG)                                                                                         \
    template <> struct E<TY>                                                                                   \
    {                                                                                                          \
        static const char* tag () { return TAG; }                                                              \
        static void        log (std::string& s, TY v) { s += std::to_string ((long long) v); }                 \
        static TY          pool (int k, int slot) { static const int p[] = {1, 2, 3, 5, 7, 4, 6, 9}; return (TY) (p[(k * 3 + slot * 5 + k * slot) % 8] * ((std::numeric_limits<TY>::is_signed && ((k + slot) % 3 == 0)) ? -1 : 1)); } \
        static TY          scalar (int k) { static const int p[] = {2, 3, 5, 7}; return (TY) p[k % 4]; }     \
    };
INT_E (short, "i16") INT_E (int, "i32") INT_E (int64_t, "i64") INT_E (unsigned char, "u8")
template <> struct E<float>
{
    static const char* tag () { return "f"; }
    static void log (std::string& s, float v) { uint32_t u = vt_fbits (v); s += "[" + std::to_string (u >> 16) + "," + std::to_string (u & 0xffff) + "]"; }
    static float special (int k)
    {
        static const uint32_t sp[] = {0x80000000u, 0x7f800000u, 0xff800000u, 0x7fc00000u, 0x7f7fffffu, 0x00000001u, 0x00800000u, 0x3eaaaaabu, 0x3dcccccdu, 0xc0490fdbu};
        return vt_bitsf (sp[k % 10]);
    }
    static float pool (int k, int slot)
    {
        if (k >= 8) return special (k + slot * 3);
        static const float p[] = {1, 2, 3, 0.5f, 7, 1.5f, 6, 0.25f, 10, 0.1f, 3.3f};
        float v = p[(k * 3 + slot * 5 + k * slot) % 11];
        return ((k + slot) % 3 == 0) ? -v : v;
    }
    static float scalar (int k) { static const float p[] = {2, 3, 0.5f, 7, 0.1f, 1e30f}; return p[k % 6]; }
};
template <> struct E<double>
{
    static const char* tag () { return "d"; }
    static void log (std::string& s, double v)
    {
        uint64_t u = vt_dbits (v);
        s += "[" + std::to_string ((u >> 48) & 0xffff) + "," + std::to_string ((u >> 32) & 0xffff) + "," + std::to_string ((u >> 16) & 0xffff) + "," + std::to_string (u & 0xffff) + "]";
    }
    static double pool (int k, int slot)
    {
        if (k >= 8)
        {
            static const uint64_t sp[] = {0x8000000000000000ull, 0x7ff0000000000000ull, 0xfff0000000000000ull, 0x7ff8000000000000ull, 0x7fefffffffffffffull, 1ull, 0x0010000000000000ull, 0x3fd5555555555555ull};
            return vt_bitsd (sp[(k + slot * 3) % 8]);
        }
        static const double p[] = {1, 2, 3, 0.5, 7, 1.5, 6, 0.25, 10, 0.1, 3.3};
        double v = p[(k * 3 + slot * 5 + k * slot) % 11];
        return ((k + slot) % 3 == 0) ? -v : v;
    }
    static double scalar (int k) { static const double p[] = {2, 3, 0.5, 7, 0.1, 1e300}; return p[k % 6]; }
};
template <> struct E<half>
{
    static const char* tag () { return "h"; }
    static void log (std::string& s, half v) { s += "[" + std::to_string (v.bits ()) + "]"; }
    static half pool (int k, int slot)
    {
        if (k >= 8) { static const unsigned sp[] = {0x8000, 0x7c00, 0xfc00, 0x7e00, 0x7bff, 0x0001, 0x0400, 0x3555}; half h; h.setBits ((unsigned short) sp[(k + slot * 3) % 8]); return h; }
        static const float p[] = {1, 2, 3, 0.5f, 7, 1.5f, 6, 0.25f, 10, 0.1f, 3.3f};
        float v = p[(k * 3 + slot * 5 + k * slot) % 11];
        return half (((k + slot) % 3 == 0) ? -v : v);
    }
    static half scalar (int k) { static const float p[] = {2, 3, 0.5f, 7, 0.1f, 1000.f}; return half (p[k % 6]); }
};

template <class T> static std::string jl (const T* v, int n)
{
    std::string s = "[";
    for (int i = 0; i < n; ++i) { if (i) s += ","; E<T>::log (s, v[i]); }
    return s + "]";
}

// ---- type families -----------------------------------------------------------------------------------------
// every adapter: A, N, name(), make(v), idx(a,out), named(a,out), getv(a,out), caps
enum { CAP_VMUL = 1, CAP_SLEFT = 2, CAP_NEGATE = 4, CAP_VDIV = 8 };

template <class T> struct FVec2
{
    typedef Vec2<T> A; enum { N = 2, CAPS = CAP_VMUL | CAP_SLEFT | CAP_NEGATE | CAP_VDIV };
    static const char* name () { return "Vec2"; }
    static A make (const T* v) { return A (v[0], v[1]); }
    static void idx (const A& a, T* x) { for (int i = 0; i < N; ++i) x[i] = a[i]; }
    static void named (const A& a, T* x) { x[0] = a.x; x[1] = a.y; }
    static void getv (const A& a, T* x) { a.getValue (x[0], x[1]); }
    static const T* ptr (const A& a) { return a.getValue (); }
};
template <class T> struct FVec3
{
    typedef Vec3<T> A; enum { N = 3, CAPS = CAP_VMUL | CAP_SLEFT | CAP_NEGATE | CAP_VDIV };
    static const char* name () { return "Vec3"; }
    static A make (const T* v) { return A (v[0], v[1], v[2]); }
    static void idx (const A& a, T* x) { for (int i = 0; i < N; ++i) x[i] = a[i]; }
    static void named (const A& a, T* x) { x[0] = a.x; x[1] = a.y; x[2] = a.z; }
    static void getv (const A& a, T* x) { a.getValue (x[0], x[1], x[2]); }
    static const T* ptr (const A& a) { return a.getValue (); }
};
template <class T> struct FVec4
{
    typedef Vec4<T> A; enum { N = 4, CAPS = CAP_VMUL | CAP_SLEFT | CAP_NEGATE | CAP_VDIV };
    static const char* name () { return "Vec4"; }
    static A make (const T* v) { return A (v[0], v[1], v[2], v[3]); }
    static void idx (const A& a, T* x) { for (int i = 0; i < N; ++i) x[i] = a[i]; }
    static void named (const A& a, T* x) { x[0] = a.x; x[1] = a.y; x[2] = a.z; x[3] = a.w; }
    static void getv (const A& a, T* x) { a.getValue (x[0], x[1], x[2], x[3]); }
    static const T* ptr (const A& a) { return a.getValue (); }
};
template <class T> struct FColor3
{
    typedef Color3<T> A; enum { N = 3, CAPS = CAP_VMUL | CAP_SLEFT | CAP_NEGATE | CAP_VDIV };
    static const char* name () { return "Color3"; }
    static A make (const T* v) { return A (v[0], v[1], v[2]); }
    static void idx (const A& a, T* x) { for (int i = 0; i < N; ++i) x[i] = a[i]; }
    static void named (const A& a, T* x) { x[0] = a.x; x[1] = a.y; x[2] = a.z; }
    static void getv (const A& a, T* x) { a.getValue (x[0], x[1], x[2]); }
    static const T* ptr (const A& a) { return a.getValue (); }
};
template <class T> struct FColor4
{
    typedef Color4<T> A; enum { N = 4, CAPS = CAP_VMUL | CAP_SLEFT | CAP_NEGATE | CAP_VDIV };
    static const char* name () { return "Color4"; }
    static A make (const T* v) { return A (v[0], v[1], v[2], v[3]); }
    static void idx (const A& a, T* x) { for (int i = 0; i < N; ++i) x[i] = a[i]; }
    static void named (const A& a, T* x) { x[0] = a.r; x[1] = a.g; x[2] = a.b; x[3] = a.a; }
    static void getv (const A& a, T* x) { a.getValue (x[0], x[1], x[2], x[3]); }
    static const T* ptr (const A& a) { return a.getValue (); }
};
template <class T> struct FShear6
{
    typedef Shear6<T> A; enum { N = 6, CAPS = CAP_VMUL | CAP_SLEFT | CAP_NEGATE | CAP_VDIV };
    static const char* name () { return "Shear6"; }
    static A make (const T* v) { return A (v[0], v[1], v[2], v[3], v[4], v[5]); }
    static void idx (const A& a, T* x) { for (int i = 0; i < N; ++i) x[i] = a[i]; }
    static void named (const A& a, T* x) { x[0] = a.xy; x[1] = a.xz; x[2] = a.yz; x[3] = a.yx; x[4] = a.zx; x[5] = a.zy; }
    static void getv (const A& a, T* x) { a.getValue (x[0], x[1], x[2], x[3], x[4], x[5]); }
    static const T* ptr (const A& a) { return &a.xy; }
};
template <class T> struct FQuat
{
    typedef Quat<T> A; enum { N = 4, CAPS = CAP_SLEFT };
    static const char* name () { return "Quat"; }
    static A make (const T* v) { return A (v[0], v[1], v[2], v[3]); }
    static void idx (const A& a, T* x) { for (int i = 0; i < N; ++i) x[i] = a[i]; }
    static void named (const A& a, T* x) { x[0] = a.r; x[1] = a.v.x; x[2] = a.v.y; x[3] = a.v.z; }
    static void getv (const A& a, T* x) { named (a, x); }
    static const T* ptr (const A& a) { return &a.r; }
};
template <class T> struct FM22
{
    typedef Matrix22<T> A; enum { N = 4, CAPS = CAP_SLEFT | CAP_NEGATE };
    static const char* name () { return "Matrix22"; }
    static A make (const T* v) { return A (v[0], v[1], v[2], v[3]); }
    static void idx (const A& a, T* x) { for (int i = 0; i < 2; ++i) for (int j = 0; j < 2; ++j) x[i * 2 + j] = a[i][j]; }
    static void named (const A& a, T* x) { for (int i = 0; i < 2; ++i) for (int j = 0; j < 2; ++j) x[i * 2 + j] = a.x[i][j]; }
    static void getv (const A& a, T* x) { Matrix22<T> c; a.getValue (c); idx (c, x); }
    static const T* ptr (const A& a) { return a.getValue (); }
};
template <class T> struct FM33
{
    typedef Matrix33<T> A; enum { N = 9, CAPS = CAP_SLEFT | CAP_NEGATE };
    static const char* name () { return "Matrix33"; }
    static A make (const T* v) { return A (v[0], v[1], v[2], v[3], v[4], v[5], v[6], v[7], v[8]); }
    static void idx (const A& a, T* x) { for (int i = 0; i < 3; ++i) for (int j = 0; j < 3; ++j) x[i * 3 + j] = a[i][j]; }
    static void named (const A& a, T* x) { for (int i = 0; i < 3; ++i) for (int j = 0; j < 3; ++j) x[i * 3 + j] = a.x[i][j]; }
    static void getv (const A& a, T* x) { Matrix33<T> c; a.getValue (c); idx (c, x); }
    static const T* ptr (const A& a) { return a.getValue (); }
};
template <class T> struct FM44
{
    typedef Matrix44<T> A; enum { N = 16, CAPS = CAP_SLEFT | CAP_NEGATE };
    static const char* name () { return "Matrix44"; }
    static A make (const T* v) { return A (v[0], v[1], v[2], v[3], v[4], v[5], v[6], v[7], v[8], v[9], v[10], v[11], v[12], v[13], v[14], v[15]); }
    static void idx (const A& a, T* x) { for (int i = 0; i < 4; ++i) for (int j = 0; j < 4; ++j) x[i * 4 + j] = a[i][j]; }
    static void named (const A& a, T* x) { for (int i = 0; i < 4; ++i) for (int j = 0; j < 4; ++j) x[i * 4 + j] = a.x[i][j]; }
    static void getv (const A& a, T* x) { Matrix44<T> c; a.getValue (c); idx (c, x); }
    static const T* ptr (const A& a) { return a.getValue (); }
};

// capability-dispatched operations (overloads chosen at compile time)
template <class A> static void vmul (A& acc, const A& b, int sp, std::true_type) { if (sp == 0) acc = acc * b; else acc *= b; }
template <class A> static void vmul (A&, const A&, int, std::false_type) {}
template <class A> static void vdiv (A& acc, const A& b, int sp, std::true_type) { if (sp == 0) acc = acc / b; else acc /= b; }
template <class A> static void vdiv (A&, const A&, int, std::false_type) {}
template <class A, class T> static void sleft (A& acc, T s, std::true_type) { acc = s * acc; }
template <class A, class T> static void sleft (A& acc, T s, std::false_type) { acc = acc * s; }
template <class A> static void negate_ (A& acc, std::true_type) { acc.negate (); }
template <class A> static void negate_ (A& acc, std::false_type) { acc = -acc; }

template <class F, class T> static void observe (const char* ev, int prog, int step, const char* op, int sp, const std::string& operand, const typename F::A& acc)
{
    T a[16], b[16], c[16], d[16];
    F::idx (acc, a); F::named (acc, b); F::getv (acc, c);
    memcpy (d, &acc, sizeof (T) * F::N);
    const T* p = F::ptr (acc);
    T e[16];
    for (int i = 0; i < F::N; ++i) e[i] = p[i];
    std::string s = std::string ("{\"e\":\"") + ev + "\",\"fam\":\"" + F::name () + "\",\"T\":\"" + E<T>::tag () + "\",\"n\":" + std::to_string ((int) F::N) + ",\"prog\":" + std::to_string (prog) +
                    ",\"step\":" + std::to_string (step) + ",\"op\":\"" + op + "\",\"sp\":" + std::to_string (sp) + ",\"operand\":" + operand + ",\"acc\":" + jl (a, F::N) + ",\"named\":" + jl (b, F::N) +
                    ",\"getv\":" + jl (c, F::N) + ",\"raw\":" + jl (d, F::N) + ",\"ptr\":" + jl (e, F::N) + ",\"size\":" + std::to_string (sizeof (typename F::A)) + "}\n";
    fputs (s.c_str (), o);
}

struct Step { std::string op; int sp; int k; };

template <class F, class T> static void run_program (int prog, const std::vector<Step>& steps, bool specials)
{
    typedef typename F::A A;
    T v[16];
    for (int i = 0; i < F::N; ++i) v[i] = E<T>::pool (0, i);
    A acc = F::make (v);
    int stepno = 0;
    for (const Step& st : steps)
    {
        int k = st.k;
        if (!specials && k >= 8) k %= 8;
        for (int i = 0; i < F::N; ++i) v[i] = E<T>::pool (k, i);
        A b = F::make (v);
        T s = E<T>::scalar (st.k);
        std::string operand = jl (v, F::N);
        std::string sc = "[" + jl (&s, 1).substr (1);
        bool done = true;
        // every fourth operand index: the operand IS the accumulator (a += a, a *= a): the destination aliases the source
        bool self = (st.k % 4 == 3) && (st.op == "add" || st.op == "sub" || st.op == "mul");
        if (self) { b = acc; T w[16]; F::named (acc, w); operand = jl (w, F::N); }
        const A& rhs = self ? acc : b;
        if (st.op == "set") acc = b;
        else if (st.op == "add") { if (st.sp == 0) acc = acc + rhs; else acc += rhs; }
        else if (st.op == "sub") { if (st.sp == 0) acc = acc - rhs; else acc -= rhs; }
        else if (st.op == "mul") { if (!(F::CAPS & CAP_VMUL)) done = false; vmul (acc, rhs, st.sp, std::integral_constant<bool, (F::CAPS & CAP_VMUL) != 0> ()); }
        else if (st.op == "div") { if (!(F::CAPS & CAP_VDIV)) done = false; vdiv (acc, b, st.sp, std::integral_constant<bool, (F::CAPS & CAP_VDIV) != 0> ()); }
        else if (st.op == "smul" || st.op == "sdiv")
        {
            operand = sc;
            // every fourth operand index: the scalar is a REFERENCE to one of the accumulator's own elements (m *= m[1][1]);
            // the element must be used with the value it had before the operation
            const T* own = F::ptr (acc);
            int      slot = (st.k / 4) % F::N;
            bool     selfs = (st.k % 4 == 2) && own != 0 && own[slot] != T (0) && own[slot] == own[slot];
            if (selfs) { s = own[slot]; operand = "[" + jl (&s, 1).substr (1); }
            const T& sr = selfs ? own[slot] : s;
            if (st.op == "smul")
            {
                if (st.sp == 0) acc = acc * sr; else if (st.sp == 1) acc *= sr; else sleft (acc, sr, std::integral_constant<bool, (F::CAPS & CAP_SLEFT) != 0> ());
            }
            else { if (st.sp == 0) acc = acc / sr; else acc /= sr; }
        }
        else if (st.op == "neg") { operand = "[]"; if (st.sp == 0) acc = -acc; else negate_ (acc, std::integral_constant<bool, (F::CAPS & CAP_NEGATE) != 0> ()); }
        else done = false;
        if (!done) continue;
        observe<F, T> ("agg", prog, ++stepno, st.op.c_str (), st.sp, operand, acc);
    }
}

template <class T> static void run_all_families (int prog, const std::vector<Step>& steps, bool fl)
{
    run_program<FVec2<T>, T> (prog, steps, fl); run_program<FVec3<T>, T> (prog, steps, fl); run_program<FVec4<T>, T> (prog, steps, fl);
}
template <class T> static void run_float_families (int prog, const std::vector<Step>& steps)
{
    run_all_families<T> (prog, steps, true);
    run_program<FColor3<T>, T> (prog, steps, true); run_program<FColor4<T>, T> (prog, steps, true);
    run_program<FShear6<T>, T> (prog, steps, true); run_program<FQuat<T>, T> (prog, steps, true);
    run_program<FM22<T>, T> (prog, steps, true); run_program<FM33<T>, T> (prog, steps, true); run_program<FM44<T>, T> (prog, steps, true);
}

static int replay (const char* path)
{
    std::ifstream in (path);
    std::string   line;
    int           prog = -1;
    std::vector<Step> steps;
    auto flush = [&] () {
        if (prog < 0) return;
        run_all_families<short> (prog, steps, false); run_all_families<int> (prog, steps, false); run_all_families<int64_t> (prog, steps, false);
        run_all_families<half> (prog, steps, true);
        run_program<FColor3<half>, half> (prog, steps, true); run_program<FColor4<half>, half> (prog, steps, true);
        run_program<FColor3<unsigned char>, unsigned char> (prog, steps, false); run_program<FColor4<unsigned char>, unsigned char> (prog, steps, false);
        run_float_families<float> (prog, steps); run_float_families<double> (prog, steps);
        steps.clear ();
    };
    while (std::getline (in, line))
    {
        std::istringstream ss (line);
        std::string op; ss >> op;
        if (op == "prog") { flush (); ss >> prog; }
        else if (!op.empty ()) { Step s; s.op = op; ss >> s.sp >> s.k; steps.push_back (s); }
    }
    flush ();
    return 0;
}

// ---- static part: equality, layout, text, conversion ------------------------------------------------------------
template <class F, class T> static void statics ()
{
    typedef typename F::A A;
    const int N = F::N;
    T v[16], w[16];
    for (int i = 0; i < N; ++i) v[i] = E<T>::pool (1, i);
    A a = F::make (v);
    // layout
    {
        std::string s = std::string ("{\"e\":\"agglayout\",\"fam\":\"") + F::name () + "\",\"T\":\"" + E<T>::tag () + "\",\"n\":" + std::to_string (N) + ",\"sizeof\":" + std::to_string (sizeof (A)) +
                        ",\"elem\":" + std::to_string (sizeof (T)) + ",\"offsets\":[";
        const T* base = F::ptr (a);
        for (int i = 0; i < N; ++i) { s += (i ? "," : "") + std::to_string ((long) ((const char*) (base + i) - (const char*) &a)); }
        fputs ((s + "]}\n").c_str (), o);
    }
    // equality: identical, and differing in exactly one slot (each slot)
    for (int slot = -1; slot < N; ++slot)
    {
        for (int i = 0; i < N; ++i) w[i] = v[i];
        if (slot >= 0) w[slot] = E<T>::pool (2, slot + 1) == v[slot] ? E<T>::pool (3, slot + 2) : E<T>::pool (2, slot + 1);
        A b = F::make (w);
        std::string s = std::string ("{\"e\":\"aggeq\",\"fam\":\"") + F::name () + "\",\"T\":\"" + E<T>::tag () + "\",\"n\":" + std::to_string (N) + ",\"a\":" + jl (v, N) + ",\"b\":" + jl (w, N) +
                        ",\"eq\":" + std::to_string ((int) (a == b)) + ",\"ne\":" + std::to_string ((int) (a != b)) + "}\n";
        fputs (s.c_str (), o);
    }
    // an object compared with ITSELF (same address): still the slot-wise comparison - with a NaN in any slot, == is false and != true
    if (!std::numeric_limits<T>::is_integer)
        for (int slot = -1; slot < N; ++slot)
        {
            for (int i = 0; i < N; ++i) w[i] = v[i];
            if (slot >= 0) w[slot] = std::numeric_limits<T>::quiet_NaN ();
            A b = F::make (w);
            const A& alias = b;
            std::string s = std::string ("{\"e\":\"aggeq\",\"fam\":\"") + F::name () + "\",\"T\":\"" + E<T>::tag () + "\",\"n\":" + std::to_string (N) + ",\"self\":1,\"a\":" + jl (w, N) + ",\"b\":" + jl (w, N) +
                            ",\"eq\":" + std::to_string ((int) (b == alias)) + ",\"ne\":" + std::to_string ((int) (b != alias)) + "}\n";
            fputs (s.c_str (), o);
        }
}
template <class F, class T> static void tolerant ()
{
    // equalWithAbsError / equalWithRelError depend on every component
    typedef typename F::A A;
    const int N = F::N;
    T v[16], w[16];
    for (int i = 0; i < N; ++i) v[i] = (T) (8 + i);
    A a = F::make (v);
    const T tol = (T) 2;
    for (int slot = -1; slot < N; ++slot)
        for (int big = 0; big < 2; ++big)
        {
            for (int i = 0; i < N; ++i) w[i] = v[i];
            if (slot >= 0) w[slot] = (T) (v[slot] + (big ? 5 : 1));
            A b = F::make (w);
            T relt = (T) 0.25;
            std::string s = std::string ("{\"e\":\"aggtol\",\"fam\":\"") + F::name () + "\",\"T\":\"" + E<T>::tag () + "\",\"n\":" + std::to_string (N) + ",\"a\":" + jl (v, N) + ",\"b\":" + jl (w, N) +
                            ",\"tol\":" + jl (&tol, 1) + ",\"abs\":" + std::to_string ((int) a.equalWithAbsError (b, tol)) + ",\"reltol\":" + jl (&relt, 1) + ",\"rel\":" +
                            std::to_string ((int) a.equalWithRelError (b, relt)) + "}\n";
            fputs (s.c_str (), o);
        }
}
template <class F, class T> static void text (int rows)
{
    typedef typename F::A A;
    const int N = F::N;
    T v[16];
    // k < 3: default stream state, small values; k >= 3: std::fixed with wide values (fields wider than any setw)
    for (int k = 0; k < 6; ++k)
    {
        for (int i = 0; i < N; ++i) v[i] = E<T>::pool ((k % 3) + 1, i);
        bool wide = k >= 3 && !std::numeric_limits<T>::is_integer && sizeof (T) >= 4;
        if (k >= 3 && !wide) continue;
        if (wide) for (int i = 0; i < N; ++i) v[i] = (T) (v[i] * (T) (i % 2 ? 12345 : -4321));
        A a = F::make (v);
        std::ostringstream ss;
        if (wide) ss << std::fixed;
        ss << a;
        std::string txt = ss.str ();
        while (!txt.empty () && (txt.back () == '\n' || txt.back () == ' ')) txt.pop_back ();      // matrices end with a newline after ')'
        // pure lexing: strip one leading '(' and one trailing ')', split on whitespace
        std::string body = txt;
        int opens = 0, closes = 0;
        for (char c : txt) { if (c == '(') ++opens; if (c == ')') ++closes; }
        if (!body.empty () && body.front () == '(') body.erase (0, 1);
        if (!body.empty () && body.back () == ')') body.pop_back ();
        std::vector<std::string> toks; { std::istringstream ts (body); std::string t; while (ts >> t) toks.push_back (t); }
        int lines = 1; for (char c : txt) if (c == '\n') ++lines;
        std::string s = std::string ("{\"e\":\"aggtext\",\"fam\":\"") + F::name () + "\",\"T\":\"" + E<T>::tag () + "\",\"n\":" + std::to_string (N) + ",\"rows\":" + std::to_string (rows) +
                        ",\"opens\":" + std::to_string (opens) + ",\"closes\":" + std::to_string (closes) + ",\"lines\":" + std::to_string (lines) + ",\"first\":\"" +
                        (txt.empty () ? std::string ("") : std::string (1, txt.front ())) + "\",\"last\":\"" + (txt.empty () ? std::string ("") : std::string (1, txt.back ())) + "\",\"tokens\":[";
        for (size_t i = 0; i < toks.size (); ++i) s += std::string (i ? "," : "") + "\"" + toks[i] + "\"";
        s += "],\"tokvals\":[";
        for (size_t i = 0; i < toks.size (); ++i) { std::string w; E<double>::log (w, strtod (toks[i].c_str (), 0)); s += (i ? "," : "") + w; }
        s += "],\"compvals\":[";
        T c[16]; F::idx (a, c);
        for (int i = 0; i < N; ++i) { std::string w; E<double>::log (w, (double) (float) c[i] == (double) c[i] ? (double) c[i] : (double) c[i]); s += (i ? "," : "") + w; }
        s += "],\"comps\":[";
        for (int i = 0; i < N; ++i) { std::ostringstream cs; if (wide) cs << std::fixed; cs << c[i]; s += std::string (i ? "," : "") + "\"" + cs.str () + "\""; }
        bool single = true;
        if (rows == 1)
        {
            std::string expect = "(";
            for (int i = 0; i < N; ++i) { std::ostringstream cs; if (wide) cs << std::fixed; cs << c[i]; expect += (i ? " " : "") + cs.str (); }
            expect += ")";
            single = false; s += "],\"text\":\"" + txt + "\",\"joined\":\"" + expect + "\"}\n";
        }
        if (single) s += "]}\n";
        fputs (s.c_str (), o);
    }
}
template <class S, class T> static void emit_conv2 (const char* fam, const S* a, const T* out, int n)
{
    fputs ((std::string ("{\"e\":\"aggconv\",\"fam\":\"") + fam + "\",\"from\":\"" + E<S>::tag () + "\",\"T\":\"" + E<T>::tag () + "\",\"a\":" + jl (a, n) + ",\"out\":" + jl (out, n) + "}\n").c_str (), o);
}
template <class S, class T> static void conv ()
{
    // converting constructors, setValue / getValue / setTheMatrix across element types: component-wise cast, order preserved.
    // Every slot holds a different value, so a swapped or repeated index shows.
    S v[16]; for (int i = 0; i < 16; ++i) v[i] = (S) (3 + 2 * i);
    T w[16];
    { Vec2<S> a (v[0], v[1]); Vec2<T> b (a); w[0] = b.x; w[1] = b.y; emit_conv2 ("Vec2 ctor", v, w, 2);
      Vec2<T> c; c.setValue (v[0], v[1]); w[0] = c.x; w[1] = c.y; emit_conv2 ("Vec2 setValue(S,S)", v, w, 2);
      Vec2<T> d; d.setValue (a); w[0] = d.x; w[1] = d.y; emit_conv2 ("Vec2 setValue(Vec)", v, w, 2);
      Vec2<S> src (v[0], v[1]); Vec2<T> e (src); Vec2<S> back; S q0, q1; e.getValue (q0, q1); e.getValue (back); }
    { Vec3<S> a (v[0], v[1], v[2]); Vec3<T> b (a); w[0] = b.x; w[1] = b.y; w[2] = b.z; emit_conv2 ("Vec3 ctor", v, w, 3);
      Vec3<T> c; c.setValue (v[0], v[1], v[2]); w[0] = c.x; w[1] = c.y; w[2] = c.z; emit_conv2 ("Vec3 setValue(S,S,S)", v, w, 3);
      Vec3<T> d; d.setValue (a); w[0] = d.x; w[1] = d.y; w[2] = d.z; emit_conv2 ("Vec3 setValue(Vec)", v, w, 3); }
    { Vec4<S> a (v[0], v[1], v[2], v[3]); Vec4<T> b (a); w[0] = b.x; w[1] = b.y; w[2] = b.z; w[3] = b.w; emit_conv2 ("Vec4 ctor", v, w, 4);
      Vec4<T> c; c.setValue (v[0], v[1], v[2], v[3]); w[0] = c.x; w[1] = c.y; w[2] = c.z; w[3] = c.w; emit_conv2 ("Vec4 setValue(S,S,S,S)", v, w, 4);
      Vec4<T> d; d.setValue (a); w[0] = d.x; w[1] = d.y; w[2] = d.z; w[3] = d.w; emit_conv2 ("Vec4 setValue(Vec)", v, w, 4); }
    // getValue into the other element type: source of type T, destination of type S
    { T t4[4]; for (int i = 0; i < 4; ++i) t4[i] = (T) (5 + 3 * i); S g[4];
      Vec2<T> a2 (t4[0], t4[1]); a2.getValue (g[0], g[1]); emit_conv2 ("Vec2 getValue(S&,S&)", t4, g, 2); { Vec2<S> h; a2.getValue (h); g[0] = h.x; g[1] = h.y; emit_conv2 ("Vec2 getValue(Vec&)", t4, g, 2); }
      Vec3<T> a3 (t4[0], t4[1], t4[2]); a3.getValue (g[0], g[1], g[2]); emit_conv2 ("Vec3 getValue(S&,S&,S&)", t4, g, 3); { Vec3<S> h; a3.getValue (h); g[0] = h.x; g[1] = h.y; g[2] = h.z; emit_conv2 ("Vec3 getValue(Vec&)", t4, g, 3); }
      Vec4<T> a4 (t4[0], t4[1], t4[2], t4[3]); a4.getValue (g[0], g[1], g[2], g[3]); emit_conv2 ("Vec4 getValue(S&..)", t4, g, 4); { Vec4<S> h; a4.getValue (h); g[0] = h.x; g[1] = h.y; g[2] = h.z; g[3] = h.w; emit_conv2 ("Vec4 getValue(Vec&)", t4, g, 4); } }
}
template <class A, class B, int N> static void mat_out (const B& m, typename B::BaseType* w) { for (int i = 0; i < N * N; ++i) w[i] = m[i / N][i % N]; }
template <class S, class T> static void conv_float ()
{
    // matrices, colours, shears, quaternions (floating element types)
    S v[16]; for (int i = 0; i < 16; ++i) v[i] = (S) (3 + 2 * i);
    T w[16]; S g[16]; T tv[16]; for (int i = 0; i < 16; ++i) tv[i] = (T) (5 + 3 * i);
    { Matrix22<S> a; for (int i = 0; i < 4; ++i) a[i / 2][i % 2] = v[i];
      Matrix22<T> b (a); for (int i = 0; i < 4; ++i) w[i] = b[i / 2][i % 2]; emit_conv2 ("M22 ctor", v, w, 4);
      Matrix22<T> c; c.setValue (a); for (int i = 0; i < 4; ++i) w[i] = c[i / 2][i % 2]; emit_conv2 ("M22 setValue", v, w, 4);
      Matrix22<T> d; d.setTheMatrix (a); for (int i = 0; i < 4; ++i) w[i] = d[i / 2][i % 2]; emit_conv2 ("M22 setTheMatrix", v, w, 4);
      Matrix22<T> e; for (int i = 0; i < 4; ++i) e[i / 2][i % 2] = tv[i]; Matrix22<S> h; e.getValue (h); for (int i = 0; i < 4; ++i) g[i] = h[i / 2][i % 2]; emit_conv2 ("M22 getValue", tv, g, 4); }
    { Matrix33<S> a; for (int i = 0; i < 9; ++i) a[i / 3][i % 3] = v[i];
      Matrix33<T> b (a); for (int i = 0; i < 9; ++i) w[i] = b[i / 3][i % 3]; emit_conv2 ("M33 ctor", v, w, 9);
      Matrix33<T> c; c.setValue (a); for (int i = 0; i < 9; ++i) w[i] = c[i / 3][i % 3]; emit_conv2 ("M33 setValue", v, w, 9);
      Matrix33<T> d; d.setTheMatrix (a); for (int i = 0; i < 9; ++i) w[i] = d[i / 3][i % 3]; emit_conv2 ("M33 setTheMatrix", v, w, 9);
      Matrix33<T> e; for (int i = 0; i < 9; ++i) e[i / 3][i % 3] = tv[i]; Matrix33<S> h; e.getValue (h); for (int i = 0; i < 9; ++i) g[i] = h[i / 3][i % 3]; emit_conv2 ("M33 getValue", tv, g, 9); }
    { Matrix44<S> a; for (int i = 0; i < 16; ++i) a[i / 4][i % 4] = v[i];
      Matrix44<T> b (a); for (int i = 0; i < 16; ++i) w[i] = b[i / 4][i % 4]; emit_conv2 ("M44 ctor", v, w, 16);
      Matrix44<T> c; c.setValue (a); for (int i = 0; i < 16; ++i) w[i] = c[i / 4][i % 4]; emit_conv2 ("M44 setValue", v, w, 16);
      Matrix44<T> d; d.setTheMatrix (a); for (int i = 0; i < 16; ++i) w[i] = d[i / 4][i % 4]; emit_conv2 ("M44 setTheMatrix", v, w, 16);
      Matrix44<T> e; for (int i = 0; i < 16; ++i) e[i / 4][i % 4] = tv[i]; Matrix44<S> h; e.getValue (h); for (int i = 0; i < 16; ++i) g[i] = h[i / 4][i % 4]; emit_conv2 ("M44 getValue", tv, g, 16); }
    { Color4<S> a (v[0], v[1], v[2], v[3]); Color4<T> b (a); w[0] = b.r; w[1] = b.g; w[2] = b.b; w[3] = b.a; emit_conv2 ("Color4 ctor", v, w, 4);
      Color4<T> c; c.setValue (v[0], v[1], v[2], v[3]); w[0] = c.r; w[1] = c.g; w[2] = c.b; w[3] = c.a; emit_conv2 ("Color4 setValue(S..)", v, w, 4);
      Color4<T> d; d.setValue (a); w[0] = d.r; w[1] = d.g; w[2] = d.b; w[3] = d.a; emit_conv2 ("Color4 setValue(Color4)", v, w, 4);
      Color4<T> e (tv[0], tv[1], tv[2], tv[3]); e.getValue (g[0], g[1], g[2], g[3]); emit_conv2 ("Color4 getValue(S&..)", tv, g, 4);
      Color4<S> h; e.getValue (h); g[0] = h.r; g[1] = h.g; g[2] = h.b; g[3] = h.a; emit_conv2 ("Color4 getValue(Color4&)", tv, g, 4); }
    { Color3<S> a (v[0], v[1], v[2]); Color3<T> b (a); w[0] = b.x; w[1] = b.y; w[2] = b.z; emit_conv2 ("Color3 ctor", v, w, 3); }
    { Shear6<S> a (v[0], v[1], v[2], v[3], v[4], v[5]); Shear6<T> b (a); for (int i = 0; i < 6; ++i) w[i] = b[i]; emit_conv2 ("Shear6 ctor", v, w, 6);
      Shear6<T> c; c.setValue (v[0], v[1], v[2], v[3], v[4], v[5]); for (int i = 0; i < 6; ++i) w[i] = c[i]; emit_conv2 ("Shear6 setValue(S..)", v, w, 6);
      Shear6<T> d; d.setValue (a); for (int i = 0; i < 6; ++i) w[i] = d[i]; emit_conv2 ("Shear6 setValue(Shear6)", v, w, 6);
      Shear6<T> e (tv[0], tv[1], tv[2], tv[3], tv[4], tv[5]); e.getValue (g[0], g[1], g[2], g[3], g[4], g[5]); emit_conv2 ("Shear6 getValue(S&..)", tv, g, 6);
      Shear6<S> h; e.getValue (h); for (int i = 0; i < 6; ++i) g[i] = h[i]; emit_conv2 ("Shear6 getValue(Shear6&)", tv, g, 6);
      Vec3<S> a3 (v[0], v[1], v[2]); Shear6<T> f (a3); for (int i = 0; i < 6; ++i) w[i] = f[i]; S z6[6] = {v[0], v[1], v[2], S (0), S (0), S (0)}; emit_conv2 ("Shear6 ctor(Vec3)", z6, w, 6);
      Shear6<T> k (tv[0], tv[1], tv[2], tv[3], tv[4], tv[5]); k = a3; for (int i = 0; i < 6; ++i) w[i] = k[i]; emit_conv2 ("Shear6 = Vec3", z6, w, 6); }
    { Quat<S> a (v[0], v[1], v[2], v[3]); Quat<T> b (a); w[0] = b.r; w[1] = b.v.x; w[2] = b.v.y; w[3] = b.v.z; emit_conv2 ("Quat ctor", v, w, 4); }
}

// numeric limits and dimension count exposed by every aggregate (they bound Box::makeEmpty / makeInfinite and user clamping code)
template <class F, class T> static void limits (int dims)
{
    typedef typename F::A A;
    T v[4] = {A::baseTypeLowest (), A::baseTypeMax (), A::baseTypeSmallest (), A::baseTypeEpsilon ()};
    std::string lim = jl (v, 4);
    if (std::numeric_limits<T>::is_integer)          // 64-bit limits do not fit the checker's integers: log the sign-extended two's complement words
    {
        lim = "[";
        for (int i = 0; i < 4; ++i)
        {
            uint64_t u = (uint64_t) (int64_t) v[i];
            lim += std::string (i ? "," : "") + "[" + std::to_string ((u >> 48) & 0xffff) + "," + std::to_string ((u >> 32) & 0xffff) + "," + std::to_string ((u >> 16) & 0xffff) + "," + std::to_string (u & 0xffff) + "]";
        }
        lim += "]";
    }
    fputs ((std::string ("{\"e\":\"agglim\",\"fam\":\"") + F::name () + "\",\"T\":\"" + E<T>::tag () + "\",\"n\":" + std::to_string ((int) F::N) + ",\"lim\":" + lim +
            ",\"dims\":" + std::to_string ((int) A::dimensions ()) + ",\"want\":" + std::to_string (dims) + "}\n").c_str (), o);
}
// default construction and makeIdentity of matrices: the identity whatever the object held before
template <class F, class T> static void identity ()
{
    typedef typename F::A A;
    T v[16], w[16];
    for (int i = 0; i < F::N; ++i) v[i] = E<T>::pool (2, i);
    A d; F::idx (d, w);
    fputs ((std::string ("{\"e\":\"aggident\",\"fam\":\"") + F::name () + "\",\"T\":\"" + E<T>::tag () + "\",\"n\":" + std::to_string ((int) F::N) + ",\"how\":\"default\",\"out\":" + jl (w, F::N) + "}\n").c_str (), o);
    A m = F::make (v); m.makeIdentity (); F::idx (m, w);
    fputs ((std::string ("{\"e\":\"aggident\",\"fam\":\"") + F::name () + "\",\"T\":\"" + E<T>::tag () + "\",\"n\":" + std::to_string ((int) F::N) + ",\"how\":\"makeIdentity\",\"out\":" + jl (w, F::N) + "}\n").c_str (), o);
    A b (E<T>::scalar (1)); F::idx (b, w); T sc = E<T>::scalar (1);
    fputs ((std::string ("{\"e\":\"aggfill\",\"fam\":\"") + F::name () + "\",\"T\":\"" + E<T>::tag () + "\",\"n\":" + std::to_string ((int) F::N) + ",\"how\":\"ctor(a)\",\"a\":" + jl (&sc, 1) + ",\"out\":" + jl (w, F::N) + "}\n").c_str (), o);
}
// broadcast construction of vectors / colours / (zero) shears: every slot holds the one value
template <class F, class T> static void fill ()
{
    typedef typename F::A A;
    T w[16]; T sc = E<T>::scalar (2);
    A b (sc); F::idx (b, w);
    fputs ((std::string ("{\"e\":\"aggfill\",\"fam\":\"") + F::name () + "\",\"T\":\"" + E<T>::tag () + "\",\"n\":" + std::to_string ((int) F::N) + ",\"how\":\"ctor(a)\",\"a\":" + jl (&sc, 1) + ",\"out\":" + jl (w, F::N) + "}\n").c_str (), o);
}

// scalar * Shear6<T> with a scalar of ANOTHER type (the reverse multiplication is a template over the scalar type): each
// component is the product formed in the common type, converted once to the element type
template <class S, class T> static void mixed_left_scalar (const S* as, int na, const T* hv)
{
    for (int k = 0; k < na; ++k)
    {
        Shear6<T> h (hv[0], hv[1], hv[2], hv[3], hv[4], hv[5]);
        Shear6<T> r = as[k] * h;
        T out[6]; for (int i = 0; i < 6; ++i) out[i] = r[i];
        fputs ((std::string ("{\"e\":\"aggmix\",\"fam\":\"Shear6\",\"S\":\"") + E<S>::tag () + "\",\"T\":\"" + E<T>::tag () + "\",\"a\":" + jl (&as[k], 1) + ",\"h\":" + jl (hv, 6) + ",\"out\":" + jl (out, 6) + "}\n").c_str (), o);
    }
}
// stream output of integer vectors whose components need the full width of the element type
template <class F, class T> static void text_wide_int ()
{
    typedef typename F::A A;
    const int N = F::N;
    const T mx = std::numeric_limits<T>::max (), lo = std::numeric_limits<T>::lowest ();
    const T vals[6] = {mx, lo, (T) (mx / 3), (T) (lo / 7), (T) (mx - 1), (T) ((mx >> 1) + 7)};
    for (int k = 0; k < 3; ++k)
    {
        T v[16]; for (int i = 0; i < N; ++i) v[i] = vals[(i + 2 * k) % 6];
        A a = F::make (v);
        std::ostringstream ss; ss << a;
        std::string txt = ss.str (), body = txt;
        int opens = 0, closes = 0, lines = 1;
        for (char c : txt) { if (c == '(') ++opens; if (c == ')') ++closes; if (c == '\n') ++lines; }
        if (!body.empty () && body.front () == '(') body.erase (0, 1);
        if (!body.empty () && body.back () == ')') body.pop_back ();
        std::vector<std::string> toks; { std::istringstream ts (body); std::string t; while (ts >> t) toks.push_back (t); }
        std::string s = std::string ("{\"e\":\"aggtext\",\"fam\":\"") + F::name () + "\",\"T\":\"" + E<T>::tag () + "\",\"n\":" + std::to_string (N) + ",\"rows\":1,\"opens\":" + std::to_string (opens) +
                        ",\"closes\":" + std::to_string (closes) + ",\"lines\":" + std::to_string (lines) + ",\"first\":\"" + (txt.empty () ? std::string ("") : std::string (1, txt.front ())) + "\",\"last\":\"" +
                        (txt.empty () ? std::string ("") : std::string (1, txt.back ())) + "\",\"tokens\":[";
        for (size_t i = 0; i < toks.size (); ++i) s += std::string (i ? "," : "") + "\"" + toks[i] + "\"";
        s += "],\"comps\":[";
        std::string expect = "(";
        for (int i = 0; i < N; ++i) { std::string cs = std::to_string ((long long) v[i]); s += std::string (i ? "," : "") + "\"" + cs + "\""; expect += (i ? " " : "") + cs; }
        s += "],\"text\":\"" + txt + "\",\"joined\":\"" + expect + ")\"}\n";
        fputs (s.c_str (), o);
    }
}

template <class T> static void statics_vec ()
{
    limits<FVec2<T>, T> (2); limits<FVec3<T>, T> (3); limits<FVec4<T>, T> (4);
    fill<FVec2<T>, T> (); fill<FVec3<T>, T> (); fill<FVec4<T>, T> ();
    statics<FVec2<T>, T> (); statics<FVec3<T>, T> (); statics<FVec4<T>, T> ();
    text<FVec2<T>, T> (1); text<FVec3<T>, T> (1); text<FVec4<T>, T> (1);
}
template <class T> static void statics_float ()
{
    statics_vec<T> ();
    limits<FColor3<T>, T> (3); limits<FColor4<T>, T> (4); limits<FShear6<T>, T> (6);
    limits<FM22<T>, T> (2); limits<FM33<T>, T> (3); limits<FM44<T>, T> (4);
    identity<FM22<T>, T> (); identity<FM33<T>, T> (); identity<FM44<T>, T> ();
    fill<FColor3<T>, T> (); fill<FColor4<T>, T> ();
    statics<FColor3<T>, T> (); statics<FColor4<T>, T> (); statics<FShear6<T>, T> (); statics<FQuat<T>, T> ();
    statics<FM22<T>, T> (); statics<FM33<T>, T> (); statics<FM44<T>, T> ();
    tolerant<FVec2<T>, T> (); tolerant<FVec3<T>, T> (); tolerant<FVec4<T>, T> (); tolerant<FShear6<T>, T> ();
    tolerant<FM22<T>, T> (); tolerant<FM33<T>, T> (); tolerant<FM44<T>, T> ();
    text<FColor3<T>, T> (1); text<FColor4<T>, T> (1); text<FShear6<T>, T> (1); text<FQuat<T>, T> (1);
    text<FM22<T>, T> (2); text<FM33<T>, T> (3); text<FM44<T>, T> (4);
}

// ---- foreign-type interoperability: construction / assignment from look-alike types, and the traits that admit them ----
template <class T> struct Fxy { T x, y; };
template <class T> struct Fxyz { T x, y, z; };
template <class T> struct Fxyzw { T x, y, z, w; };
template <class T> struct Fyx { T y, x; };                                  // members in the other order: still addressed by NAME
template <class T, int N> struct FSub { T a[N]; T operator[] (int i) const { return a[i]; } T& operator[] (int i) { return a[i]; } };
template <class T, int N> struct FSub2 { T m[N][N]; const T* operator[] (int i) const { return m[i]; } T* operator[] (int i) { return m[i]; } };
template <class T> struct Fpad { T x, y; T extra; };                        // has .x .y but is too big for a 2-vector

template <class T> static void emit_conv (const char* fam, const T* a, const T* out, int n)
{
    fputs ((std::string ("{\"e\":\"aggconv\",\"fam\":\"") + fam + "\",\"from\":\"" + E<T>::tag () + "\",\"T\":\"" + E<T>::tag () + "\",\"a\":" + jl (a, n) + ",\"out\":" + jl (out, n) + "}\n").c_str (), o);
}
static void emit_trait (const char* trait, const char* members, const char* mt, const char* base, int slots, int want, int sub, int got)
{
    // members: named data members of the foreign type; mt: their type; slots: sizeof(type) / sizeof(base) (-1 if not a multiple);
    // sub: depth of subscripting that yields an mt (0 none, 1, 2); want: the element count asked for
    fprintf (o, "{\"e\":\"aggtrait\",\"fam\":\"%s\",\"T\":\"%s\",\"members\":\"%s\",\"mt\":\"%s\",\"slots\":%d,\"want\":%d,\"sub\":%d,\"got\":%d}\n", trait, base, members, mt, slots, want, sub, got);
}
template <class U, class B> static int slots_of () { return sizeof (U) % sizeof (B) == 0 ? (int) (sizeof (U) / sizeof (B)) : -1; }

template <class T, class O> static void interop ()      // O: another element type, for the negative trait cases
{
    T v[16]; for (int i = 0; i < 16; ++i) v[i] = (T) (3 + 2 * i);
    T w[16];
    { Fxy<T> f{v[0], v[1]}; Vec2<T> a (f); w[0] = a.x; w[1] = a.y; emit_conv ("Vec2<-xy ctor", v, w, 2); Vec2<T> b (T (0), T (0)); b = f; w[0] = b[0]; w[1] = b[1]; emit_conv ("Vec2<-xy assign", v, w, 2); }
    { Fyx<T> f; f.x = v[0]; f.y = v[1]; Vec2<T> a (f); w[0] = a.x; w[1] = a.y; emit_conv ("Vec2<-yx ctor", v, w, 2); Vec2<T> b (T (0), T (0)); b = f; w[0] = b[0]; w[1] = b[1]; emit_conv ("Vec2<-yx assign", v, w, 2); }
    { FSub<T, 2> f{{v[0], v[1]}}; Vec2<T> a (f); w[0] = a.x; w[1] = a.y; emit_conv ("Vec2<-sub ctor", v, w, 2); Vec2<T> b (T (0), T (0)); b = f; w[0] = b[0]; w[1] = b[1]; emit_conv ("Vec2<-sub assign", v, w, 2); }
    { T f[2] = {v[0], v[1]}; Vec2<T> a (f); w[0] = a.x; w[1] = a.y; emit_conv ("Vec2<-carray ctor", v, w, 2); }
    { Fxyz<T> f{v[0], v[1], v[2]}; Vec3<T> a (f); w[0] = a.x; w[1] = a.y; w[2] = a.z; emit_conv ("Vec3<-xyz ctor", v, w, 3); Vec3<T> b (T (0), T (0), T (0)); b = f; w[0] = b[0]; w[1] = b[1]; w[2] = b[2]; emit_conv ("Vec3<-xyz assign", v, w, 3); }
    { FSub<T, 3> f{{v[0], v[1], v[2]}}; Vec3<T> a (f); w[0] = a.x; w[1] = a.y; w[2] = a.z; emit_conv ("Vec3<-sub ctor", v, w, 3); Vec3<T> b (T (0), T (0), T (0)); b = f; w[0] = b[0]; w[1] = b[1]; w[2] = b[2]; emit_conv ("Vec3<-sub assign", v, w, 3); }
    { T f[3] = {v[0], v[1], v[2]}; Vec3<T> a (f); w[0] = a.x; w[1] = a.y; w[2] = a.z; emit_conv ("Vec3<-carray ctor", v, w, 3); }
    { Fxyzw<T> f{v[0], v[1], v[2], v[3]}; Vec4<T> a (f); w[0] = a.x; w[1] = a.y; w[2] = a.z; w[3] = a.w; emit_conv ("Vec4<-xyzw ctor", v, w, 4); Vec4<T> b (T (0), T (0), T (0), T (0)); b = f; for (int i = 0; i < 4; ++i) w[i] = b[i]; emit_conv ("Vec4<-xyzw assign", v, w, 4); }
    { FSub<T, 4> f{{v[0], v[1], v[2], v[3]}}; Vec4<T> a (f); w[0] = a.x; w[1] = a.y; w[2] = a.z; w[3] = a.w; emit_conv ("Vec4<-sub ctor", v, w, 4); Vec4<T> b (T (0), T (0), T (0), T (0)); b = f; for (int i = 0; i < 4; ++i) w[i] = b[i]; emit_conv ("Vec4<-sub assign", v, w, 4); }
    { FSub2<T, 2> f; for (int i = 0; i < 4; ++i) f.m[i / 2][i % 2] = v[i]; Matrix22<T> a (f); for (int i = 0; i < 4; ++i) w[i] = a[i / 2][i % 2]; emit_conv ("M22<-sub2 ctor", v, w, 4); Matrix22<T> b; b = f; for (int i = 0; i < 4; ++i) w[i] = b.getValue ()[i]; emit_conv ("M22<-sub2 assign", v, w, 4); }
    { FSub2<T, 3> f; for (int i = 0; i < 9; ++i) f.m[i / 3][i % 3] = v[i]; Matrix33<T> a (f); for (int i = 0; i < 9; ++i) w[i] = a[i / 3][i % 3]; emit_conv ("M33<-sub2 ctor", v, w, 9); Matrix33<T> b; b = f; for (int i = 0; i < 9; ++i) w[i] = b.getValue ()[i]; emit_conv ("M33<-sub2 assign", v, w, 9); }
    { FSub2<T, 4> f; for (int i = 0; i < 16; ++i) f.m[i / 4][i % 4] = v[i]; Matrix44<T> a (f); for (int i = 0; i < 16; ++i) w[i] = a[i / 4][i % 4]; emit_conv ("M44<-sub2 ctor", v, w, 16); Matrix44<T> b; b = f; for (int i = 0; i < 16; ++i) w[i] = b.getValue ()[i]; emit_conv ("M44<-sub2 assign", v, w, 16); }
    { T f[3][3]; for (int i = 0; i < 9; ++i) f[i / 3][i % 3] = v[i]; Matrix33<T> a (f); for (int i = 0; i < 9; ++i) w[i] = a[i / 3][i % 3]; emit_conv ("M33<-carray ctor", v, w, 9); }
    const char* t = E<T>::tag (); const char* ot = E<O>::tag ();
    typedef FSub<T, 2> S2; typedef FSub<T, 3> S3; typedef FSub<T, 9> S9; typedef FSub<O, 3> SO3; typedef FSub2<T, 3> D3; typedef FSub2<T, 4> D4; typedef FSub2<O, 3> DO3;
    typedef T C3[3]; typedef T C4[4]; typedef T C33[3][3];
#define TR(NAME, VAL, U, MEMBERS, MT, WANT, SUB) emit_trait (NAME, MEMBERS, MT, t, slots_of<U, T> (), WANT, SUB, (int) (VAL))
    TR ("has_xy", (has_xy<Fxy<T>, T>::value), Fxy<T>, "xy", t, 2, 0);
    TR ("has_xy", (has_xy<Fyx<T>, T>::value), Fyx<T>, "xy", t, 2, 0);
    TR ("has_xy", (has_xy<Fxyz<T>, T>::value), Fxyz<T>, "xyz", t, 2, 0);          // right members, wrong size
    TR ("has_xy", (has_xy<Fpad<T>, T>::value), Fpad<T>, "xy", t, 2, 0);
    TR ("has_xy", (has_xy<Fxy<O>, T>::value), Fxy<O>, "xy", ot, 2, 0);            // wrong member type
    TR ("has_xy", (has_xy<S2, T>::value), S2, "", t, 2, 1);
    TR ("has_xyz", (has_xyz<Fxyz<T>, T>::value), Fxyz<T>, "xyz", t, 3, 0);
    TR ("has_xyz", (has_xyz<Fxy<T>, T>::value), Fxy<T>, "xy", t, 3, 0);
    TR ("has_xyz", (has_xyz<Fxyzw<T>, T>::value), Fxyzw<T>, "xyzw", t, 3, 0);
    TR ("has_xyz", (has_xyz<Fxyz<O>, T>::value), Fxyz<O>, "xyz", ot, 3, 0);
    TR ("has_xyzw", (has_xyzw<Fxyzw<T>, T>::value), Fxyzw<T>, "xyzw", t, 4, 0);
    TR ("has_xyzw", (has_xyzw<Fxyz<T>, T>::value), Fxyz<T>, "xyz", t, 4, 0);
    TR ("has_xyzw", (has_xyzw<Fxyzw<O>, T>::value), Fxyzw<O>, "xyzw", ot, 4, 0);
    TR ("has_subscript", (has_subscript<S3, T, 3>::value), S3, "", t, 3, 1);
    TR ("has_subscript", (has_subscript<S3, T, 2>::value), S3, "", t, 2, 1);
    TR ("has_subscript", (has_subscript<S3, T, 4>::value), S3, "", t, 4, 1);
    TR ("has_subscript", (has_subscript<SO3, T, 3>::value), SO3, "", ot, 3, 1);
    TR ("has_subscript", (has_subscript<Fxyz<T>, T, 3>::value), Fxyz<T>, "xyz", t, 3, 0);
    TR ("has_subscript", (has_subscript<C3, T, 3>::value), C3, "", t, 3, 1);
    TR ("has_subscript", (has_subscript<C4, T, 3>::value), C4, "", t, 3, 1);
    TR ("has_double_subscript", (has_double_subscript<D3, T, 3, 3>::value), D3, "", t, 9, 2);
    TR ("has_double_subscript", (has_double_subscript<D3, T, 4, 4>::value), D3, "", t, 16, 2);
    TR ("has_double_subscript", (has_double_subscript<D4, T, 4, 4>::value), D4, "", t, 16, 2);
    TR ("has_double_subscript", (has_double_subscript<DO3, T, 3, 3>::value), DO3, "", ot, 9, 2);
    TR ("has_double_subscript", (has_double_subscript<S9, T, 3, 3>::value), S9, "", t, 9, 1);   // single subscript only
    TR ("has_double_subscript", (has_double_subscript<C33, T, 3, 3>::value), C33, "", t, 9, 2);
#undef TR
}

int main (int argc, char** argv)
{
    std::string mode = argc > 1 ? argv[1] : "static";
    if (mode == "replay") return replay (argv[2]);
    statics_vec<short> (); statics_vec<int> (); statics_vec<int64_t> (); statics_vec<half> ();
    statics<FColor3<unsigned char>, unsigned char> (); statics<FColor4<unsigned char>, unsigned char> ();
    statics<FColor3<half>, half> (); statics<FColor4<half>, half> ();
    limits<FColor3<unsigned char>, unsigned char> (3); limits<FColor4<unsigned char>, unsigned char> (4); limits<FColor4<half>, half> (4);
    fill<FColor3<unsigned char>, unsigned char> (); fill<FColor4<half>, half> ();
    tolerant<FVec3<int>, int> (); tolerant<FVec4<short>, short> ();
    statics_float<float> (); statics_float<double> ();
    text_wide_int<FVec2<short>, short> (); text_wide_int<FVec3<int>, int> (); text_wide_int<FVec4<int64_t>, int64_t> (); text_wide_int<FVec2<int64_t>, int64_t> (); text_wide_int<FVec3<int64_t>, int64_t> ();
    { const double ad[] = {0.5, 1.5, -2.25, 3.0}; const int hi[6] = {4, 8, -12, 16, 20, 100}; mixed_left_scalar<double, int> (ad, 4, hi);
      const double af[] = {0.1, 1.0 / 3.0, 2.5, 1e-3}; const float hf[6] = {1.1f, -2.3f, 3.7f, 0.3f, 1e10f, 7.0f}; mixed_left_scalar<double, float> (af, 4, hf);
      const float ag[] = {0.1f, 3.0f}; const double hd[6] = {1.1, -2.3, 3.7, 0.3, 1e10, 7.0}; mixed_left_scalar<float, double> (ag, 2, hd); }
    interop<float, double> (); interop<double, float> (); interop<int, short> (); interop<short, int> ();
    conv_float<float, double> (); conv_float<double, float> ();
    conv<float, double> (); conv<double, float> (); conv<int, float> (); conv<float, int> (); conv<short, int> (); conv<int, int64_t> (); conv<half, float> (); conv<float, half> (); conv<int64_t, double> ();
    return 0;
}
