// Small helpers shared by the numeric recorders: JSON record builder over raw words.
#ifndef VERIF_VREC_H
#define VERIF_VREC_H
#include "vtrace.h"
#include <ImathVec.h>
#include <ImathMatrix.h>
#include <ImathQuat.h>
#include <string>
#include <vector>
#include <cstdarg>

using namespace IMATH_INTERNAL_NAMESPACE;

struct Rec
{
    std::string s;
    bool        first = true;
    explicit Rec (const char* e) { s = "{\"e\":\""; s += e; s += "\""; }
    void raw (const char* k, const std::string& v) { s += ",\""; s += k; s += "\":"; s += v; }
    void str (const char* k, const char* v) { raw (k, std::string ("\"") + v + "\""); }
    void num (const char* k, long v) { raw (k, std::to_string (v)); }
    void emit (FILE* o = stdout) { s += "}\n"; fputs (s.c_str (), o); }
};

static inline std::string jw (float x)
{
    uint32_t u = vt_fbits (x);
    char     b[48];
    snprintf (b, sizeof b, "[%u,%u]", (unsigned) (u >> 16), (unsigned) (u & 0xffffu));
    return b;
}
static inline std::string jw (double x)
{
    uint64_t u = vt_dbits (x);
    char     b[64];
    snprintf (b, sizeof b, "[%u,%u,%u,%u]", (unsigned) ((u >> 48) & 0xffffu), (unsigned) ((u >> 32) & 0xffffu), (unsigned) ((u >> 16) & 0xffffu),
              (unsigned) (u & 0xffffu));
    return b;
}
template <class T> static std::string jlist (const T* p, int n)
{
    std::string r = "[";
    for (int i = 0; i < n; ++i) { if (i) r += ","; r += jw (p[i]); }
    return r + "]";
}
template <class T> static std::string jv (const Vec2<T>& v) { return jlist (&v.x, 2); }
template <class T> static std::string jv (const Vec3<T>& v) { return jlist (&v.x, 3); }
template <class T> static std::string jv (const Vec4<T>& v) { return jlist (&v.x, 4); }
template <class T> static std::string jv (const Matrix22<T>& m) { return jlist (&m[0][0], 4); }
template <class T> static std::string jv (const Matrix33<T>& m) { return jlist (&m[0][0], 9); }
template <class T> static std::string jv (const Matrix44<T>& m) { return jlist (&m[0][0], 16); }
template <class T> static std::string jv (const Quat<T>& q) { T a[4] = {q.r, q.v.x, q.v.y, q.v.z}; return jlist (a, 4); }
static inline std::string jv (float x) { return "[" + jw (x) + "]"; }
static inline std::string jv (double x) { return "[" + jw (x) + "]"; }

// list of spellings: [{"s":name,"v":[words...]}, ...]
struct Outs
{
    std::string s = "[";
    template <class V> void add (const char* name, const V& v)
    {
        if (s.size () > 1) s += ",";
        s += "{\"s\":\""; s += name; s += "\",\"v\":"; s += jv (v); s += "}";
    }
    std::string done () { return s + "]"; }
};

// value generators -------------------------------------------------------------------------------------
template <class T> struct Gen
{
    VtRng rng;
    explicit Gen (uint64_t seed) : rng (seed) {}
    T smallInt (int lim = 9) { return (T) rng.range (-lim, lim); }
    // dyadic with few significant bits (products stay exact for a while)
    T dyadic ()
    {
        int m = rng.range (-4095, 4095);
        int e = rng.range (-6, 6);
        return (T) std::ldexp ((double) m, e - 10);
    }
    // full-precision value of moderate size
    T full ()
    {
        double x = (double) (int64_t) (rng.next () >> 11) / 9007199254740992.0;   // [0,1)
        x = (x - 0.5) * std::ldexp (1.0, rng.range (-3, 4));
        return (T) x;
    }
    // wide dynamic range
    T wide (int emin, int emax)
    {
        double x = 0.5 + (double) (int64_t) (rng.next () >> 12) / 9007199254740992.0;
        if (rng.below (2)) x = -x;
        return (T) std::ldexp (x, rng.range (emin, emax));
    }
    T pick (int mode)
    {
        switch (mode) { case 0: return smallInt (); case 1: return dyadic (); case 2: return full (); default: return wide (-20, 20); }
    }
};
#endif
