// Recorder for C05: products, transposes, minors, determinants, in every spelling.
//   rec_linalg <seed> <count> [float|double|both]
#include "vrec.h"
#include <ImathMatrixAlgo.h>
#include <cmath>

static const int PRIMES[] = {2, 3, 5, 7, 11, 13, 17, 19, 23, 29, 31, 37, 41, 43, 47, 53, 59, 61, 67, 71, 73, 79, 83, 89, 97, 101, 103, 107, 109, 113, 127, 131};

template <class T, class V> static V fillv (Gen<T>& g, int mode)
{
    V v;
    for (unsigned i = 0; i < V::dimensions (); ++i) v[i] = g.pick (mode);
    return v;
}
template <class T, class M, int N> static M fillm (Gen<T>& g, int mode)
{
    M m;
    for (int i = 0; i < N; ++i) for (int j = 0; j < N; ++j) m[i][j] = g.pick (mode);
    return m;
}
template <class T> static const char* tg () { return vt_tag (T ()); }

template <class T, class V> static void dots (const V& a, const V& b, int n)
{
    Rec r ("la"); r.str ("fn", "dot"); r.str ("t", tg<T> ()); r.num ("n", n); r.raw ("a", jv (a)); r.raw ("b", jv (b));
    Outs o; o.add ("dot", a.dot (b)); o.add ("^", a ^ b); o.add ("rdot", b.dot (a));
    r.raw ("outs", o.done ()); r.emit ();
}
template <class T> static void cross2 (const Vec2<T>& a, const Vec2<T>& b)
{
    Rec r ("la"); r.str ("fn", "cross2"); r.str ("t", tg<T> ()); r.num ("n", 2); r.raw ("a", jv (a)); r.raw ("b", jv (b));
    Outs o; o.add ("cross", a.cross (b)); o.add ("%", a % b);
    r.raw ("outs", o.done ()); r.emit ();
}
template <class T> static void cross3 (const Vec3<T>& a, const Vec3<T>& b)
{
    Rec r ("la"); r.str ("fn", "cross3"); r.str ("t", tg<T> ()); r.num ("n", 3); r.raw ("a", jv (a)); r.raw ("b", jv (b));
    Vec3<T> c = a; c %= b;
    Outs o; o.add ("cross", a.cross (b)); o.add ("%", a % b); o.add ("%=", c);
    r.raw ("outs", o.done ()); r.emit ();
}
template <class T> static void quatmul (const Quat<T>& p, const Quat<T>& q)
{
    Rec r ("la"); r.str ("fn", "quatmul"); r.str ("t", tg<T> ()); r.num ("n", 4); r.raw ("a", jv (p)); r.raw ("b", jv (q));
    Quat<T> c = p; c *= q;
    Outs o; o.add ("*", p * q); o.add ("*=", c);
    r.raw ("outs", o.done ()); r.emit ();
    // self-aliasing:  c *= c  must equal  p * p
    Rec s ("la"); s.str ("fn", "quatmul"); s.str ("t", tg<T> ()); s.num ("n", 4); s.raw ("a", jv (p)); s.raw ("b", jv (p));
    Quat<T> d = p; d *= d;
    Outs o2; o2.add ("*", p * p); o2.add ("*=self", d);
    s.raw ("outs", o2.done ()); s.emit ();
}
template <class T, class M> static void matmul (const M& A, const M& B, int n)
{
    Rec r ("la"); r.str ("fn", "matmul"); r.str ("t", tg<T> ()); r.num ("n", n); r.raw ("a", jv (A)); r.raw ("b", jv (B));
    M C = A; C *= B;
    M S = A; S *= S;
    Outs o; o.add ("*", A * B); o.add ("*=", C);
    r.raw ("outs", o.done ()); r.emit ();
    Rec s ("la"); s.str ("fn", "matmul"); s.str ("t", tg<T> ()); s.num ("n", n); s.raw ("a", jv (A)); s.raw ("b", jv (A));
    Outs o2; o2.add ("*", A * A); o2.add ("*=self", S);
    s.raw ("outs", o2.done ()); s.emit ();
}
template <class T> static void matmul44extra (const Matrix44<T>& A, const Matrix44<T>& B)
{
    Rec r ("la"); r.str ("fn", "matmul"); r.str ("t", tg<T> ()); r.num ("n", 4); r.raw ("a", jv (A)); r.raw ("b", jv (B));
    Matrix44<T> C; Matrix44<T>::multiply (A, B, C);
    // the three-argument form with the result aliasing either operand
    Matrix44<T> Ca = A; Matrix44<T>::multiply (Ca, B, Ca);
    Matrix44<T> Cb = B; Matrix44<T>::multiply (A, Cb, Cb);
    Outs o; o.add ("*", A * B); o.add ("multiply2", Matrix44<T>::multiply (A, B)); o.add ("multiply3", C); o.add ("multiply3-into-a", Ca); o.add ("multiply3-into-b", Cb);
    r.raw ("outs", o.done ()); r.emit ();
    Rec s ("la"); s.str ("fn", "matmul"); s.str ("t", tg<T> ()); s.num ("n", 4); s.raw ("a", jv (A)); s.raw ("b", jv (A));
    Matrix44<T> Cs = A; Matrix44<T>::multiply (Cs, Cs, Cs);
    Outs o2; o2.add ("*", A * A); o2.add ("multiply3-all-aliased", Cs);
    s.raw ("outs", o2.done ()); s.emit ();
}
// plain vector x matrix (no homogeneous divide)
template <class T, class V, class M> static void vecmat (const V& v, const M& A, int n)
{
    Rec r ("la"); r.str ("fn", "vecmat"); r.str ("t", tg<T> ()); r.num ("n", n); r.raw ("a", jv (v)); r.raw ("b", jv (A));
    V c = v; c *= A;
    Outs o; o.add ("*", v * A); o.add ("*=", c);
    r.raw ("outs", o.done ()); r.emit ();
}
// homogeneous: VecN x Matrix(N+1)
template <class T, class V, class M> static void vecmath (const V& v, const M& A, int n)
{
    Rec r ("la"); r.str ("fn", "vecmath"); r.str ("t", tg<T> ()); r.num ("n", n); r.raw ("a", jv (v)); r.raw ("b", jv (A));
    V c = v; c *= A;
    V d; A.multVecMatrix (v, d);
    V e = v; A.multVecMatrix (e, e);           // aliased source and destination
    Outs o; o.add ("*", v * A); o.add ("*=", c); o.add ("multVecMatrix", d); o.add ("multVecMatrix-aliased", e);
    r.raw ("outs", o.done ()); r.emit ();
    Rec s ("la"); s.str ("fn", "dirmat"); s.str ("t", tg<T> ()); s.num ("n", n); s.raw ("a", jv (v)); s.raw ("b", jv (A));
    V f; A.multDirMatrix (v, f);
    V g = v; A.multDirMatrix (g, g);
    Outs o2; o2.add ("multDirMatrix", f); o2.add ("multDirMatrix-aliased", g);
    s.raw ("outs", o2.done ()); s.emit ();
}
template <class T> static void dirmat22 (const Vec2<T>& v, const Matrix22<T>& A)
{
    Rec s ("la"); s.str ("fn", "vecmat"); s.str ("t", tg<T> ()); s.num ("n", 2); s.raw ("a", jv (v)); s.raw ("b", jv (A));
    Vec2<T> f; A.multDirMatrix (v, f);
    Outs o2; o2.add ("*", v * A); o2.add ("multDirMatrix", f);
    s.raw ("outs", o2.done ()); s.emit ();
}
template <class T> static void outers (const Vec3<T>& a3, const Vec3<T>& b3, const Vec4<T>& a4, const Vec4<T>& b4)
{
    { Rec r ("la"); r.str ("fn", "outer"); r.str ("t", tg<T> ()); r.num ("n", 3); r.raw ("a", jv (a3)); r.raw ("b", jv (b3));
      Outs o; o.add ("outerProduct", outerProduct (a3, b3)); r.raw ("outs", o.done ()); r.emit (); }
    { Rec r ("la"); r.str ("fn", "outer"); r.str ("t", tg<T> ()); r.num ("n", 4); r.raw ("a", jv (a4)); r.raw ("b", jv (b4));
      Outs o; o.add ("outerProduct", outerProduct (a4, b4)); r.raw ("outs", o.done ()); r.emit (); }
}
template <class T, class M> static void unary (const M& A, int n)
{
    { Rec r ("la"); r.str ("fn", "transpose"); r.str ("t", tg<T> ()); r.num ("n", n); r.raw ("a", jv (A));
      M B = A; B.transpose ();
      Outs o; o.add ("transposed", A.transposed ()); o.add ("transpose", B); r.raw ("outs", o.done ()); r.emit (); }
    { Rec r ("la"); r.str ("fn", "det"); r.str ("t", tg<T> ()); r.num ("n", n); r.raw ("a", jv (A));
      Outs o; o.add ("determinant", A.determinant ()); r.raw ("outs", o.done ()); r.emit (); }
    { Rec r ("la"); r.str ("fn", "det"); r.str ("t", tg<T> ()); r.num ("n", n); r.raw ("a", jv (A.transposed ()));
      Outs o; o.add ("determinant-of-transposed", A.transposed ().determinant ()); r.raw ("outs", o.done ()); r.emit (); }
    { Rec r ("la"); r.str ("fn", "trace"); r.str ("t", tg<T> ()); r.num ("n", n); r.raw ("a", jv (A));
      Outs o; o.add ("trace", A.trace ()); r.raw ("outs", o.done ()); r.emit (); }
}
template <class T> static void minors33 (const Matrix33<T>& A)
{
    for (int r0 = 0; r0 < 3; ++r0) for (int c0 = 0; c0 < 3; ++c0)
    {
        Rec r ("la"); r.str ("fn", "minor"); r.str ("t", tg<T> ()); r.num ("n", 3); r.num ("r", r0 + 1); r.num ("c", c0 + 1); r.raw ("a", jv (A));
        int ra = r0 == 0 ? 1 : 0, rb = r0 == 2 ? 1 : 2, ca = c0 == 0 ? 1 : 0, cb = c0 == 2 ? 1 : 2;
        Outs o; o.add ("minorOf", A.minorOf (r0, c0)); o.add ("fastMinor", A.fastMinor (ra, rb, ca, cb));
        r.raw ("outs", o.done ()); r.emit ();
    }
}
template <class T> static void minors44 (const Matrix44<T>& A)
{
    for (int r0 = 0; r0 < 4; ++r0) for (int c0 = 0; c0 < 4; ++c0)
    {
        Rec r ("la"); r.str ("fn", "minor"); r.str ("t", tg<T> ()); r.num ("n", 4); r.num ("r", r0 + 1); r.num ("c", c0 + 1); r.raw ("a", jv (A));
        int rr[3], cc[3], k = 0;
        for (int i = 0; i < 4; ++i) if (i != r0) rr[k++] = i;
        k = 0;
        for (int i = 0; i < 4; ++i) if (i != c0) cc[k++] = i;
        Outs o; o.add ("minorOf", A.minorOf (r0, c0)); o.add ("fastMinor", A.fastMinor (rr[0], rr[1], rr[2], cc[0], cc[1], cc[2]));
        r.raw ("outs", o.done ()); r.emit ();
    }
}

template <class T> static void product_det (Gen<T>& g, int mode)
{
    // det(A*B) vs det A, det B: each determinant is logged with the matrix it was computed from
    Matrix33<T> A = fillm<T, Matrix33<T>, 3> (g, mode), B = fillm<T, Matrix33<T>, 3> (g, mode);
    unary<T> (A * B, 3);
    Matrix44<T> C = fillm<T, Matrix44<T>, 4> (g, mode), E = fillm<T, Matrix44<T>, 4> (g, mode);
    unary<T> (C * E, 4);
}

template <class T> static void basis_pairs ()
{
    // a bilinear form is determined by its values on pairs of basis elements (scaled by distinct primes)
    int pi = 0;
    for (int i = 0; i < 4; ++i) for (int j = 0; j < 4; ++j)
    {
        T p = (T) PRIMES[(pi++) % 32], q = (T) PRIMES[(pi++) % 32];
        Vec4<T> a4 (0), b4 (0); a4[i] = p; b4[j] = q;
        dots<T> (a4, b4, 4);
        if (i < 3 && j < 3)
        {
            Vec3<T> a3 (0), b3 (0); a3[i] = p; b3[j] = q;
            dots<T> (a3, b3, 3); cross3<T> (a3, b3);
            outers<T> (a3, b3, a4, b4);
        }
        else { Vec3<T> z (0); outers<T> (z, z, a4, b4); }
        if (i < 2 && j < 2) { Vec2<T> a2 (0), b2 (0); a2[i] = p; b2[j] = q; dots<T> (a2, b2, 2); cross2<T> (a2, b2); }
        Quat<T> qa ((T) 0, (T) 0, (T) 0, (T) 0), qb ((T) 0, (T) 0, (T) 0, (T) 0);
        (i == 0 ? qa.r : qa.v[i - 1]) = p; (j == 0 ? qb.r : qb.v[j - 1]) = q;
        quatmul<T> (qa, qb);
    }
    // matrix units E_ik * E_lj, and e_i * E_kl
    for (int i = 0; i < 4; ++i) for (int k = 0; k < 4; ++k) for (int l = 0; l < 4; ++l)
    {
        T p = (T) PRIMES[(i * 5 + k) % 32], q = (T) PRIMES[(l * 7 + k + 3) % 32];
        Matrix44<T> A, B;
        for (int a = 0; a < 4; ++a) for (int b = 0; b < 4; ++b) { A[a][b] = 0; B[a][b] = 0; }
        A[i][k] = p; B[k][l] = q;
        matmul44extra<T> (A, B);
        Vec4<T> v (0); v[i] = p;
        vecmat<T> (v, B, 4);
        if (i < 3 && k < 3 && l < 3)
        {
            Matrix33<T> A3, B3;
            for (int a = 0; a < 3; ++a) for (int b = 0; b < 3; ++b) { A3[a][b] = 0; B3[a][b] = 0; }
            A3[i][k] = p; B3[k][l] = q;
            matmul<T> (A3, B3, 3);
            Vec3<T> v3 (0); v3[i] = p;
            vecmat<T> (v3, B3, 3);
        }
        if (i < 2 && k < 2 && l < 2)
        {
            Matrix22<T> A2, B2;
            for (int a = 0; a < 2; ++a) for (int b = 0; b < 2; ++b) { A2[a][b] = 0; B2[a][b] = 0; }
            A2[i][k] = p; B2[k][l] = q;
            matmul<T> (A2, B2, 2);
            Vec2<T> v2 (0); v2[i] = p;
            vecmat<T> (v2, B2, 2);
        }
    }
}

static int rng_col (int it);
template <class T> static void randoms (uint64_t seed, int count)
{
    Gen<T> g (seed);
    for (int it = 0; it < count; ++it)
    {
        int mode = it % 4;
        dots<T> (fillv<T, Vec2<T>> (g, mode), fillv<T, Vec2<T>> (g, mode), 2);
        dots<T> (fillv<T, Vec3<T>> (g, mode), fillv<T, Vec3<T>> (g, mode), 3);
        dots<T> (fillv<T, Vec4<T>> (g, mode), fillv<T, Vec4<T>> (g, mode), 4);
        cross2<T> (fillv<T, Vec2<T>> (g, mode), fillv<T, Vec2<T>> (g, mode));
        cross3<T> (fillv<T, Vec3<T>> (g, mode), fillv<T, Vec3<T>> (g, mode));
        Quat<T> p (g.pick (mode), g.pick (mode), g.pick (mode), g.pick (mode)), q (g.pick (mode), g.pick (mode), g.pick (mode), g.pick (mode));
        quatmul<T> (p, q);
        Matrix22<T> A2 = fillm<T, Matrix22<T>, 2> (g, mode), B2 = fillm<T, Matrix22<T>, 2> (g, mode);
        Matrix33<T> A3 = fillm<T, Matrix33<T>, 3> (g, mode), B3 = fillm<T, Matrix33<T>, 3> (g, mode);
        Matrix44<T> A4 = fillm<T, Matrix44<T>, 4> (g, mode), B4 = fillm<T, Matrix44<T>, 4> (g, mode);
        // sparse / affine patterns (zero-skipping branches of the 4x4 determinant; w = 1, 2, 1/4, -1)
        int pat = it % 7;
        if (pat == 1) { A4[0][3] = A4[1][3] = A4[2][3] = 0; A4[3][3] = 1; A3[0][2] = A3[1][2] = 0; A3[2][2] = 1; }
        if (pat == 2) { A4[0][3] = A4[1][3] = A4[2][3] = 0; A4[3][3] = (T) 2; A3[0][2] = A3[1][2] = 0; A3[2][2] = (T) 0.25; }
        if (pat == 3) { A4[0][3] = 0; A4[2][3] = 0; }
        if (pat == 4) { A4[1][3] = 0; A4[3][3] = 0; A3[2][2] = (T) -1; }
        if (pat == 5) { for (int i = 0; i < 4; ++i) A4[i][rng_col (it)] = 0; }
        if (pat == 6)
        {   // graded matrices: one column, one row, or everything far below the rounding unit of the other entries (a weak
            // perspective column, a matrix in tiny units): "small" entries are not zero, every product keeps its weight
            T sc = (T) std::ldexp (1.0, -(20 + ((it / 28) % 4) * 15));
            int which = (it / 7) % 3, k = rng_col (it / 3);
            for (int i = 0; i < 4; ++i) for (int j = 0; j < 4; ++j) if (which == 2 || (which == 0 ? j == k : i == k)) A4[i][j] *= sc;
            for (int i = 0; i < 3; ++i) for (int j = 0; j < 3; ++j) if (which == 2 || (which == 0 ? j == k % 3 : i == k % 3)) A3[i][j] *= sc;
            for (int i = 0; i < 2; ++i) for (int j = 0; j < 2; ++j) if (which == 2 || (which == 0 ? j == k % 2 : i == k % 2)) A2[i][j] *= sc;
        }
        matmul<T> (A2, B2, 2); matmul<T> (A3, B3, 3); matmul<T> (A4, B4, 4); matmul44extra<T> (A4, B4);
        vecmat<T> (fillv<T, Vec2<T>> (g, mode), A2, 2); dirmat22<T> (fillv<T, Vec2<T>> (g, mode), A2);
        vecmat<T> (fillv<T, Vec3<T>> (g, mode), A3, 3);
        vecmat<T> (fillv<T, Vec4<T>> (g, mode), A4, 4);
        vecmath<T> (fillv<T, Vec2<T>> (g, mode), A3, 2);
        vecmath<T> (fillv<T, Vec3<T>> (g, mode), A4, 3);
        outers<T> (fillv<T, Vec3<T>> (g, mode), fillv<T, Vec3<T>> (g, mode), fillv<T, Vec4<T>> (g, mode), fillv<T, Vec4<T>> (g, mode));
        unary<T> (A2, 2); unary<T> (A3, 3); unary<T> (A4, 4);
        if (it % 3 == 0) { minors33<T> (A3); minors44<T> (A4); }
        if (it % 5 == 0) product_det<T> (g, mode);
    }
}
static int rng_col (int it) { return (it / 7) % 4; }

int main (int argc, char** argv)
{
    vt_init ();
    uint64_t seed = argc > 1 ? strtoull (argv[1], 0, 10) : 1;
    int      n    = argc > 2 ? atoi (argv[2]) : 100;
    std::string w = argc > 3 ? argv[3] : "both";
    if (seed % 16 == 1 || n == 0) { if (w != "double") basis_pairs<float> (); if (w != "float") basis_pairs<double> (); }
    if (w != "double") randoms<float> (seed, n);
    if (w != "float") randoms<double> (seed + 1000, n);
    return 0;
}
