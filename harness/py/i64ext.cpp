// A downstream-style extension module that uses the public PyImath C++ API exactly as the imath module does for its own
// classes: it registers FixedArray<int64_t> (an instantiation PyImath exports - add_buffer_protocol and
// fixedArrayFromBuffer are explicitly instantiated for it - but for which the imath module itself registers no class)
// and gives it the buffer protocol.  The C19 recorder then treats "Int64Array" like every other exporting class.
#include <Python.h>
#include <boost/python.hpp>
#include <PyImathFixedArray.h>
#include <PyImathBufferProtocol.h>
#include <cstdint>

namespace PyImath
{
template <> const char* FixedArray<int64_t>::name () { return "Int64Array"; }
}

BOOST_PYTHON_MODULE (vi64)
{
    using namespace PyImath;
    boost::python::class_<FixedArray<int64_t>> c = FixedArray<int64_t>::register_ ("Fixed length array of 64-bit integers");
    add_buffer_protocol (c);
    boost::python::def ("Int64ArrayFromBuffer", &fixedArrayFromBuffer<FixedArray<int64_t>>, boost::python::return_value_policy<boost::python::manage_new_object> ());
}
