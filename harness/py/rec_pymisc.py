"""Recorder for the remaining C19 clauses: buffer protocol (memoryview export, ...ArrayFromBuffer),
FixedArray2D, FixedMatrix, StringArray.  Logs what the real imath module does; PyMiscTrace.tla judges.
usage: rec_pymisc.py <seed> <quick|thorough>"""
import array
import gc
import itertools
import json
import random
import struct
import sys

import imath
try:
    import vi64          # harness/py/i64ext.cpp: FixedArray<int64_t> registered through PyImath's public C++ API
except ImportError:
    vi64 = None


def lookup(name):
    if hasattr(imath, name):
        return getattr(imath, name)
    if vi64 is not None and hasattr(vi64, name):
        return getattr(vi64, name)
    return None

NONE = 99
out = sys.stdout


def emit(d):
    out.write(json.dumps(d) + "\n")


def comps(e):
    if isinstance(e, (int, float)):
        return [e]
    return [e[i] for i in range(len(e))]


def ival(x):
    xi = int(x)
    return xi if xi == x else 77777


# ---- buffer protocol -------------------------------------------------------------------------------
BUF_CLASSES = ["Int64Array", "IntArray", "FloatArray", "DoubleArray", "ShortArray", "UnsignedCharArray",
               "V2iArray", "V2fArray", "V2dArray", "V3iArray", "V3fArray", "V3dArray", "V4iArray", "V4fArray", "V4dArray",
               "V2sArray", "V3sArray", "V4sArray", "V2i64Array", "V3i64Array", "V4i64Array"]


def elem(cname, v):
    base = cname[:-5]
    if cname in ("IntArray", "ShortArray", "UnsignedCharArray", "Int64Array"):
        return v
    if cname in ("FloatArray", "DoubleArray"):
        return float(v)
    cls = getattr(imath, base)
    n = int(base[1])
    return cls(*[v + j for j in range(n)])


def mviews():
    for cname in BUF_CLASSES:
        cls = lookup(cname)
        if cls is None:
            continue
        try:
            memoryview(cls(2))
        except TypeError:
            continue            # this class does not export the buffer protocol at all
        for n in (0, 1, 3, 4):
            for ro in (0, 1):
                a = cls(n)
                for i in range(n):
                    a[i] = elem(cname, 10 * i + 1)
                if ro:
                    a.makeReadOnly()
                elems = [[ival(c) for c in comps(a[i])] for i in range(n)]
                try:
                    mv = memoryview(a)
                except BaseException as e:  # noqa
                    emit({"e": "mview", "cls": cname, "n": n, "exc": 1, "w": len(elems[0]) if elems else 0})
                    continue
                fmt = mv.format
                raw = mv.tobytes()
                isz = mv.itemsize
                cnt = len(raw) // isz if isz else 0
                try:
                    vals = [ival(x) for x in struct.unpack("@%d%s" % (cnt, fmt.lstrip("@<=")), raw[: cnt * isz])]
                except struct.error:
                    vals = [88888]
                del a
                gc.collect()
                junk = [cls(7) for _ in range(16)]
                raw2 = mv.tobytes()
                emit({"e": "mview", "cls": cname, "n": n, "exc": 0, "w": len(comps(elem(cname, 1))), "ndim": mv.ndim, "shape": list(mv.shape),
                      "itemsize": isz, "nbytes": mv.nbytes, "format": fmt.lstrip("@<="), "ro": 1 if mv.readonly else 0, "madero": ro,
                      "vals": vals, "elems": elems, "stable": 1 if raw2 == raw else 0})
                del junk


def mviews_strided():
    """memoryview of a STRIDED array: the component adapters of vector arrays (V3fArray(n).z is a FloatArray of stride 3 that
    shares the vector array's memory).  Same record, same clauses: shape (n,), len = n * itemsize, the n component values."""
    for cname in ("V2fArray", "V3fArray", "V4fArray", "V3dArray", "V2iArray", "V3iArray", "V4dArray", "V3sArray"):
        cls = lookup(cname)
        if cls is None:
            continue
        w = int(cname[1])
        for n in (1, 3, 4):
            for ci, comp in enumerate("xyzw"[:w]):
                a = cls(n)
                for i in range(n):
                    a[i] = elem(cname, 10 * i + 1)
                try:
                    c = getattr(a, comp)
                    mv = memoryview(c)
                except (AttributeError, TypeError):
                    continue
                except BaseException:  # noqa
                    emit({"e": "mview", "cls": type(c).__name__, "n": n, "exc": 1, "w": 1, "strided": cname + "." + comp})
                    continue
                elems = [[ival(c[i])] for i in range(n)]
                fmt = mv.format
                raw = mv.tobytes()
                isz = mv.itemsize
                cnt = len(raw) // isz if isz else 0
                try:
                    vals = [ival(x) for x in struct.unpack("@%d%s" % (cnt, fmt.lstrip("@<=")), raw[: cnt * isz])]
                except struct.error:
                    vals = [88888]
                emit({"e": "mview", "cls": type(c).__name__, "n": n, "exc": 0, "w": 1, "ndim": mv.ndim, "shape": list(mv.shape), "itemsize": isz, "nbytes": mv.nbytes,
                      "format": fmt.lstrip("@<="), "ro": 1 if mv.readonly else 0, "madero": 0, "vals": vals, "elems": elems, "stable": 1, "strided": cname + "." + comp})


def mviews_strided_vectors():
    """Strided VECTOR arrays: Box3fArray(n).max is a V3fArray of stride 2 sharing the box array's memory; its export has
    shape (n, 3) like any V3fArray."""
    for cname, w in (("Box3fArray", 3), ("Box3dArray", 3), ("Box2fArray", 2), ("Box2dArray", 2), ("Box3iArray", 3), ("Box2iArray", 2)):
        cls = lookup(cname)
        if cls is None:
            continue
        for n in (1, 2, 4):
            for comp in ("min", "max"):
                a = cls(n)
                try:
                    c = getattr(a, comp)
                    for i in range(n):
                        c[i] = elem(type(c).__name__, 10 * i + (1 if comp == "min" else 5))
                    mv = memoryview(c)
                except (AttributeError, TypeError):
                    continue
                except BaseException:  # noqa
                    emit({"e": "mview", "cls": type(c).__name__, "n": n, "exc": 1, "w": w, "strided": cname + "." + comp})
                    continue
                elems = [[ival(x) for x in comps(c[i])] for i in range(n)]
                fmt = mv.format
                isz = mv.itemsize
                try:
                    raw = mv.tobytes()
                    cnt = len(raw) // isz if isz else 0
                    vals = [ival(x) for x in struct.unpack("@%d%s" % (cnt, fmt.lstrip("@<=")), raw[: cnt * isz])]
                except (struct.error, BaseException):  # noqa
                    vals = [88888]
                emit({"e": "mview", "cls": type(c).__name__, "n": n, "exc": 0, "w": w, "ndim": mv.ndim, "shape": list(mv.shape), "itemsize": isz, "nbytes": mv.nbytes,
                      "format": fmt.lstrip("@<="), "ro": 1 if mv.readonly else 0, "madero": 0, "vals": vals, "elems": elems, "stable": 1, "strided": cname + "." + comp})


def row_derived_views():
    """Views derived from a matrix row or a variable-array row (a masked reference of the row, an alias made by the copy
    constructor) stay valid when the matrix / variable array they came from is released."""
    import gc
    for cname, acls, conv in (("FloatMatrix", "FloatArray", float), ("IntMatrix", "IntArray", int), ("DoubleMatrix", "DoubleArray", float)):
        cls, A = lookup(cname), lookup(acls)
        if cls is None or A is None:
            continue
        for how in ("mask", "alias", "mask-of-alias"):
            m = cls(3, 4)
            for i in range(3):
                for j in range(4):
                    m[i][j] = conv(10 * i + j + 1)
            mk = imath.IntArray(4)
            for j, b in enumerate((1, 0, 1, 1)):
                mk[j] = b
            row = m[1]
            v = row[mk] if how == "mask" else (A(row) if how == "alias" else A(row)[mk])
            want = [12, 13, 14][0:0] + ([11, 13, 14] if "mask" in how else [11, 12, 13, 14])
            del row
            del m
            gc.collect()
            junk = [cls(3, 4) for _ in range(8)] + [A(16) for _ in range(8)]
            got = [ival(v[i]) for i in range(len(v))]
            del junk
            emit({"e": "rowview", "cls": cname, "how": how, "want": want, "got": got})
    for cname, acls, conv in (("VIntArray", "IntArray", int), ("VFloatArray", "FloatArray", float)):
        cls, A = lookup(cname), lookup(acls)
        if cls is None or A is None:
            continue
        for how in ("mask", "alias"):
            sz = imath.IntArray(3)
            for i in range(3):
                sz[i] = 4
            va = cls(sz, conv(0))
            for i in range(3):
                r_ = va[i]
                for j in range(4):
                    r_[j] = conv(10 * i + j + 1)
            del r_
            mk = imath.IntArray(4)
            for j, b in enumerate((1, 0, 1, 1)):
                mk[j] = b
            row = va[1]
            v = row[mk] if how == "mask" else A(row)
            want = [11, 13, 14] if how == "mask" else [11, 12, 13, 14]
            del row
            del va
            gc.collect()
            junk = [A(16) for _ in range(16)]
            got = [ival(v[i]) for i in range(len(v))]
            del junk
            emit({"e": "rowview", "cls": cname, "how": how, "want": want, "got": got})


def simple_buffer_consumers():
    """A consumer that asks for a plain contiguous buffer (struct.unpack_from, bytes(), binascii, file.readinto) must not be
    handed the memory of a STRIDED array as if it were contiguous: either the request is refused (BufferError) or what the
    consumer sees are the array's own elements."""
    import binascii
    for cname, comp in (("V3fArray", "x"), ("V3fArray", "z"), ("V2dArray", "y"), ("V4fArray", "w"), ("V3iArray", "y")):
        cls = lookup(cname)
        if cls is None:
            continue
        n = 3
        v = cls(n)
        for i in range(n):
            v[i] = elem(cname, 10 * i + 1)
        c = getattr(v, comp)
        want = [ival(c[i]) for i in range(n)]
        fmt = {"FloatArray": "f", "DoubleArray": "d", "IntArray": "i"}[type(c).__name__]
        exc, got = 0, []
        try:
            got = [ival(x) for x in struct.unpack_from("%d%s" % (n, fmt), c)]
        except BaseException:  # noqa
            exc = 1
        emit({"e": "simplebuf", "cls": cname, "comp": comp, "consumer": "struct.unpack_from", "exc": exc, "got": got, "want": want})
        exc, got = 0, []
        try:
            raw = binascii.hexlify(c)
            got = [ival(x) for x in struct.unpack("%d%s" % (n, fmt), binascii.unhexlify(raw)[: n * struct.calcsize(fmt)])]
        except BaseException:  # noqa
            exc = 1
        emit({"e": "simplebuf", "cls": cname, "comp": comp, "consumer": "binascii.hexlify", "exc": exc, "got": got, "want": want})
        # a writer: readinto must not touch the other components
        import io
        before = [[ival(x) for x in comps(v[i])] for i in range(n)]
        exc = 0
        try:
            io.BytesIO(struct.pack("%d%s" % (n, fmt), *[elem(type(c).__name__, 70 + i) for i in range(n)])).readinto(c)
        except BaseException:  # noqa
            exc = 1
        after = [[ival(x) for x in comps(v[i])] for i in range(n)]
        ci = "xyzw".index(comp)
        others_same = all(after[i][j] == before[i][j] for i in range(n) for j in range(len(before[i])) if j != ci)
        emit({"e": "simplebuf", "cls": cname, "comp": comp, "consumer": "readinto", "exc": exc, "got": [after[i][ci] for i in range(n)],
              "want": [70 + i for i in range(n)], "others_same": 1 if others_same else 0})


def masked_components():
    """Component views of a MASKED vector array: v[mask].x holds the x of the selected elements, and writing through it
    reaches exactly those elements."""
    for cname, comps_ in (("V2fArray", "xy"), ("V3fArray", "xyz"), ("V3dArray", "xyz"), ("V4fArray", "xyzw"), ("V3iArray", "xyz")):
        cls = lookup(cname)
        if cls is None:
            continue
        n = 6
        mask = [0, 1, 0, 0, 1, 1]
        for ci, comp in enumerate(comps_):
            v = cls(n)
            for i in range(n):
                v[i] = elem(cname, 10 * i + 1)
            m = imath.IntArray(n)
            for i in range(n):
                m[i] = mask[i]
            try:
                ref = v[m]
                c = getattr(ref, comp)
                got = [ival(c[i]) for i in range(len(c))]
                exc = 0
            except AttributeError:
                continue
            except BaseException:  # noqa
                got, exc = [], 1
            want = [ival(comps(v[i])[ci]) for i in range(n) if mask[i]]
            wrote = []
            if not exc:
                try:
                    c[1] = 99
                    wrote = [i for i in range(n) if ival(comps(v[i])[ci]) == 99]
                except BaseException:  # noqa
                    wrote = [-1]
            emit({"e": "maskcomp", "cls": cname, "comp": comp, "mask": mask, "exc": exc, "out": got, "want_from_elements": want, "wrote": wrote})


def huge_indices():
    """An integer index that does not fit the C index type (2**64, -2**64, 2**63) is out of range like any other: the access
    raises and the array is left alone."""
    for cname in ("IntArray", "FloatArray", "V3fArray", "StringArray", "IntArray2D", "VIntArray", "FloatMatrix"):
        cls = lookup(cname)
        if cls is None:
            continue
        for idx, label in ((2 ** 64, "2**64"), (-2 ** 64, "-2**64"), (2 ** 63, "2**63"), (2 ** 32, "2**32"), (2 ** 32 + 1, "2**32+1"), (-2 ** 63 - 1, "-2**63-1")):
            for op in ("set", "get"):
                try:
                    if cname == "IntArray2D":
                        a = cls(3, 3)
                        snap = lambda: [a.item(x, y) for x in range(3) for y in range(3)]
                        for x in range(3):
                            for y in range(3):
                                a[x, y] = 10 * x + y
                        key, val = (idx, 0), 99
                    elif cname == "VIntArray":
                        sz = imath.IntArray(3)
                        for i in range(3):
                            sz[i] = 2
                        a = cls(sz, 5)
                        snap = lambda: [[a[i][j] for j in range(len(a[i]))] for i in range(len(a))]
                        key, val = idx, imath.IntArray(2)
                    elif cname == "FloatMatrix":
                        a = cls(3, 2)
                        for i in range(3):
                            for j in range(2):
                                a[i][j] = 10 * i + j
                        snap = lambda: [[a[i][j] for j in range(2)] for i in range(3)]
                        key, val = idx, 7.0
                    else:
                        a = cls(3)
                        for i in range(3):
                            a[i] = "s%d" % i if cname == "StringArray" else elem(cname, 10 * i + 1)
                        snap = lambda: [str(a[i]) for i in range(3)]
                        key, val = idx, ("zz" if cname == "StringArray" else elem(cname, 99))
                except BaseException:  # noqa
                    continue
                before = snap()
                exc = 0
                try:
                    if op == "set":
                        a[key] = val
                    else:
                        a[key]
                except BaseException:  # noqa
                    exc = 1
                emit({"e": "hugeidx", "cls": cname, "op": op, "idx": label, "exc": exc, "unchanged": 1 if snap() == before else 0})


FROM = {"Int64ArrayFromBuffer": ("l", 1), "IntArrayFromBuffer": ("i", 1), "FloatArrayFromBuffer": ("f", 1), "DoubleArrayFromBuffer": ("d", 1),
        "V2iArrayFromBuffer": ("i", 2), "V2fArrayFromBuffer": ("f", 2), "V2dArrayFromBuffer": ("d", 2),
        "V3iArrayFromBuffer": ("i", 3), "V3fArrayFromBuffer": ("f", 3), "V3dArrayFromBuffer": ("d", 3),
        "V4iArrayFromBuffer": ("i", 4), "V4fArrayFromBuffer": ("f", 4), "V4dArrayFromBuffer": ("d", 4)}


def frombufs():
    for fn in sorted(FROM):
        f = lookup(fn)
        if f is None:
            continue
        for code in ("b", "B", "h", "H", "i", "I", "l", "q", "f", "d"):
            for (rows, cols) in ((0, 1), (3, 1), (2, 2), (2, 3), (2, 4), (1, 3), (4, 1)):
                n = rows * cols
                vals = [(3 * k + 1) % 100 for k in range(n)]
                src = array.array(code, [float(v) for v in vals] if code in "fd" else vals)
                mv = memoryview(src)
                if cols > 1 or rows == 0:
                    try:
                        mv = mv.cast("B").cast(code, shape=[rows, cols]) if n else mv
                    except (TypeError, ValueError):
                        continue
                exc, res = 0, []
                try:
                    r = f(mv)
                    res = [[ival(c) for c in comps(r[i])] for i in range(len(r))]
                except BaseException as e:  # noqa
                    exc = 1
                emit({"e": "frombuf", "fn": fn, "fmt": code, "itemsize": src.itemsize, "shape": list(mv.shape), "ndim": mv.ndim,
                      "vals": vals, "exc": exc, "out": res, "contig": 1})
                # non-contiguous views of the same memory: every other row, and reversed rows (the view's own elements are `sel`)
                if rows >= 2:
                    for sl, rowidx in ((slice(None, None, 2), list(range(0, rows, 2))), (slice(None, None, -1), list(range(rows - 1, -1, -1)))):
                        try:
                            sv = mv[sl]
                        except (TypeError, ValueError, NotImplementedError):
                            continue
                        sel = []
                        for ri in rowidx:
                            sel += vals[ri * cols:(ri + 1) * cols]
                        exc, res = 0, []
                        try:
                            r = f(sv)
                            res = [[ival(c) for c in comps(r[i])] for i in range(len(r))]
                        except BaseException as e:  # noqa
                            exc = 1
                        emit({"e": "frombuf", "fn": fn, "fmt": code, "itemsize": src.itemsize, "shape": list(sv.shape), "ndim": sv.ndim,
                              "vals": sel, "exc": exc, "out": res, "contig": 1 if sv.c_contiguous else 0})


# ---- FixedArray2D ---------------------------------------------------------------------------------------

def key2(k):
    if isinstance(k, tuple):
        f = lambda x: None if x == NONE else x
        return slice(f(k[0]), f(k[1]), f(k[2]))
    return k


def jkey(k):
    return {"start": k[0], "stop": k[1], "step": k[2]} if isinstance(k, tuple) else k


def arrays2d(rnd, thorough):
    keys = [-4, -3, -2, -1, 0, 1, 2, 3, (NONE, NONE, NONE), (0, 2, NONE), (1, NONE, NONE), (NONE, 2, NONE), (0, 3, 2), (1, 3, 1),
            (2, 1, NONE), (-2, NONE, NONE), (NONE, -1, NONE), (0, 9, NONE), (5, 9, NONE), (NONE, NONE, 2)]
    for cname in ("IntArray2D", "FloatArray2D", "DoubleArray2D"):
        cls = getattr(imath, cname)
        for (nx, ny) in ((1, 1), (2, 3), (3, 2), (3, 3)):
            pairs = list(itertools.product(keys, keys))
            if not thorough:
                pairs = rnd.sample(pairs, 90)
            for (kx, ky) in pairs:
                a = cls(nx, ny)
                for x in range(nx):
                    for y in range(ny):
                        a[x, y] = 10 * x + y + 1
                exc, res, size = 0, [], []
                try:
                    r = a[key2(kx), key2(ky)]
                    size = list(r.size())
                    res = [[ival(r.item(i, j)) for j in range(size[1])] for i in range(size[0])]
                except BaseException as e:  # noqa
                    exc = 1
                emit({"e": "get2d", "cls": cname, "nx": nx, "ny": ny, "kx": jkey(kx), "ky": jkey(ky), "ix": 0 if isinstance(kx, tuple) else 1,
                      "iy": 0 if isinstance(ky, tuple) else 1, "exc": exc, "size": size, "out": res})
                exc = 0
                try:
                    a[key2(kx), key2(ky)] = 7
                except BaseException as e:  # noqa
                    exc = 1
                full = [[ival(a.item(x, y)) for y in range(ny)] for x in range(nx)]
                emit({"e": "set2d", "cls": cname, "nx": nx, "ny": ny, "kx": jkey(kx), "ky": jkey(ky), "ix": 0 if isinstance(kx, tuple) else 1,
                      "iy": 0 if isinstance(ky, tuple) else 1, "exc": exc, "v": 7, "full": full})


def arrays2d_sources(rnd, thorough):
    """a[kx, ky] = <1-D array>: the source is consumed in the array's own storage order (x varies fastest) over the selected
    block; a source of another length raises.  And indices that are not a pair (an int, a slice, a 1- or 3-tuple) raise for
    every kind of source instead of being taken apart as a pair."""
    keys = [-2, -1, 0, 1, 2, (NONE, NONE, NONE), (0, 2, NONE), (1, NONE, NONE), (NONE, 2, NONE), (0, 3, 2), (NONE, NONE, 2), (2, 1, NONE)]
    for cname, acls in (("IntArray2D", "IntArray"), ("FloatArray2D", "FloatArray"), ("DoubleArray2D", "DoubleArray")):
        cls = getattr(imath, cname)
        A = getattr(imath, acls)
        for (nx, ny) in ((2, 2), (2, 3), (3, 2), (4, 3)):
            pairs = list(itertools.product(keys, keys))
            if not thorough:
                pairs = rnd.sample(pairs, 40)
            for (kx, ky) in pairs:
                for delta in (0, 0, 1):
                    a = cls(nx, ny)
                    for x in range(nx):
                        for y in range(ny):
                            a[x, y] = 10 * x + y + 1
                    try:
                        cx = len(range(*key2(kx).indices(nx))) if isinstance(kx, tuple) else 1
                        cy = len(range(*key2(ky).indices(ny))) if isinstance(ky, tuple) else 1
                    except Exception:  # noqa
                        cx = cy = 1
                    m = max(0, cx * cy + delta)
                    src = A(m)
                    for z in range(m):
                        src[z] = 500 + z
                    exc = 0
                    try:
                        a[key2(kx), key2(ky)] = src
                    except BaseException:  # noqa
                        exc = 1
                    full = [[ival(a.item(x, y)) for y in range(ny)] for x in range(nx)]
                    emit({"e": "set2d1", "cls": cname, "nx": nx, "ny": ny, "kx": jkey(kx), "ky": jkey(ky), "ix": 0 if isinstance(kx, tuple) else 1,
                          "iy": 0 if isinstance(ky, tuple) else 1, "srclen": m, "exc": exc, "full": full})
        # malformed indices
        for label, idx in (("int", 0), ("slice", slice(0, 1)), ("tuple1", (0,)), ("tuple3", (0, 0, 0)), ("none", None)):
            for sk in ("scalar", "1d", "2d"):
                a = cls(2, 2)
                for x in range(2):
                    for y in range(2):
                        a[x, y] = 10 * x + y + 1
                val = 7 if sk == "scalar" else (A(4) if sk == "1d" else cls(2, 2))
                exc = 0
                try:
                    a[idx] = val
                except BaseException:  # noqa
                    exc = 1
                full = [[ival(a.item(x, y)) for y in range(2)] for x in range(2)]
                emit({"e": "set2dbad", "cls": cname, "index": label, "src": sk, "exc": exc, "full": full})


def masks2d(rnd, thorough):
    """2-D masked assignment / ifelse / arithmetic: operands must have the same shape, not just the same size."""
    shapes = [(1, 1), (1, 2), (2, 1), (2, 2), (2, 3), (3, 2), (1, 4), (4, 1)]
    for cname in ("IntArray2D", "FloatArray2D", "DoubleArray2D"):
        cls = getattr(imath, cname)
        for (ax, ay) in shapes:
            for (bx, by) in shapes:
                for op in ("setmask", "ifelse", "add"):
                    a = cls(ax, ay)
                    for x in range(ax):
                        for y in range(ay):
                            a[x, y] = 10 * x + y + 1
                    m = imath.IntArray2D(bx, by)
                    mv = [[(x + y) % 2 for y in range(by)] for x in range(bx)]
                    for x in range(bx):
                        for y in range(by):
                            m[x, y] = mv[x][y]
                    b = cls(bx, by)
                    for x in range(bx):
                        for y in range(by):
                            b[x, y] = 100 + 10 * x + y
                    exc, res = 0, []
                    try:
                        if op == "setmask":
                            a[m] = 7
                            r = a
                        elif op == "ifelse":
                            r = a.ifelse(m, 7)
                        else:
                            r = a + b
                        sz = r.size()
                        res = [[ival(r.item(x, y)) for y in range(sz[1])] for x in range(sz[0])]
                    except BaseException as e:  # noqa
                        exc = 1
                    full = [[ival(a.item(x, y)) for y in range(ay)] for x in range(ax)]
                    emit({"e": "mask2d", "cls": cname, "op": op, "ax": ax, "ay": ay, "bx": bx, "by": by, "mask": mv, "exc": exc, "out": res, "a": full})


# ---- FixedMatrix ------------------------------------------------------------------------------------------

def matrices(rnd, thorough):
    keys = [-4, -3, -2, -1, 0, 1, 2, 3, (NONE, NONE, NONE), (0, 2, NONE), (1, NONE, NONE), (NONE, 2, NONE), (0, 3, 2), (2, 1, NONE), (0, 9, NONE)]
    for cname in ("IntMatrix", "FloatMatrix", "DoubleMatrix"):
        cls = getattr(imath, cname)
        for (nr, nc) in ((1, 1), (2, 3), (3, 2)):
            for k in keys:
                m = cls(nr, nc)
                for r in range(nr):
                    for c in range(nc):
                        m[r][c] = 10 * r + c + 1
                exc, rows, kind = 0, [], "row"
                try:
                    sel = m[key2(k)]
                    if isinstance(k, tuple):
                        kind = "rows"
                        rows = [[ival(sel[i][j]) for j in range(sel.columns())] for i in range(sel.rows())]
                    else:
                        # a row is a view: it must stay valid and keep aliasing after the matrix is released
                        del m
                        gc.collect()
                        junk = [cls(3, 3) for _ in range(12)]
                        rows = [[ival(sel[j]) for j in range(len(sel))]]
                        del junk
                except BaseException as e:  # noqa
                    exc = 1
                emit({"e": "mat", "cls": cname, "nr": nr, "nc": nc, "key": jkey(k), "isint": 0 if isinstance(k, tuple) else 1, "exc": exc, "rows": rows})


# ---- StringArray ---------------------------------------------------------------------------------------------

def strings(rnd, thorough):
    pool = ["a", "b", "ab", "", "a", "zz", "b", "longer string", "A"]
    for ep in range(120 if thorough else 30):
        n = rnd.randint(1, 5)
        s = imath.StringArray(n)
        ops = []
        for _ in range(rnd.randint(1, 12)):
            i = rnd.randrange(-n, n)
            v = rnd.choice(pool)
            s[i] = v
            ops.append({"i": i, "v": v})
        emit({"e": "str", "n": n, "ops": ops, "final": [s[i] for i in range(n)], "len": len(s)})


def string_sequences(rnd, thorough):
    """Sequences of stores into one StringArray / WstringArray - scalar, slice, slice <- array, mask, mask <- array (full-length
    and packed) - with source arrays whose string tables were filled in other orders; the contents are read back after every
    operation.  Which positions an operation selects, and what they must hold afterwards, is decided by PyMisc!StrSeqOK."""
    pool = ["a", "b", "ab", "", "zz", "longer string", "A", "foo", "bar"]
    slices = [(NONE, NONE, NONE), (0, 2, NONE), (1, NONE, NONE), (NONE, NONE, 2), (NONE, NONE, -1), (-2, NONE, NONE), (3, 0, -1), (1, 4, 2), (2, 2, NONE)]
    for cname in ("StringArray", "WstringArray"):
        if not hasattr(imath, cname):
            continue
        cls = getattr(imath, cname)

        def source(kind, vals):
            m = len(vals)
            if kind == "fill":
                a = cls(vals[0] if m else "x", m)
                for i in range(m):
                    a[i] = vals[i]
                return a
            if kind == "backwards":                 # interned in the opposite order
                a = cls(m)
                for i in reversed(range(m)):
                    a[i] = vals[i]
                return a
            if kind == "reversed-view":             # derived from another array by a negative-step slice
                b = cls(m)
                for i in range(m):
                    b[i] = vals[m - 1 - i]
                return b[::-1]
            a = cls(m)
            for i in range(m):
                a[i] = vals[i]
            return a

        for ep in range(160 if thorough else 40):
            n = rnd.randint(1, 5)
            fill = rnd.choice(["", "foo", "bar"])
            d = cls(fill, n) if fill else cls(n)
            states = [[d[i] for i in range(n)]]
            ops = []
            for _ in range(rnd.randint(1, 8)):
                k = rnd.choice(["set", "slice", "slicevec", "mask", "maskvec", "maskvec"])
                op = {"k": k}
                exc = 0
                try:
                    if k == "set":
                        op["i"] = rnd.randrange(-n, n); op["v"] = rnd.choice(pool)
                        d[op["i"]] = op["v"]
                    elif k == "slice":
                        sl = rnd.choice(slices); op["key"] = jkey(sl); op["v"] = rnd.choice(pool)
                        d[key2(sl)] = op["v"]
                    elif k == "slicevec":
                        sl = rnd.choice(slices); op["key"] = jkey(sl)
                        want = len(range(*key2(sl).indices(n)))
                        m = want if rnd.random() < 0.8 else rnd.randint(0, n)
                        op["src"] = [rnd.choice(pool) for _ in range(m)]; op["skind"] = rnd.choice(["plain", "fill", "backwards", "reversed-view"])
                        d[key2(sl)] = source(op["skind"], op["src"])
                    else:
                        mk = [rnd.randint(0, 1) for _ in range(n)]
                        op["m"] = mk
                        ma = imath.IntArray(n)
                        for i in range(n):
                            ma[i] = mk[i]
                        if k == "mask":
                            op["v"] = rnd.choice(pool)
                            d[ma] = op["v"]
                        else:
                            r = rnd.random()
                            m = n if r < 0.45 else (sum(mk) if r < 0.9 else rnd.randint(0, n))
                            op["src"] = [rnd.choice(pool) for _ in range(m)]; op["skind"] = rnd.choice(["plain", "fill", "backwards", "reversed-view"])
                            d[ma] = source(op["skind"], op["src"])
                except BaseException:  # noqa
                    exc = 1
                op["exc"] = exc
                ops.append(op)
                states.append([d[i] for i in range(n)])
            emit({"e": "strseq", "cls": cname, "n": n, "ops": ops, "states": states, "len": len(d)})


# ---- FixedVArray (variable-length rows) ----------------------------------------------------------------------

def varrays(rnd, thorough):
    keys = [-4, -3, -2, -1, 0, 1, 2, 3, (NONE, NONE, NONE), (0, 2, NONE), (1, NONE, NONE), (NONE, 2, NONE), (0, 3, 2), (1, 3, 1), (2, 1, NONE),
            (-2, NONE, NONE), (NONE, -1, NONE), (0, 9, NONE), (5, 9, NONE), (NONE, NONE, 2)]
    size_sets = [[2], [0], [1, 3], [2, 2, 2], [3, 0, 1], [1, 2, 3]]
    for cname, acls, conv in (("VIntArray", "IntArray", int), ("VFloatArray", "FloatArray", float)):
        if not hasattr(imath, cname):
            continue
        cls = getattr(imath, cname)
        A = getattr(imath, acls)

        def build(sizes):
            sz = imath.IntArray(len(sizes))
            for i, x in enumerate(sizes):
                sz[i] = x
            v = cls(sz, conv(0))
            for i, x in enumerate(sizes):
                row = v[i]
                for j in range(x):
                    row[j] = conv(10 * i + j + 1)
            return v

        def full(v):
            return [[ival(v[i][j]) for j in range(len(v[i]))] for i in range(len(v))]

        def rowdata(m, base):
            d = A(m)
            for j in range(m):
                d[j] = conv(base + j)
            return d

        for sizes in size_sets:
            n = len(sizes)
            base = {"cls": cname, "sizes": sizes}
            v = build(sizes)
            emit(dict(base, e="varr", op="size", len=len(v), out=[len(v[i]) for i in range(n)], full=full(v)))
            ks = keys if thorough else rnd.sample(keys, 10)
            for k in ks:
                isint = 0 if isinstance(k, tuple) else 1
                # selection
                v = build(sizes)
                exc, rows = 0, []
                try:
                    sel = v[key2(k)]
                    rows = [[ival(sel[i][j]) for j in range(len(sel[i]))] for i in range(len(sel))] if not isint else [[ival(sel[j]) for j in range(len(sel))]]
                except BaseException:  # noqa
                    exc = 1
                emit(dict(base, e="varr", op="get", key=jkey(k), isint=isint, exc=exc, rows=rows))
                # every selected row := one data array (lengths must agree)
                for m in sorted(set(sizes + [1]))[:3]:
                    v = build(sizes)
                    exc = 0
                    try:
                        v[key2(k)] = rowdata(m, 100)
                    except BaseException:  # noqa
                        exc = 1
                    emit(dict(base, e="varr", op="setrow", key=jkey(k), isint=isint, m=m, exc=exc, full=full(v)))
                # selected rows := the rows of another variable array (lengths may change)
                for ds in ([2], [1, 0], [3, 1, 2]):
                    v = build(sizes)
                    d = cls(imath.IntArray(len(ds)), conv(0)) if False else None
                    dsz = imath.IntArray(len(ds))
                    for i, x in enumerate(ds):
                        dsz[i] = x
                    d = cls(dsz, conv(0))
                    for i, x in enumerate(ds):
                        for j in range(x):
                            d[i][j] = conv(200 + 10 * i + j)
                    exc = 0
                    try:
                        v[key2(k)] = d
                    except BaseException:  # noqa
                        exc = 1
                    emit(dict(base, e="varr", op="setvec", key=jkey(k), isint=isint, ds=ds, exc=exc, full=full(v)))
            # a row is a view: it aliases the array and stays valid after the array object is released
            for i in range(-n - 1, n + 1):
                v = build(sizes)
                exc, row, alias = 0, [], 0
                try:
                    r = v[i]
                    if len(r) > 0:
                        r[0] = conv(55)
                        alias = 1 if ival(v[i][0]) == 55 else 0
                    del v
                    gc.collect()
                    junk = [build([4, 4, 4]) for _ in range(8)]
                    row = [ival(r[j]) for j in range(len(r))]
                    del junk
                except BaseException:  # noqa
                    exc = 1
                emit(dict(base, e="varr", op="view", i=i, exc=exc, row=row, alias=alias))
            # masks select rows
            for mk in range(1 << n) if n <= 3 else []:
                v = build(sizes)
                mask = imath.IntArray(n)
                bits = [(mk >> i) & 1 for i in range(n)]
                for i in range(n):
                    mask[i] = bits[i] * (i + 1)
                exc, rows = 0, []
                try:
                    sel = v[mask]
                    rows = [[ival(sel[i][j]) for j in range(len(sel[i]))] for i in range(len(sel))]
                except BaseException:  # noqa
                    exc = 1
                emit(dict(base, e="varr", op="getmask", mask=bits, exc=exc, rows=rows))
            # read-only: nothing writes, everything that tries raises
            v = build(sizes)
            v.makeReadOnly()
            raised, tried = 0, 0
            attempts = []
            if n > 0:
                attempts.append(lambda: v.__setitem__(0, rowdata(sizes[0], 100)))
                attempts.append(lambda: v.__setitem__(slice(None, None, None), build(sizes)))
                if sizes[0] > 0:
                    attempts.append(lambda: v[0].__setitem__(0, conv(9)))
                mask = imath.IntArray(n)
                for i in range(n):
                    mask[i] = 1
                attempts.append(lambda: v.__setitem__(mask, build(sizes)))
            for a in attempts:
                tried += 1
                try:
                    a()
                except BaseException:  # noqa
                    raised += 1
            emit(dict(base, e="varr", op="ro", tried=tried, raised=raised, writable=1 if v.writable() else 0, full=full(v)))


# ---- converting constructors between array classes -------------------------------------------------------------

def conversions(rnd, thorough):
    """DstArray(src) for every pair of array classes the module converts between, with src a plain array, a masked reference
    (selection not a prefix), a read-only array and a masked reference of a read-only array: the result holds the selected
    values, is an independent plain array (writing to it leaves the source alone), and stays intact after the source is
    released."""
    prims = ["IntArray", "FloatArray", "DoubleArray", "ShortArray", "UnsignedCharArray", "Int64Array"]
    vecs = ["V2iArray", "V2fArray", "V2dArray", "V2sArray", "V3iArray", "V3fArray", "V3dArray", "V3sArray", "V4iArray", "V4fArray", "V4dArray", "V4sArray"]
    pairs = [(a, b) for a in prims for b in prims if a != b] + [(a, b) for a in vecs for b in vecs if a != b and a[1] == b[1]]
    for sname, dname in pairs:
        S, D = lookup(sname), lookup(dname)
        if S is None or D is None:
            continue
        for n in (1, 4, 9):
            for kind in ("plain", "masked", "readonly", "masked-readonly"):
                src = S(n)
                vals = [1 + (3 * i + n) % 50 for i in range(n)]
                for i in range(n):
                    src[i] = elem(sname, vals[i])
                mask = [1] * n
                if "readonly" in kind:
                    src.makeReadOnly()
                arg = src
                if kind.startswith("masked"):
                    mask = [(1 if (i * 7 + n) % 3 != 0 else 0) for i in range(n)]
                    if n > 1:
                        mask[0] = 0
                        mask[n - 1] = 1
                    m = imath.IntArray(n)
                    for i in range(n):
                        m[i] = mask[i]
                    arg = src[m]
                try:
                    d = D(arg)
                except (TypeError, Exception) as e:  # noqa
                    if isinstance(e, TypeError) or "did not match" in str(e):
                        break                                   # the module does not convert this pair
                    emit({"e": "conv", "src": sname, "dst": dname, "kind": kind, "vals": vals, "mask": mask, "exc": 1, "out": [], "len": -1, "after": [], "srcafter": []})
                    continue
                first = [ival(comps(d[i])[0]) for i in range(len(d))]
                ln = len(d)
                wrote = 0
                try:
                    if ln:
                        d[0] = elem(dname, 60)
                        wrote = 1
                except Exception:  # noqa
                    pass
                srcafter = [ival(comps(src[i])[0]) for i in range(n)]
                del arg
                del src
                junk = [S(64) for _ in range(4)]
                after = [ival(comps(d[i])[0]) for i in range(len(d))]
                del junk
                emit({"e": "conv", "src": sname, "dst": dname, "kind": kind, "vals": vals, "mask": mask, "exc": 0, "out": first, "len": ln, "wrote": wrote, "after": after, "srcafter": srcafter})


def main():
    seed = int(sys.argv[1])
    thorough = sys.argv[2] == "thorough"
    rnd = random.Random(seed)
    mviews()
    mviews_strided()
    mviews_strided_vectors()
    masked_components()
    row_derived_views()
    simple_buffer_consumers()
    huge_indices()
    frombufs()
    arrays2d(rnd, thorough)
    arrays2d_sources(rnd, thorough)
    masks2d(rnd, thorough)
    matrices(rnd, thorough)
    strings(rnd, thorough)
    string_sequences(rnd, thorough)
    varrays(rnd, thorough)
    conversions(rnd, thorough)


def guarded_main():
    """An exception that escapes from the imath module into this driver (which is written against the documented API and runs
    clean on the unchanged tree) must not look like an infrastructure failure: report it and exit with the code the check
    driver treats like a crash of the code under test (re-run once, then VIOLATION)."""
    import os
    import traceback
    try:
        main()
    except SystemExit:
        raise
    except BaseException:  # noqa
        sys.stdout.flush()
        traceback.print_exc()
        sys.stderr.write("driver terminated by an exception escaping from the module under test\n")
        sys.stderr.flush()
        os._exit(86)


guarded_main()
