// Recorder for C10: quaternion / matrix / axis-angle consistency, setRotation, slerp family, squad/spline.
//   rec_rotation <seed> <count>
#include "vrec.h"
#include <ImathMatrixAlgo.h>
#include <cmath>

template <class T> static const char* tg () { return vt_tag (T ()); }

// exactly (or to rounding) unit quaternions from Pythagorean-like lattice points, plus near-degenerate ones
template <class T> static Quat<T> unitq (Gen<T>& g, int k)
{
    static const int quads[][4] = {{1, 2, 2, 4}, {2, 3, 6, 0}, {1, 4, 8, 0}, {2, 4, 5, 6}, {1, 1, 3, 5}, {2, 2, 1, 0}, {6, 2, 3, 0}, {1, 1, 1, 1}, {0, 0, 3, 4}, {7, 4, 4, 0}};
    int a[4];
    for (int i = 0; i < 4; ++i) a[i] = quads[k % 10][(i + k / 10) % 4] * (g.rng.below (2) ? 1 : -1);
    Quat<T> q ((T) a[0], (T) a[1], (T) a[2], (T) a[3]);
    int mode = (k / 40) % 6;
    if (mode == 1) q.r = (T) std::ldexp (1.0, -(int) g.rng.range (2, 20)) * (g.rng.below (2) ? 1 : -1);           // w near 0
    if (mode == 2) { q.v *= (T) std::ldexp (1.0, -(int) g.rng.range (3, 18)); }                                    // w near +-1
    if (mode == 3) { q = Quat<T> (g.full (), g.full (), g.full (), g.full ()); if (q.length () == 0) q.r = 1; }     // generic
    if (mode == 4) { q.r = 0; }                                                                                    // half turn
    if (mode == 5) { q.v.x *= (T) 1e-3; q.v.y *= (T) 1e-2; }                                                       // |x| < |y| << |z|
    if (q.length () == 0) q = Quat<T> (1, 0, 0, 0);
    return q.normalized ();
}

template <class T> static void consist (Gen<T>& g, int k)
{
    const char* t = tg<T> ();
    Quat<T> q = unitq<T> (g, k), p = unitq<T> (g, k * 7 + 3);
    if (k % 23 == 5) q = Quat<T> (1, 0, 0, 0);                     // exactly the identity: zero vector part (log and exp divide by its length)
    if (k % 23 == 6) p = Quat<T> (1, 0, 0, 0);
    Vec3<T> v (g.pick (k % 3), g.pick (k % 3), g.pick (k % 3));
    {
        Rec r ("rot"); r.str ("t", t); r.raw ("q", jv (q)); r.raw ("v", jv (v));
        r.raw ("rotv", jv (q.rotateVector (v))); r.raw ("vq", jv (v * q)); r.raw ("vm33", jv (v * q.toMatrix33 ())); r.raw ("vm44", jv (v * q.toMatrix44 ()));
        r.raw ("m33", jv (q.toMatrix33 ())); r.raw ("m44", jv (q.toMatrix44 ()));
        r.raw ("inv", jv (q.inverse ())); r.raw ("qinv", jv (q * q.inverse ())); r.raw ("conj", jv (~q));
        { Quat<T> qi = q; Quat<T>& ret = qi.invert (); r.raw ("invert", jv (qi)); r.num ("invself", &ret == &qi); }
        r.raw ("explog", jv (q.log ().exp ()));
        Quat<T> aa; aa.setAxisAngle (q.axis (), q.angle ());
        r.raw ("axisangle", jv (aa));
        r.raw ("extract", jv (extractQuat (q.toMatrix44 ())));
        r.emit ();
    }
    {
        Rec r ("qmul"); r.str ("t", t); r.raw ("q", jv (q)); r.raw ("p", jv (p));
        r.raw ("mq", jv (q.toMatrix33 ())); r.raw ("mp", jv (p.toMatrix33 ())); r.raw ("mqp", jv ((q * p).toMatrix33 ())); r.emit ();
        // the compound spelling, and a quaternion multiplied by itself (operand aliases the destination)
        Quat<T> c = q; c *= p;
        Rec r2 ("qmul"); r2.str ("t", t); r2.raw ("q", jv (q)); r2.raw ("p", jv (p));
        r2.raw ("mq", jv (q.toMatrix33 ())); r2.raw ("mp", jv (p.toMatrix33 ())); r2.raw ("mqp", jv (c.toMatrix33 ())); r2.emit ();
        Quat<T> d = q; d *= d;
        Rec r3 ("qmul"); r3.str ("t", t); r3.raw ("q", jv (q)); r3.raw ("p", jv (q));
        r3.raw ("mq", jv (q.toMatrix33 ())); r3.raw ("mp", jv (q.toMatrix33 ())); r3.raw ("mqp", jv (d.toMatrix33 ())); r3.emit ();
        Quat<T> e = q * q;
        Rec r4 ("qmul"); r4.str ("t", t); r4.raw ("q", jv (q)); r4.raw ("p", jv (q));
        r4.raw ("mq", jv (q.toMatrix33 ())); r4.raw ("mp", jv (q.toMatrix33 ())); r4.raw ("mqp", jv (e.toMatrix33 ())); r4.emit ();
    }
    {
        // axis-angle: Quat and Matrix44 describe the same rotation
        Vec3<T> axis (g.pick (k % 3), g.pick (k % 3), g.pick (k % 3));
        if (axis.length () == 0) axis = Vec3<T> (0, 1, 0);
        if (k % 4 == 0) axis *= (T) 1e8;
        T ang = (T) ((k % 11) * 0.6 - 3.0 + (double) g.full () / 8);
        Quat<T> a; a.setAxisAngle (axis, ang);
        Matrix44<T> m; m.setAxisAngle (axis, ang);
        Rec r ("axang"); r.str ("t", t); r.raw ("axis", jv (axis)); r.raw ("angle", jv (ang)); r.raw ("q", jv (a)); r.raw ("mq", jv (a.toMatrix44 ())); r.raw ("m", jv (m)); r.emit ();
    }
}

template <class T> static void setrot (Gen<T>& g, int k)
{
    const char* t = tg<T> ();
    Vec3<T> from (g.pick (k % 3), g.pick (k % 3), g.pick (k % 3));
    if (from.length () == 0) from = Vec3<T> (1, 2, 3);
    Vec3<T> to;
    int mode = k % 6;
    if (mode == 0) to = Vec3<T> (g.pick (1), g.pick (1), g.pick (1));
    else if (mode == 1) to = from * (T) 2.5;                                     // same direction
    else if (mode == 2) to = -from * (T) 0.5;                                    // exactly opposite
    else
    {   // angle pi - 10^-j
        Vec3<T> perp = from.cross (Vec3<T> (1, 0, 0)); if (perp.length () == 0) perp = from.cross (Vec3<T> (0, 1, 0));
        perp.normalize ();
        double d = std::pow (10.0, -(double) (1 + (k / 6) % 15));
        to = -from.normalized () * (T) std::cos (d) + perp * (T) std::sin (d);
        to *= (T) (1 + (k % 5));
    }
    if (k % 12 == 8)
    {   // exactly opposite along a coordinate axis, both signs, any lengths
        from = Vec3<T> (0, 0, 0); from[(k / 12) % 3] = (T) (((k / 36) % 2) ? -1.0 : 1.0) * (T) (1 + (k / 72) % 3);
        to = -from * (T) (((k / 216) % 2) ? 0.5 : 3.0);
    }
    if (to.length () == 0) to = Vec3<T> (0, 0, 1);
    Quat<T> q; q.setRotation (from, to);
    Rec r ("setrot"); r.str ("t", t); r.raw ("from", jv (from)); r.raw ("to", jv (to)); r.raw ("q", jv (q)); r.raw ("m", jv (rotationMatrix (from, to))); r.emit ();
}

template <class T> static void slerps (Gen<T>& g, int k)
{
    const char* t = tg<T> ();
    Quat<T> a = unitq<T> (g, k), b = unitq<T> (g, k * 5 + 1);
    if (k % 7 == 0) b = -a;                       // antipodal representation of the same rotation
    if (k % 7 == 1) b = a;
    static const double ts[] = {0, 1, 0.5, 0.25, 0.75, 0.125, 0.1, 0.3, 0.5, 0.7, 0.9, 1.1, 1.3, 1.5, -0.1, -0.3, 1.0, 0.2, 0.4, 0.6};
    Rec r ("slerp"); r.str ("t", t); r.raw ("a", jv (a)); r.raw ("b", jv (b));
    std::string s = "[", ss = "[", tl = "[";
    for (int i = 0; i < 20; ++i)
    {
        T tt = (T) ts[i];
        s += (i ? "," : "") + jv (slerp (a, b, tt)); ss += (i ? "," : "") + jv (slerpShortestArc (a, b, tt)); tl += (i ? "," : "") + jw (tt);
    }
    r.raw ("ts", tl + "]"); r.raw ("s", s + "]"); r.raw ("ssa", ss + "]");
    Quat<T> half = slerp (a, b, (T) 0.5);
    r.raw ("quarter2", jv (slerp (a, half, (T) 0.5)));
    // the 4-D inner product and angle (cosine and sine of the returned angle through libm: the spec has no trigonometry)
    { T th = angle4D (a, b); r.raw ("eip", jw (a.euclideanInnerProduct (b))); r.raw ("eipba", jw (b.euclideanInnerProduct (a)));
      r.raw ("a4d", jw (th)); r.raw ("c4d", jw ((T) std::cos (th))); r.raw ("s4d", jw ((T) std::sin (th))); }
    r.emit ();
    // squad / spline through keys
    Quat<T> q0 = unitq<T> (g, k + 11), q1 = a, q2 = b, q3 = unitq<T> (g, k + 13), q4 = unitq<T> (g, k + 17);
    if (k % 2 == 0)
    {   // a tame key sequence: successive keys a moderate rotation apart
        auto step = [&] (const Quat<T>& q) { Quat<T> d ((T) 1, g.full () / 4, g.full () / 4, g.full () / 4); return (q * d.normalized ()).normalized (); };
        q1 = step (q0); q2 = step (q1); q3 = step (q2); q4 = step (q3);
    }
    if (k % 9 == 4) { q1 = q0; q2 = q0; }                           // a held pose: three coincident keys
    if (k % 9 == 5) { q2 = q1; }
    if ((q1 ^ q2) < 0) q2 = -q2;
    if ((q0 ^ q1) < 0) q0 = -q0;
    if ((q2 ^ q3) < 0) q3 = -q3;
    if ((q3 ^ q4) < 0) q4 = -q4;
    Quat<T> qa = intermediate (q0, q1, q2), qb = intermediate (q1, q2, q3);
    const T h = (T) std::ldexp (1.0, sizeof (T) == 4 ? -6 : -12);
    Rec u ("spline"); u.str ("t", t); u.raw ("q0", jv (q0)); u.raw ("q1", jv (q1)); u.raw ("q2", jv (q2)); u.raw ("q3", jv (q3)); u.raw ("q4", jv (q4));
    u.raw ("squad0", jv (squad (q1, qa, qb, q2, (T) 0))); u.raw ("squad1", jv (squad (q1, qa, qb, q2, (T) 1)));
    u.raw ("spline0", jv (spline (q0, q1, q2, q3, (T) 0))); u.raw ("spline1", jv (spline (q0, q1, q2, q3, (T) 1)));
    u.raw ("h", jw (h));
    u.raw ("left", jv (spline (q0, q1, q2, q3, (T) 1 - h))); u.raw ("right", jv (spline (q1, q2, q3, q4, h)));
    u.raw ("next0", jv (spline (q1, q2, q3, q4, (T) 0)));
    u.emit ();
}

int main (int argc, char** argv)
{
    vt_init ();
    uint64_t seed = argc > 1 ? strtoull (argv[1], 0, 10) : 1;
    int      n    = argc > 2 ? atoi (argv[2]) : 50;
    Gen<float> gf (seed); Gen<double> gd (seed + 5);
    for (int k = 0; k < n; ++k)
    {
        int kk = k + (int) (seed % 16) * n;
        consist<float> (gf, kk); consist<double> (gd, kk);
        setrot<float> (gf, kk); setrot<double> (gd, kk);
        slerps<float> (gf, kk); slerps<double> (gd, kk);
    }
    return 0;
}
