// Recorder / replayer for C18 (random generators).
//   rec_rand imath <seed> <episodes>   : interleaved calls of Imath's rand48 family and generator classes
//   rec_rand glibc <seed> <episodes>   : the same interleavings on the C library's functions (validates the spec)
//   rec_rand replay <file>             : replays TLC-generated behaviours (lines: "set s2 s1 s0" | "nrand48" | "erand48")
#include "vtrace.h"
#include <ImathRandom.h>
#include <ImathVec.h>
#include <stdlib.h>
#include <vector>
#include <string>
#include <fstream>
#include <sstream>

using namespace IMATH_INTERNAL_NAMESPACE;

static FILE* o = stdout;

static void st3 (const unsigned short s[3]) { fprintf (o, "[%u,%u,%u]", s[2], s[1], s[0]); }

struct ImathFns
{
    static void     seed (long s) { IMATH_INTERNAL_NAMESPACE::srand48 (s); }
    static long     l () { return IMATH_INTERNAL_NAMESPACE::lrand48 (); }
    static double   d () { return IMATH_INTERNAL_NAMESPACE::drand48 (); }
    static long     n (unsigned short s[3]) { return IMATH_INTERNAL_NAMESPACE::nrand48 (s); }
    static double   e (unsigned short s[3]) { return IMATH_INTERNAL_NAMESPACE::erand48 (s); }
};
struct LibcFns
{
    static void     seed (long s) { ::srand48 (s); }
    static long     l () { return ::lrand48 (); }
    static double   d () { return ::drand48 (); }
    static long     n (unsigned short s[3]) { return ::nrand48 (s); }
    static double   e (unsigned short s[3]) { return ::erand48 (s); }
};

static const unsigned short boundary[][3] = {
    {0, 0, 0}, {1, 0, 0}, {0xffff, 0, 0}, {0, 1, 0}, {0xffff, 0xffff, 0}, {0, 0, 1}, {0xffff, 0xffff, 0xffff},
    {0, 0, 0x8000}, {0xffff, 0xffff, 0x7fff}, {0x330e, 0, 0}, {0x330e, 0xabcd, 0x1234}, {0xaaaa, 0xaaaa, 0xaaaa},
    {0x5555, 0x5555, 0x5555}, {0x00ff, 0x0f0f, 0xf0f0}, {0x330e, 0xffff, 0xffff}, {0xe66d, 0xdeec, 0x0005}};

template <class Fn> static void family (uint64_t seed, int episodes)
{
    VtRng rng (seed);
    // before any seeding: the hidden state starts at zero (as the C library's does)
    { long v = Fn::l (); fprintf (o, "{\"e\":\"lrand48\",\"out\":%ld}\n", v); double w = Fn::d (); fprintf (o, "{\"e\":\"drand48\",\"out\":"); vt_d (o, w); fprintf (o, "}\n"); }
    for (int ep = 0; ep < episodes; ++ep)
    {
        // seeds: boundary-heavy 64-bit values (srand48 must use the low 32 bits only)
        static const uint64_t bs[] = {0, 1, 0xffff, 0x10000, 0x7fffffff, 0x80000000ull, 0xffffffffull, 0x100000000ull,
                                      0x123456789abcdef0ull, 0xffffffffffffffffull, 0x330e, 20260926};
        uint64_t sd = (ep < 12) ? bs[ep] : (rng.next () >> (rng.below (4) * 16));
        Fn::seed ((long) sd);
        fprintf (o, "{\"e\":\"srand48\",\"seed\":");
        vt_w64 (o, sd);
        fprintf (o, "}\n");
        unsigned short st[4][3];
        for (int k = 0; k < 4; ++k)
        {
            if (rng.below (2)) { const unsigned short* b = boundary[rng.below (16)]; st[k][0] = b[0]; st[k][1] = b[1]; st[k][2] = b[2]; }
            else { st[k][0] = (unsigned short) rng.next (); st[k][1] = (unsigned short) rng.next (); st[k][2] = (unsigned short) rng.next (); }
        }
        int steps = 20 + (int) rng.below (30);
        for (int i = 0; i < steps; ++i)
        {
            int which = (int) rng.below (4);
            int k     = (int) rng.below (4);
            if (which == 0) { long v = Fn::l (); fprintf (o, "{\"e\":\"lrand48\",\"out\":%ld}\n", v); }
            else if (which == 1) { double v = Fn::d (); fprintf (o, "{\"e\":\"drand48\",\"out\":"); vt_d (o, v); fprintf (o, "}\n"); }
            else if (which == 2)
            {
                fprintf (o, "{\"e\":\"nrand48\",\"pre\":"); st3 (st[k]);
                long v = Fn::n (st[k]);
                fprintf (o, ",\"post\":"); st3 (st[k]); fprintf (o, ",\"out\":%ld}\n", v);
            }
            else
            {
                fprintf (o, "{\"e\":\"erand48\",\"pre\":"); st3 (st[k]);
                double v = Fn::e (st[k]);
                fprintf (o, ",\"post\":"); st3 (st[k]); fprintf (o, ",\"out\":"); vt_d (o, v); fprintf (o, "}\n");
            }
        }
    }
}

// ---- generator objects -----------------------------------------------------------------------------

static void head (const char* cls, const char* id, int twin, const char* op, const char* t)
{
    fprintf (o, "{\"e\":\"obj\",\"cls\":\"%s\",\"id\":\"%s\",\"twin\":%d,\"op\":\"%s\",\"t\":\"%s\"", cls, id, twin, op, t);
}
static void num (float x) { vt_f (o, x); }
static void num (double x) { vt_d (o, x); }

template <class V> static void vec (const V& v)
{
    fprintf (o, "[");
    for (unsigned i = 0; i < V::dimensions (); ++i) { if (i) fprintf (o, ","); num (v[i]); }
    fprintf (o, "]");
}

template <class R, class F> struct Ops
{
    static void run (const char* cls, const char* id, int twin, uint64_t seed, uint64_t opseed, int nops, const int* fixedOps = 0)
    {
        R g ((unsigned long) seed);
        drive (g, cls, id, twin, opseed, nops, fixedOps);
    }
    // a USED generator re-seeded with init(seed): from there on it must be indistinguishable from a fresh generator(seed).
    // The draws before the re-seeding are logged under <id>_pre; the tail is logged under <id> (so it can be paired with a
    // fresh object's draws, logged as its twin).
    static void rerun (const char* cls, const char* id, int twin, uint64_t preseed, int preops, uint64_t seed, uint64_t opseed, int nops)
    {
        R g ((unsigned long) preseed);
        char pre[48]; snprintf (pre, sizeof pre, "%s_pre", id);
        static const int mix[] = {0, 0, 0, 1, 2, 0, 10, 0, 0, 6, 0, 2, 0, 0, 0, 0, 1, 0, 0, 0, 0, 0, 0, 8, 0, 0, 0, 0, 0, 0, 0, 0, 0, 0, 0, 0, 0, 0, 0, 0};
        drive (g, cls, pre, twin, opseed ^ 0x1234, preops, mix);
        g.init ((unsigned long) seed);
        drive (g, cls, id, twin, opseed, nops, 0);
    }
    static void drive (R& g, const char* cls, const char* id, int twin, uint64_t opseed, int nops, const int* fixedOps)
    {
        const char* t = vt_tag (F ());
        head (cls, id, twin, "init", t); fprintf (o, ",\"out\":0}\n");
        VtRng rng (opseed);
        static const double ranges[][2] = {{0, 1}, {-1, 1}, {-2, 3}, {5, 5}, {3, -2}, {-1e30, 1e30}, {1e-30, 2e-30},
                                           {-3.0e38, 3.0e38}, {0, 3.4028234663852886e38}, {-1, -1}, {1e-45, 2e-45}, {-0.0, 0.0}};
        static const double dranges[][2] = {{-1.7e308, 1.7e308}, {-1.7976931348623157e308, 8.9e307}, {8.9e307, -1.7976931348623157e308}, {0, 1.7976931348623157e308}};
        for (int i = 0; i < nops; ++i)
        {
            switch (fixedOps ? (unsigned) fixedOps[i] : rng.below (12))
            {
                case 0: { int b = g.nextb (); head (cls, id, twin, "nextb", t); fprintf (o, ",\"out\":%d}\n", b); break; }
                case 1: { uint64_t v = (uint64_t) g.nexti (); head (cls, id, twin, "nexti", t); fprintf (o, ",\"out\":"); vt_w64 (o, v); fprintf (o, "}\n"); break; }
                case 2: { F v = g.nextf (); head (cls, id, twin, "nextf", t); fprintf (o, ",\"out\":"); num (v); fprintf (o, "}\n"); break; }
                case 3: case 4: case 5:
                {
                    unsigned k = rng.below (16);
                    F a, b;
                    if (k < 12) { a = (F) ranges[k][0]; b = (F) ranges[k][1]; }
                    else if (sizeof (F) == 8) { a = (F) dranges[k - 12][0]; b = (F) dranges[k - 12][1]; }
                    else { a = (F) ranges[k - 5][0]; b = (F) ranges[k - 5][1]; }
                    F v = g.nextf (a, b);
                    head (cls, id, twin, "nextfr", t);
                    fprintf (o, ",\"a\":"); num (a); fprintf (o, ",\"b\":"); num (b); fprintf (o, ",\"out\":"); num (v); fprintf (o, "}\n");
                    break;
                }
                case 6: { Vec3<float> v = solidSphereRand<Vec3<float>> (g); head (cls, id, twin, "solid", "f"); fprintf (o, ",\"out\":"); vec (v); fprintf (o, "}\n"); break; }
                case 7: { Vec2<double> v = solidSphereRand<Vec2<double>> (g); head (cls, id, twin, "solid", "d"); fprintf (o, ",\"out\":"); vec (v); fprintf (o, "}\n"); break; }
                case 8: { Vec3<double> v = hollowSphereRand<Vec3<double>> (g); head (cls, id, twin, "hollow", "d"); fprintf (o, ",\"out\":"); vec (v); fprintf (o, "}\n"); break; }
                case 9: { Vec4<float> v = hollowSphereRand<Vec4<float>> (g); head (cls, id, twin, "hollow", "f"); fprintf (o, ",\"out\":"); vec (v); fprintf (o, "}\n"); break; }
                case 10: { float v = gaussRand (g); head (cls, id, twin, "gauss", "f"); fprintf (o, ",\"out\":["); num (v); fprintf (o, "]}\n"); break; }
                default: { Vec3<float> v = gaussSphereRand<Vec3<float>> (g); head (cls, id, twin, "gsphere", "f"); fprintf (o, ",\"out\":"); vec (v); fprintf (o, "}\n"); break; }
            }
        }
    }
};

static void objects (uint64_t seed, int episodes)
{
    VtRng rng (seed ^ 0xabcdef);
    static const uint64_t bs[] = {0, 1, 0xffff, 0x10000, 0x7fffffff, 0x80000000ull, 0xffffffffull, 0x5a5a5a5aull, 20260926, 0xa5a573a5ull};
    for (int ep = 0; ep < episodes; ++ep)
    {
        uint64_t sd = ep < 10 ? bs[ep] : rng.next () >> 32;
        uint64_t os = rng.next ();
        int      n  = 12 + (int) rng.below (20);
        char     id[32];
        snprintf (id, sizeof id, "r48_%d", ep);
        Ops<Rand48, double>::run ("Rand48", id, 0, sd, os, n);
        Ops<Rand48, double>::run ("Rand48", id, 1, sd, os, n);
        snprintf (id, sizeof id, "r32_%d", ep);
        Ops<Rand32, float>::run ("Rand32", id, 0, sd, os, n);
        Ops<Rand32, float>::run ("Rand32", id, 1, sd, os, n);
        // re-seeded after 1..40 draws (mostly single bits) from another seed, against a fresh generator
        int pre = 1 + (int) rng.below (40);
        uint64_t other = rng.next () >> 32;
        snprintf (id, sizeof id, "r48re_%d", ep);
        Ops<Rand48, double>::rerun ("Rand48", id, 0, other, pre, sd, os, n);
        Ops<Rand48, double>::run ("Rand48", id, 1, sd, os, n);
        snprintf (id, sizeof id, "r32re_%d", ep);
        Ops<Rand32, float>::rerun ("Rand32", id, 0, other, pre, sd, os, n);
        Ops<Rand32, float>::run ("Rand32", id, 1, sd, os, n);
    }
}

// Directed episodes: generator positions at which nextf() is exactly 0 (the samplers take logarithms and reciprocals of
// their draws).  The seeds are found by search on the generator itself; the samplers are then called right at them.
static void zero_draws ()
{
    static const int first[]  = {10, 2, 11, 6, 9, 2};          // gauss first
    static const int second[] = {2, 10, 11, 6, 9, 2};          // one draw, then gauss
    static const int sphere[] = {11, 10, 6, 9, 2, 2};          // gaussSphere first
    // The positions are found from the integer draw of a twin generator (same seed, same position), so that they do not
    // depend on how nextf() packs its result: all low bits clear -> the smallest draw, all low 24 bits set -> the largest.
    int found = 0, top = 0;
    for (uint64_t sd = 0; sd < (1ull << 28) && (found < 3 || top < 4); ++sd)
    {
        Rand32 twin ((unsigned long) sd);
        unsigned long bits = twin.nexti ();
        if ((bits & 0xffffffUL) == 0xffffffUL && top < 4)
        {
            char id2[32];
            snprintf (id2, sizeof id2, "t32_%d", top);
            static const int draws[] = {2, 2, 5, 10, 6, 2};
            Ops<Rand32, float>::run ("Rand32", id2, 0, sd, 1, 6, draws);
            ++top;
            continue;
        }
        if ((bits & 0x7fffffUL) != 0 || found >= 3) continue;
        char id[32];
        snprintf (id, sizeof id, "z32_%d", found);
        Ops<Rand32, float>::run ("Rand32", id, 0, sd, 1, 6, found == 0 ? first : (found == 1 ? sphere : second));
        ++found;
    }
}

// solidSphereRand: "inside the unit ball" at the resolution of the rejection test itself.  Millions of points are drawn;
// only those within 2^-20 of the sphere are logged (a selection, not a judgement); the specification evaluates the squared
// length exactly as the library's float arithmetic does (this file is compiled with -ffp-contract=off) and requires <= 1.
template <class R, class V> static void ballscan (const char* cls, const char* t, uint64_t seed, long n)
{
    R g ((unsigned long) seed);
    long logged = 0;
    for (long i = 0; i < n; ++i)
    {
        V v = solidSphereRand<V> (g);
        double l2 = 0; for (unsigned k = 0; k < V::dimensions (); ++k) l2 += (double) v[k] * (double) v[k];
        if (l2 < 1.0 - 9.5367431640625e-07) continue;
        if (++logged > 400) break;
        fprintf (o, "{\"e\":\"ballscan\",\"cls\":\"%s\",\"t\":\"%s\",\"seed\":%lu,\"idx\":%ld,\"out\":", cls, t, (unsigned long) seed, i); vec (v); fprintf (o, "}\n");
    }
}
static void ballscans (uint64_t seed, long n)
{
    for (uint64_t s = 0; s < 6; ++s)
    {
        uint64_t sd = seed * 8 + s;
        ballscan<Rand48, Vec3<float>> ("Rand48", "f", sd, n); ballscan<Rand48, Vec4<float>> ("Rand48", "f", sd, n); ballscan<Rand48, Vec2<float>> ("Rand48", "f", sd, n);
        ballscan<Rand32, Vec3<float>> ("Rand32", "f", sd, n); ballscan<Rand48, Vec3<double>> ("Rand48", "d", sd, n / 4);
    }
}

static int replay (const char* path)
{
    std::ifstream in (path);
    std::string   line;
    unsigned short st[3] = {0, 0, 0};
    while (std::getline (in, line))
    {
        std::istringstream ss (line);
        std::string        op;
        ss >> op;
        if (op == "set") { unsigned a, b, c; ss >> a >> b >> c; st[2] = (unsigned short) a; st[1] = (unsigned short) b; st[0] = (unsigned short) c; }
        else if (op == "nrand48")
        {
            fprintf (o, "{\"e\":\"nrand48\",\"pre\":"); st3 (st);
            long v = IMATH_INTERNAL_NAMESPACE::nrand48 (st);
            fprintf (o, ",\"post\":"); st3 (st); fprintf (o, ",\"out\":%ld}\n", v);
        }
        else if (op == "erand48")
        {
            fprintf (o, "{\"e\":\"erand48\",\"pre\":"); st3 (st);
            double v = IMATH_INTERNAL_NAMESPACE::erand48 (st);
            fprintf (o, ",\"post\":"); st3 (st); fprintf (o, ",\"out\":"); vt_d (o, v); fprintf (o, "}\n");
        }
    }
    return 0;
}

int main (int argc, char** argv)
{
    vt_init ();
    std::string mode = argc > 1 ? argv[1] : "imath";
    if (mode == "replay") return replay (argv[2]);
    uint64_t seed = argc > 2 ? strtoull (argv[2], 0, 10) : 1;
    int      eps  = argc > 3 ? atoi (argv[3]) : 20;
    if (mode == "imath") { family<ImathFns> (seed, eps); }
    else if (mode == "glibc") { family<LibcFns> (seed, eps); }
    else if (mode == "objects") { objects (seed, eps); if (seed % 16 == 1) zero_draws (); }
    else if (mode == "ballscan") { ballscans (seed, (long) eps * 1000); }
    else return 2;
    return 0;
}
