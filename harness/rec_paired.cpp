// Recorder for C07 (checked vs unchecked forms): matrix inversion with singExc, matrix decomposition
// functions with an exc flag, Frustum ...Exc methods.  (normalize*/Vec3(Vec4) pairs: rec_vecnorm.)
//   rec_paired <seed> <count>
#include "vrec.h"
#include <ImathMatrixAlgo.h>
#include <ImathFrustum.h>
#include <cmath>
#include <limits>
#include <stdexcept>

template <class T> static const char* tg () { return vt_tag (T ()); }
static const char* excname (const std::exception& e)
{
    if (dynamic_cast<const std::domain_error*> (&e)) return "std::domain_error";
    if (dynamic_cast<const std::invalid_argument*> (&e)) return "std::invalid_argument";
    if (dynamic_cast<const std::logic_error*> (&e)) return "std::logic_error";
    if (dynamic_cast<const std::runtime_error*> (&e)) return "std::runtime_error";
    return "std::exception";
}
static std::string side (const char* exc, int ok, const std::string& v)
{
    return std::string ("{\"exc\":\"") + exc + "\",\"ok\":" + std::to_string (ok) + ",\"v\":" + v + "}";
}
template <class F> static std::string guarded (F f)
{
    try { return f (); }
    catch (const std::exception& e) { return side (excname (e), 0, "[]"); }
}
static std::string cat (std::initializer_list<std::string> parts)
{
    // concatenate JSON lists "[a,b]" "[c]" -> "[a,b,c]"
    std::string r = "[";
    for (const std::string& p : parts)
    {
        if (p.size () <= 2) continue;
        if (r.size () > 1) r += ",";
        r += p.substr (1, p.size () - 2);
    }
    return r + "]";
}

// ---- inversion ---------------------------------------------------------------------------------------
template <class T, class M> static void inv_pairs (const char* fam, const M& m, int n, bool gj)
{
    auto rec = [&] (const char* op, const std::string& u, const std::string& c) {
        Rec r ("pair"); r.str ("op", op); r.str ("t", tg<T> ()); r.num ("n", n); r.str ("fam", fam); r.raw ("m", jv (m)); r.raw ("u", u); r.raw ("c", c); r.emit ();
    };
    rec ("inverse", side ("", 1, jv (m.inverse (false))), guarded ([&] { return side ("", 1, jv (m.inverse (true))); }));
    rec ("invert", side ("", 1, jv ([&] { M c = m; c.invert (false); return c; }())), guarded ([&] { M c = m; c.invert (true); return side ("", 1, jv (c)); }));
    rec ("inverse-noexcept", side ("", 1, jv (m.inverse ())), guarded ([&] { return side ("", 1, jv (m.inverse (true))); }));
}
template <class T, class M> static void gj_pairs (const char* fam, const M& m, int n)
{
    auto rec = [&] (const char* op, const std::string& u, const std::string& c) {
        Rec r ("pair"); r.str ("op", op); r.str ("t", tg<T> ()); r.num ("n", n); r.str ("fam", fam); r.raw ("m", jv (m)); r.raw ("u", u); r.raw ("c", c); r.emit ();
    };
    rec ("gjInverse", side ("", 1, jv (m.gjInverse (false))), guarded ([&] { return side ("", 1, jv (m.gjInverse (true))); }));
    rec ("gjInvert", side ("", 1, jv ([&] { M c = m; c.gjInvert (false); return c; }())), guarded ([&] { M c = m; c.gjInvert (true); return side ("", 1, jv (c)); }));
    rec ("gjInverse-noexcept", side ("", 1, jv (m.gjInverse ())), guarded ([&] { return side ("", 1, jv (m.gjInverse (true))); }));
}
template <class T, class M, int N> static void inv_family (Gen<T>& g, int it)
{
    M m;
    auto fill = [&] (int lim) { for (int i = 0; i < N; ++i) for (int j = 0; j < N; ++j) m[i][j] = (T) g.rng.range (-lim, lim); };
    auto both = [&] (const char* fam) { inv_pairs<T> (fam, m, N, false); };
    fill (3); both ("int");
    for (int i = 0; i < N; ++i) for (int j = 0; j < N; ++j) m[i][j] = g.full () + (i == j ? (T) 2 : 0);
    both ("regular");
    fill (4);
    switch (it % 4)
    {
        case 0: for (int j = 0; j < N; ++j) m[g.rng.below (N)][j] = 0; both ("zero-row"); break;
        case 1: { int c = (int) g.rng.below (N); for (int i = 0; i < N; ++i) m[i][c] = 0; both ("zero-col"); break; }
        case 2: { int a = (int) g.rng.below (N), b = (a + 1) % N; for (int j = 0; j < N; ++j) m[b][j] = m[a][j]; both ("dup-row"); break; }
        default: for (int i = 0; i < N; ++i) for (int j = 0; j < N; ++j) m[i][j] = (i == j) ? (T) 1 : (T) 0; both ("identity"); break;
    }
    // |det| around min * |cofactor|: tiny determinant with ordinary cofactors (affine path guard)
    for (int i = 0; i < N; ++i) for (int j = 0; j < N; ++j) m[i][j] = (i == j) ? (T) 1 : (T) 0;
    int e = std::numeric_limits<T>::min_exponent + g.rng.range (-4, 6);
    m[0][0] = (T) std::ldexp (1.0, e); m[0][1] = (T) 3;
    both ("tiny-det");
    m[0][0] = 0; m[0][1] = 0; m[1][0] = (T) 5; both ("zero-det-affine");
}

// ---- decompositions with an exc flag -------------------------------------------------------------------
template <class T> static Matrix44<T> compose44 (Gen<T>& g, int mode)
{
    Vec3<T> s ((T) g.rng.range (1, 4), (T) g.rng.range (1, 4), (T) g.rng.range (1, 4));
    if (mode == 1) s[g.rng.below (3)] = 0;                                   // exactly zero scale
    if (mode == 2) s[g.rng.below (3)] = (T) std::ldexp (1.0, std::numeric_limits<T>::min_exponent + 2);   // tiny scale
    if (mode == 3) s[g.rng.below (3)] *= -1;                                 // reflection
    Matrix44<T> m;
    m.setScale (s);
    Matrix44<T> r; r.setEulerAngles (Vec3<T> (g.full (), g.full (), g.full ()));
    Matrix44<T> h; h.setShear (Vec3<T> (g.full () / 4, g.full () / 4, g.full () / 4));
    Matrix44<T> t; t.setTranslation (Vec3<T> (g.full (), g.full (), g.full ()));
    Matrix44<T> out = m * h * r * t;
    if (mode == 4) for (int j = 0; j < 3; ++j) out[2][j] = out[0][j] + out[1][j];      // rank deficient
    if (mode == 5) for (int j = 0; j < 3; ++j) out[1][j] = 0;                           // zero row
    return out;
}
template <class T> static void decomp44 (Gen<T>& g, int mode)
{
    Matrix44<T> m = compose44<T> (g, mode);
    static const char* fams[] = {"regular", "zero-scale", "tiny-scale", "reflection", "rank-deficient", "zero-row"};
    auto rec = [&] (const char* op, const std::string& u, const std::string& c) {
        Rec r ("pairb"); r.str ("op", op); r.str ("t", tg<T> ()); r.num ("n", 4); r.str ("fam", fams[mode]); r.raw ("m", jv (m)); r.raw ("u", u); r.raw ("c", c); r.emit ();
    };
    { Vec3<T> s; bool ok = extractScaling (m, s, false);
      rec ("extractScaling", side ("", ok, jv (s)), guarded ([&] { Vec3<T> s2; bool k = extractScaling (m, s2, true); return side ("", k, jv (s2)); })); }
    { Matrix44<T> a = m; bool ok = removeScaling (a, false);
      rec ("removeScaling", side ("", ok, jv (a)), guarded ([&] { Matrix44<T> b = m; bool k = removeScaling (b, true); return side ("", k, jv (b)); })); }
    { Vec3<T> s, h; bool ok = extractScalingAndShear (m, s, h, false);
      rec ("extractScalingAndShear", side ("", ok, cat ({jv (s), jv (h)})), guarded ([&] { Vec3<T> s2, h2; bool k = extractScalingAndShear (m, s2, h2, true); return side ("", k, cat ({jv (s2), jv (h2)})); })); }
    { Matrix44<T> a = m; bool ok = removeScalingAndShear (a, false);
      rec ("removeScalingAndShear", side ("", ok, jv (a)), guarded ([&] { Matrix44<T> b = m; bool k = removeScalingAndShear (b, true); return side ("", k, jv (b)); })); }
    { Matrix44<T> a = m; Vec3<T> s, h; bool ok = extractAndRemoveScalingAndShear (a, s, h, false);
      rec ("extractAndRemoveScalingAndShear", side ("", ok, cat ({jv (a), jv (s), jv (h)})),
           guarded ([&] { Matrix44<T> b = m; Vec3<T> s2, h2; bool k = extractAndRemoveScalingAndShear (b, s2, h2, true); return side ("", k, cat ({jv (b), jv (s2), jv (h2)})); })); }
    { Vec3<T> s, h, r, t; bool ok = extractSHRT (m, s, h, r, t, false);
      rec ("extractSHRT", side ("", ok, cat ({jv (s), jv (h), jv (r), jv (t)})),
           guarded ([&] { Vec3<T> s2, h2, r2, t2; bool k = extractSHRT (m, s2, h2, r2, t2, true); return side ("", k, cat ({jv (s2), jv (h2), jv (r2), jv (t2)})); })); }
    // value-returning wrappers: the unchecked form has no failure indicator
    rec ("sansScaling", side ("", 1, jv (sansScaling (m, false))), guarded ([&] { return side ("", 1, jv (sansScaling (m, true))); }));
    rec ("sansScalingAndShear", side ("", 1, jv (sansScalingAndShear (m, false))), guarded ([&] { return side ("", 1, jv (sansScalingAndShear (m, true))); }));
    { T scl = (mode == 1) ? (T) 0 : (mode == 2 ? (T) std::ldexp (1.0, std::numeric_limits<T>::min_exponent + 1) : (T) 2);
      Vec3<T> row (m[0][0], m[0][1], m[0][2]);
      bool ok = checkForZeroScaleInRow (scl, row, false);
      Rec r ("pairb"); r.str ("op", "checkForZeroScaleInRow"); r.str ("t", tg<T> ()); r.num ("n", 4); r.str ("fam", fams[mode]); r.raw ("m", cat ({jv (scl), jv (row)}));
      r.raw ("u", side ("", ok, "[]")); r.raw ("c", guarded ([&] { bool k = checkForZeroScaleInRow (scl, row, true); return side ("", k, "[]"); })); r.emit (); }
}
template <class T> static void decomp33 (Gen<T>& g, int mode)
{
    Vec2<T> s ((T) g.rng.range (1, 4), (T) g.rng.range (1, 4));
    if (mode == 1) s[g.rng.below (2)] = 0;
    if (mode == 2) s[g.rng.below (2)] = (T) std::ldexp (1.0, std::numeric_limits<T>::min_exponent + 2);
    if (mode == 3) s[g.rng.below (2)] *= -1;
    Matrix33<T> sm, rm, hm, tm;
    sm.setScale (s); rm.setRotation (g.full ()); hm.setShear (g.full () / 4); tm.setTranslation (Vec2<T> (g.full (), g.full ()));
    Matrix33<T> m = sm * hm * rm * tm;
    if (mode == 4 || mode == 5) { m[1][0] = 0; m[1][1] = 0; }
    static const char* fams[] = {"regular", "zero-scale", "tiny-scale", "reflection", "rank-deficient", "zero-row"};
    auto rec = [&] (const char* op, const std::string& u, const std::string& c) {
        Rec r ("pairb"); r.str ("op", op); r.str ("t", tg<T> ()); r.num ("n", 3); r.str ("fam", fams[mode]); r.raw ("m", jv (m)); r.raw ("u", u); r.raw ("c", c); r.emit ();
    };
    { Vec2<T> s1; bool ok = extractScaling (m, s1, false);
      rec ("extractScaling", side ("", ok, jv (s1)), guarded ([&] { Vec2<T> s2; bool k = extractScaling (m, s2, true); return side ("", k, jv (s2)); })); }
    { Matrix33<T> a = m; bool ok = removeScaling (a, false);
      rec ("removeScaling", side ("", ok, jv (a)), guarded ([&] { Matrix33<T> b = m; bool k = removeScaling (b, true); return side ("", k, jv (b)); })); }
    { Vec2<T> s1; T h1; bool ok = extractScalingAndShear (m, s1, h1, false);
      rec ("extractScalingAndShear", side ("", ok, cat ({jv (s1), jv (h1)})), guarded ([&] { Vec2<T> s2; T h2; bool k = extractScalingAndShear (m, s2, h2, true); return side ("", k, cat ({jv (s2), jv (h2)})); })); }
    { Matrix33<T> a = m; bool ok = removeScalingAndShear (a, false);
      rec ("removeScalingAndShear", side ("", ok, jv (a)), guarded ([&] { Matrix33<T> b = m; bool k = removeScalingAndShear (b, true); return side ("", k, jv (b)); })); }
    { Matrix33<T> a = m; Vec2<T> s1; T h1; bool ok = extractAndRemoveScalingAndShear (a, s1, h1, false);
      rec ("extractAndRemoveScalingAndShear", side ("", ok, cat ({jv (a), jv (s1), jv (h1)})),
           guarded ([&] { Matrix33<T> b = m; Vec2<T> s2; T h2; bool k = extractAndRemoveScalingAndShear (b, s2, h2, true); return side ("", k, cat ({jv (b), jv (s2), jv (h2)})); })); }
    { Vec2<T> s1, t1; T h1, r1; bool ok = extractSHRT (m, s1, h1, r1, t1, false);
      rec ("extractSHRT", side ("", ok, cat ({jv (s1), jv (h1), jv (r1), jv (t1)})),
           guarded ([&] { Vec2<T> s2, t2; T h2, r2; bool k = extractSHRT (m, s2, h2, r2, t2, true); return side ("", k, cat ({jv (s2), jv (h2), jv (r2), jv (t2)})); })); }
    rec ("sansScaling", side ("", 1, jv (sansScaling (m, false))), guarded ([&] { return side ("", 1, jv (sansScaling (m, true))); }));
    rec ("sansScalingAndShear", side ("", 1, jv (sansScalingAndShear (m, false))), guarded ([&] { return side ("", 1, jv (sansScalingAndShear (m, true))); }));
}

// ---- Frustum ...Exc ---------------------------------------------------------------------------------------
template <class T> static std::string fstate (const Frustum<T>& f)
{
    T a[7] = {f.nearPlane (), f.farPlane (), f.left (), f.right (), f.top (), f.bottom (), (T) (f.orthographic () ? 1 : 0)};
    return jlist (a, 7);
}
// localToScreen / localToScreenExc are protected: reached the way a client subclass reaches them
template <class T> struct FrP : public Frustum<T>
{
    FrP (const Frustum<T>& f) : Frustum<T> (f) {}
    Vec2<T> l2s (const Vec2<T>& p) const { return this->localToScreen (p); }
    Vec2<T> l2sExc (const Vec2<T>& p) const { return this->localToScreenExc (p); }
};
template <class T> static void frusta (Gen<T>& g, int it)
{
    const T big = std::numeric_limits<T>::max ();
    const T tiny = std::numeric_limits<T>::min ();
    // widths from 0 up: right-left, top-bottom, far-near
    const T ds[] = {0, std::numeric_limits<T>::denorm_min (), tiny, (T) 1e-30, (T) 1e-6, (T) 0.5, 1, 2, (T) 1e6};
    T dx = ds[g.rng.below (9)], dy = ds[g.rng.below (9)], dz = ds[(it % 3) ? 6 + g.rng.below (3) : g.rng.below (9)];
    T cx = (it % 4 == 0) ? (T) 0 : g.full (), cy = (it % 4 == 1) ? (T) 0 : g.full ();
    T nr = (it % 5 == 0) ? (T) std::ldexp (1.0, g.rng.range (-40, 40)) : (T) (0.5 + std::fabs ((double) g.full ()));
    bool ortho = it % 2;
    Frustum<T> f (nr, nr + dz, cx - dx / 2, cx + dx / 2, cy + dy / 2, cy - dy / 2, ortho);
    auto rec = [&] (const char* op, const std::string& arg, const std::string& u, const std::string& c) {
        Rec r ("pairf"); r.str ("op", op); r.str ("t", tg<T> ()); r.num ("n", 0); r.str ("fam", ortho ? "ortho" : "persp"); r.raw ("m", cat ({fstate (f), arg})); r.raw ("u", u); r.raw ("c", c); r.emit ();
    };
    rec ("aspect", "[]", side ("", 1, jv (f.aspect ())), guarded ([&] { return side ("", 1, jv (f.aspectExc ())); }));
    rec ("projectionMatrix", "[]", side ("", 1, jv (f.projectionMatrix ())), guarded ([&] { return side ("", 1, jv (f.projectionMatrixExc ())); }));
    Vec3<T> p (g.full (), g.full (), (it % 7 == 0) ? (T) 0 : (it % 7 == 1 ? -tiny : -(T) (1 + std::fabs ((double) g.full ()))));
    rec ("projectPointToScreen", jv (p), side ("", 1, jv (f.projectPointToScreen (p))), guarded ([&] { return side ("", 1, jv (f.projectPointToScreenExc (p))); }));
    { FrP<T> fp (f); Vec2<T> lp (g.full (), (it % 6 == 0) ? cy : g.full ());
      rec ("localToScreen", jv (lp), side ("", 1, jv (fp.l2s (lp))), guarded ([&] { return side ("", 1, jv (fp.l2sExc (lp))); })); }
    T zn = (T) ((it % 3 == 0) ? 1.0 : (double) g.full ());
    rec ("normalizedZToDepth", jv (zn), side ("", 1, jv (f.normalizedZToDepth (zn))), guarded ([&] { return side ("", 1, jv (f.normalizedZToDepthExc (zn))); }));
    long zi = g.rng.range (0, 1000);
    rec ("ZToDepth", jv ((T) zi), side ("", 1, jv (f.ZToDepth (zi, 0, 1000))), guarded ([&] { return side ("", 1, jv (f.ZToDepthExc (zi, 0, 1000))); }));
    {
        // other integer z ranges, up to spans that do not fit an int (both forms must still agree bit for bit)
        static const long zr[6][2] = {{-100, 923}, {0, 65535}, {0, 16777215}, {0, 2147483647L}, {0, 3000000000L}, {-2147483647L - 1, 2147483647L}};
        const long* zz = zr[(it / 2) % 6];
        long zv = zz[0] + (long) ((double) (zz[1] - zz[0]) * (double) g.rng.range (0, 16) / 16.0);
        T za[3] = {(T) zv, (T) zz[0], (T) zz[1]};
        rec ("ZToDepth", jlist (za, 3), side ("", 1, jv (f.ZToDepth (zv, zz[0], zz[1]))), guarded ([&] { return side ("", 1, jv (f.ZToDepthExc (zv, zz[0], zz[1]))); }));
        T dd = -(T) (nr + (double) dz * (double) g.rng.range (1, 15) / 16.0);
        T da[3] = {dd, (T) zz[0], (T) zz[1]};
        rec ("DepthToZ", jlist (da, 3), side ("", 1, jv ((T) f.DepthToZ (dd, zz[0], zz[1]))), guarded ([&] { return side ("", 1, jv ((T) f.DepthToZExc (dd, zz[0], zz[1]))); }));
    }
    T depth = (it % 6 == 0) ? (T) 0 : (it % 6 == 1 ? -tiny : -(T) (nr + std::fabs ((double) g.full ())));
    rec ("DepthToZ", jv (depth), side ("", 1, jv ((T) f.DepthToZ (depth, 0, 1000))), guarded ([&] { return side ("", 1, jv ((T) f.DepthToZExc (depth, 0, 1000))); }));
    T rad = (T) std::fabs ((double) g.full ());
    rec ("worldRadius", cat ({jv (p), jv (rad)}), side ("", 1, jv (f.worldRadius (p, rad))), guarded ([&] { return side ("", 1, jv (f.worldRadiusExc (p, rad))); }));
    rec ("screenRadius", cat ({jv (p), jv (rad)}), side ("", 1, jv (f.screenRadius (p, rad))), guarded ([&] { return side ("", 1, jv (f.screenRadiusExc (p, rad))); }));
    // set(near, far, fovx, fovy, aspect) vs setExc
    {
        T fovx = (it % 2) ? (T) 0 : (T) (0.2 + std::fabs ((double) g.full ()) / 4), fovy = (it % 2) ? (T) (0.2 + std::fabs ((double) g.full ()) / 4) : (T) 0;
        const T as[] = {0, tiny, (T) 1e-20, (T) 0.75, 1, (T) (4.0 / 3.0), (T) 1e20, big};
        const T nears[] = {std::numeric_limits<T>::denorm_min (), tiny, (T) 1e-10, 1, (T) 1e10, big / 4, big};
        T aspect = as[g.rng.below (8)], nearp = nears[g.rng.below (7)];
        Frustum<T> a, b;
        a.set (nearp, nearp * 2, fovx, fovy, aspect);
        T args[5] = {nearp, nearp * 2, fovx, fovy, aspect};
        Rec r ("pairf"); r.str ("op", "set"); r.str ("t", tg<T> ()); r.num ("n", 0); r.str ("fam", "fov"); r.raw ("m", jlist (args, 5));
        r.raw ("u", side ("", 1, fstate (a)));
        r.raw ("c", guarded ([&] { b.setExc (nearp, nearp * 2, fovx, fovy, aspect); return side ("", 1, fstate (b)); })); r.emit ();
    }
}

template <class T> static void all (uint64_t seed, int count)
{
    Gen<T> g (seed);
    for (int it = 0; it < count; ++it)
    {
        inv_family<T, Matrix22<T>, 2> (g, it);
        inv_family<T, Matrix33<T>, 3> (g, it);
        inv_family<T, Matrix44<T>, 4> (g, it);
        { Matrix33<T> m; for (int i = 0; i < 3; ++i) for (int j = 0; j < 3; ++j) m[i][j] = (T) g.rng.range (-3, 3); if (it % 3 == 0) for (int j = 0; j < 3; ++j) m[2][j] = m[0][j]; gj_pairs<T> (it % 3 ? "int" : "dup-row", m, 3); }
        { Matrix44<T> m; for (int i = 0; i < 4; ++i) for (int j = 0; j < 4; ++j) m[i][j] = (T) g.rng.range (-3, 3); if (it % 3 == 1) for (int j = 0; j < 4; ++j) m[1][j] = 0; gj_pairs<T> (it % 3 == 1 ? "zero-row" : "int", m, 4); }
        for (int mode = 0; mode < 6; ++mode) { decomp44<T> (g, mode); decomp33<T> (g, mode); }
        for (int k = 0; k < 12; ++k) frusta<T> (g, it * 12 + k);
    }
}

int main (int argc, char** argv)
{
    vt_init ();
    uint64_t seed = argc > 1 ? strtoull (argv[1], 0, 10) : 1;
    int      n    = argc > 2 ? atoi (argv[2]) : 2;
    all<float> (seed, n);
    all<double> (seed + 31, n);
    return 0;
}
