// Recorder for C12: matrix factorisations recompose to their input with structured factors.
//   rec_factor <seed> <count>
#include "vrec.h"
#include <ImathMatrixAlgo.h>
#include <ImathEuler.h>
#include <cmath>
#include <vector>
#include <stdexcept>

template <class T> static const char* tg () { return vt_tag (T ()); }

template <class T> static Matrix44<T> compose44 (Gen<T>& g, int mode, Vec3<T>& s, Vec3<T>& h, Vec3<T>& r, Vec3<T>& t)
{
    s = Vec3<T> ((T) (0.5 + std::fabs ((double) g.full ()) * 2), (T) (0.5 + std::fabs ((double) g.full ()) * 2), (T) (0.5 + std::fabs ((double) g.full ()) * 2));
    if (mode == 1) s[g.rng.below (3)] *= -1;                                           // reflection
    if (mode == 2) { s.x *= -1; s.y *= -1; }                                            // two negative scales
    if (mode == 3) s[g.rng.below (3)] = (T) std::ldexp (1.0, -(int) g.rng.range (4, 12));   // small scale
    if (mode == 4) s[g.rng.below (3)] = 0;                                              // degenerate
    h = Vec3<T> (g.full () / 2, g.full () / 2, g.full () / 2);
    r = Vec3<T> (g.full () * 3, g.full (), g.full () * 3);
    t = Vec3<T> (g.full () * 4, g.full () * 4, g.full () * 4);                          // non-zero translation AND rotation: factor order matters
    Matrix44<T> S, H, R, Tm;
    S.setScale (s); H.setShear (h); R.setEulerAngles (r); Tm.setTranslation (t);
    return S * H * R * Tm;
}

template <class T> static void shrt44 (Gen<T>& g, int it)
{
    const char* t = tg<T> ();
    int mode = it % 5;
    Vec3<T> s0, h0, r0, t0;
    Matrix44<T> M = compose44<T> (g, mode, s0, h0, r0, t0);
    // the whole linear block at a magnitude whose squares overflow / underflow (an exact power of two: the scale factor only)
    if (mode < 4 && it % 15 >= 10) { T k = (T) std::ldexp (1.0, (it % 15 < 13 ? 1 : -1) * (sizeof (T) == 4 ? 70 : 520)); for (int i = 0; i < 3; ++i) for (int j = 0; j < 3; ++j) M[i][j] *= k; }
    if (it % 20 == 7)
    {   // exactly singular WITHOUT a zero row: the third row repeats the first (small integers, so nothing is rounded away);
        // logged as mode 4: degenerate, to be reported by every entry point
        mode = 4;
        for (int i = 0; i < 3; ++i) for (int j = 0; j < 3; ++j) M[i][j] = (T) g.rng.range (-4, 4);
        if (M[0][0] == 0 && M[0][1] == 0 && M[0][2] == 0) M[0][0] = 1;
        if (M[1][0] == 0 && M[1][1] == 0 && M[1][2] == 0) M[1][1] = 2;
        for (int j = 0; j < 3; ++j) M[2][j] = M[0][j];
    }
    Vec3<T> s, h, r, tr;
    bool ok = extractSHRT (M, s, h, r, tr, false);
    Matrix44<T> S, H, R, Tm;
    S.setScale (s); H.setShear (h); R.setEulerAngles (r); Tm.setTranslation (tr);
    Vec3<T> s2; bool ok2 = extractScaling (M, s2, false);
    Vec3<T> s3, h3; bool ok3 = extractScalingAndShear (M, s3, h3, false);
    Matrix44<T> rem = M; Vec3<T> s4, h4; bool ok4 = extractAndRemoveScalingAndShear (rem, s4, h4, false);
    Matrix44<T> ss = sansScaling (M, false); Matrix44<T> rs = M; bool ok5 = removeScaling (rs, false);
    Matrix44<T> sss = sansScalingAndShear (M, false); Matrix44<T> rss = M; bool ok6 = removeScalingAndShear (rss, false);
    int thrown = 0;
    { Vec3<T> a, c; Vec3<T> b; Matrix44<T> mm = M;
      try { extractScaling (M, a, true); } catch (std::domain_error&) { ++thrown; }
      try { extractScalingAndShear (M, a, b, true); } catch (std::domain_error&) { ++thrown; }
      try { mm = M; extractAndRemoveScalingAndShear (mm, a, b, true); } catch (std::domain_error&) { ++thrown; }
      try { sansScaling (M, true); } catch (std::domain_error&) { ++thrown; }
      try { mm = M; removeScaling (mm, true); } catch (std::domain_error&) { ++thrown; }
      try { sansScalingAndShear (M, true); } catch (std::domain_error&) { ++thrown; }
      try { mm = M; removeScalingAndShear (mm, true); } catch (std::domain_error&) { ++thrown; }
      try { Vec3<T> rr; extractSHRT (M, a, b, rr, c, true); } catch (std::domain_error&) { ++thrown; } }
    Rec rec ("shrt"); rec.str ("t", t); rec.num ("n", 4); rec.num ("thrown", thrown); rec.num ("mode", mode); rec.raw ("m", jv (M));
    rec.num ("ok", ok); rec.raw ("s", jv (s)); rec.raw ("h", jv (h)); rec.raw ("r", jv (r)); rec.raw ("tr", jv (tr));
    rec.raw ("S", jv (S)); rec.raw ("H", jv (H)); rec.raw ("R", jv (R)); rec.raw ("T", jv (Tm));
    rec.num ("ok2", ok2); rec.raw ("s2", jv (s2)); rec.num ("ok3", ok3); rec.raw ("s3", jv (s3)); rec.raw ("h3", jv (h3));
    rec.num ("ok4", ok4); rec.raw ("s4", jv (s4)); rec.raw ("h4", jv (h4)); rec.raw ("rem", jv (rem));
    rec.raw ("sans", jv (ss)); rec.num ("ok5", ok5); rec.raw ("removed", jv (rs));
    rec.raw ("sans2", jv (sss)); rec.num ("ok6", ok6); rec.raw ("removed2", jv (rss));
    rec.emit ();
    if (mode == 4)
    {
        Matrix44<T> I4; int th = 0;
        try { computeRSMatrix (true, true, M, I4); } catch (std::domain_error&) { ++th; }
        try { computeRSMatrix (false, false, I4, M); } catch (std::domain_error&) { ++th; }
        Rec q ("rsdeg"); q.str ("t", t); q.num ("thrown", th); q.emit ();
    }
    if (mode < 4)
    {
        // extractSHRT with an explicit rotation order: the angles come back in x, y, z slots for that order
        static const typename Euler<T>::Order orders[] = {Euler<T>::YZX, Euler<T>::ZXY, Euler<T>::XZY, Euler<T>::YXZ, Euler<T>::ZYX, Euler<T>::XYZ};
        typename Euler<T>::Order ord = orders[(it / 5) % 6];
        Vec3<T> so, ho, ro, to;
        bool oko = extractSHRT (M, so, ho, ro, to, false, ord);
        Euler<T> eo (M, ord); Vec3<T> s5, h5, t5;
        bool oke = extractSHRT (M, s5, h5, eo, t5, false);
        Matrix44<T> So, Ho, Ro, To, Re;
        So.setScale (so); Ho.setShear (ho); To.setTranslation (to);
        Ro = Euler<T> (ro, ord, Euler<T>::XYZLayout).toMatrix44 ();
        Re = eo.toMatrix44 ();
        Rec q ("shrto"); q.str ("t", t); q.num ("n", 4); q.num ("order", (int) ord); q.num ("ok", oko); q.num ("oke", oke); q.raw ("m", jv (M));
        q.raw ("S", jv (So)); q.raw ("H", jv (Ho)); q.raw ("R", jv (Ro)); q.raw ("T", jv (To)); q.raw ("Re", jv (Re));
        q.raw ("s", jv (so)); q.raw ("s5", jv (s5)); q.raw ("h", jv (ho)); q.raw ("h5", jv (h5)); q.emit ();
    }
    if (mode < 4 && it % 3 == 0)
    {
        Vec3<T> sb, hb, rb, tb;
        Matrix44<T> Bm = compose44<T> (g, (it / 3) % 3, sb, hb, rb, tb);
        for (int f = 0; f < 4; ++f)
        {
            Matrix44<T> C = computeRSMatrix ((f & 1) != 0, (f & 2) != 0, M, Bm);
            Vec3<T> as, ah, ar, at, bs, bh, br, bt;
            extractSHRT (M, as, ah, ar, at); extractSHRT (Bm, bs, bh, br, bt);
            Matrix44<T> Sx, Rx, Tx;
            Sx.setScale ((f & 2) ? as : bs); Rx.setEulerAngles ((f & 1) ? ar : br); Tx.setTranslation (at);
            Rec q ("rs"); q.str ("t", t); q.num ("keepR", f & 1); q.num ("keepS", (f & 2) >> 1); q.raw ("a", jv (M)); q.raw ("b", jv (Bm)); q.raw ("out", jv (C));
            q.raw ("S", jv (Sx)); q.raw ("R", jv (Rx)); q.raw ("T", jv (Tx)); q.emit ();
        }
    }
}

template <class T> static void shrt33 (Gen<T>& g, int it)
{
    const char* t = tg<T> ();
    int mode = it % 5;
    Vec2<T> s0 ((T) (0.5 + std::fabs ((double) g.full ()) * 2), (T) (0.5 + std::fabs ((double) g.full ()) * 2));
    if (mode == 1) s0[g.rng.below (2)] *= -1;
    if (mode == 3) s0[g.rng.below (2)] = (T) std::ldexp (1.0, -(int) g.rng.range (4, 12));
    if (mode == 4) s0[g.rng.below (2)] = 0;
    T h0 = g.full () / 2, r0 = g.full () * 3;
    Vec2<T> t0 (g.full () * 4, g.full () * 4);
    Matrix33<T> S, H, R, Tm;
    S.setScale (s0); H.setShear (h0); R.setRotation (r0); Tm.setTranslation (t0);
    Matrix33<T> M = S * H * R * Tm;
    if (mode < 4 && it % 15 >= 10) { T k = (T) std::ldexp (1.0, (it % 15 < 13 ? 1 : -1) * (sizeof (T) == 4 ? 70 : 520)); for (int i = 0; i < 2; ++i) for (int j = 0; j < 2; ++j) M[i][j] *= k; }
    if (it % 20 == 7)
    {   // exactly singular without a zero row: the second row is twice the first
        mode = 4;
        M[0][0] = (T) g.rng.range (1, 4); M[0][1] = (T) g.rng.range (-4, 4);
        M[1][0] = 2 * M[0][0]; M[1][1] = 2 * M[0][1];
    }
    Vec2<T> s, tr; T h = 0, r = 0;
    bool ok = extractSHRT (M, s, h, r, tr, false);
    S.setScale (s); H.setShear (h); R.setRotation (r); Tm.setTranslation (tr);
    Vec2<T> s2; bool ok2 = extractScaling (M, s2, false);
    Vec2<T> s3; T h3 = 0; bool ok3 = extractScalingAndShear (M, s3, h3, false);
    Matrix33<T> rem = M; Vec2<T> s4; T h4 = 0; bool ok4 = extractAndRemoveScalingAndShear (rem, s4, h4, false);
    Matrix33<T> ss = sansScaling (M, false); Matrix33<T> rs = M; bool ok5 = removeScaling (rs, false);
    Matrix33<T> sss = sansScalingAndShear (M, false); Matrix33<T> rss = M; bool ok6 = removeScalingAndShear (rss, false);
    int thrown = 0;
    { Vec2<T> a, c; T b; Matrix33<T> mm = M;
      try { extractScaling (M, a, true); } catch (std::domain_error&) { ++thrown; }
      try { extractScalingAndShear (M, a, b, true); } catch (std::domain_error&) { ++thrown; }
      try { mm = M; extractAndRemoveScalingAndShear (mm, a, b, true); } catch (std::domain_error&) { ++thrown; }
      try { sansScaling (M, true); } catch (std::domain_error&) { ++thrown; }
      try { mm = M; removeScaling (mm, true); } catch (std::domain_error&) { ++thrown; }
      try { sansScalingAndShear (M, true); } catch (std::domain_error&) { ++thrown; }
      try { mm = M; removeScalingAndShear (mm, true); } catch (std::domain_error&) { ++thrown; }
      try { T rr; extractSHRT (M, a, b, rr, c, true); } catch (std::domain_error&) { ++thrown; } }
    Rec rec ("shrt"); rec.str ("t", t); rec.num ("n", 3); rec.num ("thrown", thrown); rec.num ("mode", mode); rec.raw ("m", jv (M));
    rec.num ("ok", ok); rec.raw ("s", jv (s)); rec.raw ("h", jv (h)); rec.raw ("r", jv (r)); rec.raw ("tr", jv (tr));
    rec.raw ("S", jv (S)); rec.raw ("H", jv (H)); rec.raw ("R", jv (R)); rec.raw ("T", jv (Tm));
    rec.num ("ok2", ok2); rec.raw ("s2", jv (s2)); rec.num ("ok3", ok3); rec.raw ("s3", jv (s3)); rec.raw ("h3", jv (h3));
    rec.num ("ok4", ok4); rec.raw ("s4", jv (s4)); rec.raw ("h4", jv (h4)); rec.raw ("rem", jv (rem));
    rec.raw ("sans", jv (ss)); rec.num ("ok5", ok5); rec.raw ("removed", jv (rs));
    rec.raw ("sans2", jv (sss)); rec.num ("ok6", ok6); rec.raw ("removed2", jv (rss));
    rec.emit ();
}

template <class T, class M, class V, int N> static void svd_eig (Gen<T>& g, int it)
{
    const char* t = tg<T> ();
    M A;
    int mode = it % 12;
    for (int i = 0; i < N; ++i) for (int j = 0; j < N; ++j) A[i][j] = g.pick (it % 3);
    if (mode == 1) for (int j = 0; j < N; ++j) A[N - 1][j] = A[0][j];                 // rank deficient
    if (mode == 2) for (int i = 0; i < N; ++i) for (int j = 0; j < N; ++j) A[i][j] = (i == j) ? (T) (N - i) : (T) 0;   // already diagonal
    if (mode == 3) for (int i = 0; i < N; ++i) for (int j = 0; j < N; ++j) A[i][j] = (i == j) ? (T) 2 : (T) 0;         // repeated singular values
    if (mode == 4) for (int i = 0; i < N; ++i) for (int j = 0; j < N; ++j) A[i][j] = (T) ((i + 1) * (j + 2));          // rank one
    if (mode == 5) A[0][0] = -A[0][0];
    if (mode == 6) for (int i = 0; i < N; ++i) for (int j = 0; j < N; ++j) A[i][j] = (i + j == N - 1) ? (T) 1 : (T) 0; // exchange matrix
    if (mode == 7) for (int i = 0; i < N; ++i) for (int j = 0; j < N; ++j) A[i][j] = (T) 0;
    if (mode == 8) for (int i = 0; i < N; ++i) for (int j = i + 1; j < N; ++j) A[i][j] = (T) 0;                        // lower triangular
    if (mode == 9) for (int i = 0; i < N; ++i) for (int j = 0; j < i; ++j) A[i][j] = (T) 0;                            // upper triangular
    if (mode == 10) { for (int i = 0; i < N; ++i) for (int j = 0; j < N; ++j) A[i][j] = (i == j) ? (T) 1 : (T) 0; for (int j = 0; j < N - 1; ++j) A[N - 1][j] = (T) (j + 2); }   // a translation matrix
    if (mode == 11) { for (int i = 0; i < N; ++i) for (int j = 0; j < N; ++j) A[i][j] = (i == j) ? (T) (1 + i) : (T) 0; A[1 + (it / 12) % (N - 1)][0] = (T) 0.75; }             // diagonal plus one sub-diagonal entry
    // the decompositions are scale invariant: the same matrices at magnitudes far below and above one (an absolute threshold
    // on the off-diagonal part would treat a small matrix as already diagonal)
    {
        static const int ef[3] = {0, -27, 20}, ed[3] = {0, -60, 40};
        int e = (sizeof (T) == 4 ? ef : ed)[(it / 12) % 3];
        if (e != 0) for (int i = 0; i < N; ++i) for (int j = 0; j < N; ++j) A[i][j] = (T) std::ldexp ((double) A[i][j], e);
    }
    for (int fp = 0; fp < 2; ++fp)
    {
        M U, Vm; V S;
        // output parameters arrive holding leftovers of an earlier decomposition: every entry must be written
        for (int i = 0; i < N; ++i) { S[i] = (T) (7 + i); for (int j = 0; j < N; ++j) { U[i][j] = (T) (0.25 * (i + 1) - j); Vm[i][j] = (T) (i * 3 - j * 0.5 + 1); } }
        jacobiSVD (A, U, S, Vm, std::numeric_limits<T>::epsilon (), fp != 0);
        Rec r ("svd"); r.str ("t", t); r.num ("n", N); r.num ("fp", fp); r.raw ("a", jv (A)); r.raw ("u", jv (U)); r.raw ("s", jv (S)); r.raw ("v", jv (Vm)); r.emit ();
    }
    // symmetric matrices for the eigen solver
    M Sy;
    for (int i = 0; i < N; ++i) for (int j = i; j < N; ++j) { Sy[i][j] = Sy[j][i] = A[i][j]; }
    if (mode == 3) for (int i = 0; i < N; ++i) for (int j = 0; j < N; ++j) Sy[i][j] = (i == j) ? (T) 2 : ((i + j == 1) ? (T) 1 : (T) 0);   // equal diagonal, non-zero off-diagonal
    if (mode == 4) for (int i = 0; i < N; ++i) for (int j = 0; j < N; ++j) Sy[i][j] = (T) 1;                                             // all ones
    if ((it / 12) % 3 != 0 && (mode == 3 || mode == 4))
    {
        int e = (sizeof (T) == 4 ? ((it / 12) % 3 == 1 ? -27 : 20) : ((it / 12) % 3 == 1 ? -60 : 40));
        for (int i = 0; i < N; ++i) for (int j = 0; j < N; ++j) Sy[i][j] = (T) std::ldexp ((double) Sy[i][j], e);
    }
    {
        M W = Sy, Vm; V S;
        for (int i = 0; i < N; ++i) { S[i] = (T) (7 + i); for (int j = 0; j < N; ++j) Vm[i][j] = (T) (i * 3 - j * 0.5 + 1); }
        jacobiEigenSolver (W, S, Vm);
        M W2 = Sy, W3 = Sy; V mn, mx;
        minEigenVector (W2, mn); maxEigenVector (W3, mx);
        Rec r ("eig"); r.str ("t", t); r.num ("n", N); r.raw ("a", jv (Sy)); r.raw ("s", jv (S)); r.raw ("v", jv (Vm)); r.raw ("min", jv (mn)); r.raw ("max", jv (mx)); r.emit ();
    }
}

template <class T> static void procrustes (Gen<T>& g, int it)
{
    const char* t = tg<T> ();
    // exact rigid transforms: signed permutation or Pythagorean (3-4-5) rotations, dyadic translations, power-of-two scale
    static const double R0[4][9] = {{1, 0, 0, 0, 1, 0, 0, 0, 1}, {0, 1, 0, -1, 0, 0, 0, 0, 1}, {0.6, 0.8, 0, -0.8, 0.6, 0, 0, 0, 1}, {0, 0, 1, 1, 0, 0, 0, 1, 0}};
    int ri = it % 4;
    int npts = 1 + (it % 7);
    int shape = (it / 7) % 5;          // 0 generic, 1 collinear, 2 coplanar, 3 with zero weights, 4 coincident 'from' points (no spread)
    bool scaling = (it % 2) == 1;
    double sc = scaling ? 2.0 : 1.0;
    std::vector<Vec3<T>> A (npts), Bp (npts);
    std::vector<T> w (npts);
    Vec3<T> tr ((T) g.smallInt (), (T) g.smallInt (), (T) g.smallInt ());
    for (int i = 0; i < npts; ++i)
    {
        Vec3<T> p ((T) g.smallInt (), (T) g.smallInt (), (T) g.smallInt ());
        if (shape == 1) p = Vec3<T> ((T) i, (T) (2 * i), (T) (-i));
        if (shape == 2) p.z = 0;
        if (shape == 4 && i > 0) p = A[0];
        A[i] = p;
        Vec3<T> q;
        for (int j = 0; j < 3; ++j) q[j] = (T) (sc * (p.x * R0[ri][0 * 3 + j] + p.y * R0[ri][1 * 3 + j] + p.z * R0[ri][2 * 3 + j])) + tr[j];
        Bp[i] = q;
        w[i] = (T) (1 + (i % 3));
        if (shape == 3 && i % 2) w[i] = 0;
    }
    bool noisy = (it % 5) == 4;        // not related by a rigid transform: judged by the optimality condition only
    if (noisy) for (int i = 0; i < npts; ++i) Bp[i] += Vec3<T> (g.full () / 4, g.full () / 4, g.full () / 4);
    M44d P1 = procrustesRotationAndTranslation (A.data (), Bp.data (), (size_t) npts, scaling);
    M44d P2 = procrustesRotationAndTranslation (A.data (), Bp.data (), w.data (), (size_t) npts, scaling);
    std::string pa = "[", pb = "[", pw = "[";
    for (int i = 0; i < npts; ++i) { pa += (i ? "," : "") + jv (A[i]); pb += (i ? "," : "") + jv (Bp[i]); pw += (i ? "," : "") + jw (w[i]); }
    double rr[9]; for (int k = 0; k < 9; ++k) rr[k] = R0[ri][k];
    double trd[3] = {(double) tr.x, (double) tr.y, (double) tr.z};
    Rec r ("proc"); r.str ("t", t); r.num ("npts", npts); r.num ("scaling", scaling); r.num ("noisy", noisy); r.num ("shape", shape);
    r.raw ("a", pa + "]"); r.raw ("b", pb + "]"); r.raw ("w", pw + "]");
    r.raw ("rot", jlist (rr, 9)); r.raw ("tr", jlist (trd, 3)); r.raw ("sc", jw (sc));
    r.raw ("p1", jv (P1)); r.raw ("p2", jv (P2)); r.emit ();
}

int main (int argc, char** argv)
{
    vt_init ();
    uint64_t seed = argc > 1 ? strtoull (argv[1], 0, 10) : 1;
    int      n    = argc > 2 ? atoi (argv[2]) : 10;
    Gen<float> gf (seed); Gen<double> gd (seed + 13);
    for (int it = 0; it < n; ++it)
    {
        int k = it + (int) (seed % 16) * n;
        shrt44<float> (gf, k); shrt44<double> (gd, k); shrt33<float> (gf, k); shrt33<double> (gd, k);
        svd_eig<float, Matrix33<float>, Vec3<float>, 3> (gf, k); svd_eig<double, Matrix33<double>, Vec3<double>, 3> (gd, k);
        svd_eig<float, Matrix44<float>, Vec4<float>, 4> (gf, k); svd_eig<double, Matrix44<double>, Vec4<double>, 4> (gd, k);
        procrustes<float> (gf, k); procrustes<double> (gd, k);
    }
    return 0;
}
