// Recorder for C17: scalar utilities (ImathFun.h), root finding (ImathRoots.h), colour conversions
// (ImathColorAlgo.h).   rec_fun strata | deltas | misc <seed> <count>
#include "vrec.h"
#include <ImathFun.h>
#include <ImathMath.h>
#include <ImathRoots.h>
#include <ImathColor.h>
#include <ImathColorAlgo.h>
#include <cmath>
#include <limits>
#include <thread>
#include <mutex>
#include <algorithm>

static FILE* o = stdout;

// ---- floor / ceil / trunc over every float pattern of magnitude < 2^31, summarised per stratum --------
// A stratum is a range [lo,hi] of consecutive bit patterns (one sign, one binade, or the whole |x|<1 range).
// The sweep records *measured facts* about the function on the stratum: first/last output, number of runs
// of equal output, lengths of the first, last and interior runs, the output steps between runs, and a few
// probes (a run start, the pattern before it, and both outputs).
template <class F> static std::string stratum (const char* name, F f, uint32_t lo, uint32_t hi)
{
    int      first = f (vt_bitsf (lo)), cur = first;
    uint64_t runs = 1, runlen = 1, firstlen = 0, lastlen = 0, midmin = ~0ull, midmax = 0;
    long     stepmin = 0, stepmax = 0;
    bool     anystep = false;
    std::string probes = "[";
    int      nprobe = 0;
    uint64_t total = (uint64_t) hi - lo + 1;
    for (uint64_t u = (uint64_t) lo + 1; u <= hi; ++u)
    {
        int v = f (vt_bitsf ((uint32_t) u));
        if (v == cur) { ++runlen; continue; }
        long step = (long) v - (long) cur;
        if (!anystep) { stepmin = stepmax = step; anystep = true; }
        stepmin = std::min (stepmin, step); stepmax = std::max (stepmax, step);
        if (runs == 1) firstlen = runlen;
        else { midmin = std::min (midmin, runlen); midmax = std::max (midmax, runlen); }
        // probe the 1st, 2nd and a few pseudo-randomly chosen later run starts
        if (nprobe < 3 || ((u * 2654435761ull) >> 20) % (total / 4 + 1) == 0)
        {
            if (nprobe < 12)
            {
                char b[160];
                snprintf (b, sizeof b, "%s{\"at\":[%u,%u],\"out\":%d,\"prev\":%d}", nprobe ? "," : "", (unsigned) (u >> 16), (unsigned) (u & 0xffff), v, cur);
                probes += b; ++nprobe;
            }
        }
        cur = v; ++runs; runlen = 1;
    }
    lastlen = runlen;
    if (runs == 1) firstlen = runlen;
    if (midmax == 0) { midmin = 0; }
    char b[512];
    snprintf (b, sizeof b,
              "{\"e\":\"stratum\",\"fn\":\"%s\",\"lo\":[%u,%u],\"hi\":[%u,%u],\"first\":%d,\"last\":%d,\"nruns\":%llu,\"firstlen\":%llu,\"lastlen\":%llu,"
              "\"midmin\":%llu,\"midmax\":%llu,\"stepmin\":%ld,\"stepmax\":%ld,\"probes\":",
              name, lo >> 16, lo & 0xffff, hi >> 16, hi & 0xffff, first, cur, (unsigned long long) runs, (unsigned long long) firstlen,
              (unsigned long long) lastlen, (unsigned long long) midmin, (unsigned long long) midmax, stepmin, stepmax);
    return std::string (b) + probes + "]}\n";
}

static void strata ()
{
    struct Job { const char* fn; uint32_t lo, hi; };
    std::vector<Job> jobs;
    for (int s = 0; s < 2; ++s)
    {
        uint32_t sb = (uint32_t) s << 31;
        for (const char* fn : {"floor", "ceil", "trunc"})
        {
            jobs.push_back ({fn, sb | 0u, sb | 0x3f7fffffu});                           // |x| < 1 (zeros, subnormals, normals)
            for (uint32_t e = 127; e <= 157; ++e) jobs.push_back ({fn, sb | (e << 23), sb | (e << 23) | 0x7fffffu});   // 2^0 .. 2^31
        }
    }
    std::vector<std::string> out (jobs.size ());
    std::vector<std::thread> ts;
    std::mutex m;
    size_t next = 0;
    for (int t = 0; t < 16; ++t)
        ts.emplace_back ([&] {
            for (;;)
            {
                size_t k;
                { std::lock_guard<std::mutex> lk (m); if (next >= jobs.size ()) return; k = next++; }
                const Job& j = jobs[k];
                uint32_t hi = j.hi;
                // the last binade (2^30 .. 2^31) stays below 2^31; -2^31 itself is representable as int: include it for the negative sign
                if (std::string (j.fn) == "floor") out[k] = stratum ("floor", [] (float x) { return IMATH_INTERNAL_NAMESPACE::floor (x); }, j.lo, hi);
                else if (std::string (j.fn) == "ceil") out[k] = stratum ("ceil", [] (float x) { return IMATH_INTERNAL_NAMESPACE::ceil (x); }, j.lo, hi);
                else out[k] = stratum ("trunc", [] (float x) { return IMATH_INTERNAL_NAMESPACE::trunc (x); }, j.lo, hi);
            }
        });
    for (auto& t : ts) t.join ();
    for (auto& s : out) fputs (s.c_str (), o);
}

// ---- succf / predf / finitef over all 2^32 patterns: runs of constant (out - in) ------------------------------
template <class F> static void delta_runs (const char* name, F f, uint32_t lo, uint32_t hi)
{
    auto d = [&] (uint32_t u) { return (uint32_t) (vt_fbits (f (vt_bitsf (u))) - u); };
    uint32_t run_lo = lo, cur = d (lo);
    for (uint64_t u = (uint64_t) lo + 1; u <= hi; ++u)
    {
        uint32_t v = d ((uint32_t) u);
        if (v != cur)
        {
            fprintf (o, "{\"e\":\"delta\",\"fn\":\"%s\",\"lo\":[%u,%u],\"hi\":[%u,%u],\"d\":[%u,%u]}\n", name, run_lo >> 16, run_lo & 0xffff,
                     (unsigned) ((u - 1) >> 16), (unsigned) ((u - 1) & 0xffff), cur >> 16, cur & 0xffff);
            run_lo = (uint32_t) u; cur = v;
        }
    }
    fprintf (o, "{\"e\":\"delta\",\"fn\":\"%s\",\"lo\":[%u,%u],\"hi\":[%u,%u],\"d\":[%u,%u]}\n", name, run_lo >> 16, run_lo & 0xffff, hi >> 16, hi & 0xffff, cur >> 16, cur & 0xffff);
}
static void deltas ()
{
    delta_runs ("succf", [] (float x) { return succf (x); }, 0u, 0xffffffffu);
    delta_runs ("predf", [] (float x) { return predf (x); }, 0u, 0xffffffffu);
    // finitef: runs of constant output (logged as delta of a 0/1 "float" pattern: use a separate event)
    uint32_t run_lo = 0; int cur = IMATH_INTERNAL_NAMESPACE::finitef (vt_bitsf (0));
    for (uint64_t u = 1; u <= 0xffffffffull; ++u)
    {
        int v = IMATH_INTERNAL_NAMESPACE::finitef (vt_bitsf ((uint32_t) u));
        if (v != cur)
        {
            fprintf (o, "{\"e\":\"frun\",\"fn\":\"finitef\",\"lo\":[%u,%u],\"hi\":[%u,%u],\"out\":%d}\n", run_lo >> 16, run_lo & 0xffff, (unsigned) ((u - 1) >> 16), (unsigned) ((u - 1) & 0xffff), cur);
            run_lo = (uint32_t) u; cur = v;
        }
    }
    fprintf (o, "{\"e\":\"frun\",\"fn\":\"finitef\",\"lo\":[%u,%u],\"hi\":[65535,65535],\"out\":%d}\n", run_lo >> 16, run_lo & 0xffff, cur);
}

// ---- sampled doubles, integer division, scalar helpers, roots, colours ---------------------------------------
static void doubles (uint64_t seed, int count)
{
    VtRng rng (seed);
    std::vector<uint64_t> xs = {0ull, 1ull, 0x000fffffffffffffull, 0x0010000000000000ull, 0x3ff0000000000000ull, 0x3fefffffffffffffull, 0x3ff0000000000001ull,
                                0x7fefffffffffffffull, 0x7ff0000000000000ull, 0x7ff0000000000001ull, 0x7ff8000000000000ull, 0x41dfffffffc00000ull, 0x41dfffffffffffffull,
                                0x4330000000000000ull, 0x432fffffffffffffull, 0x3fe0000000000000ull, 0x4000000000000000ull};
    for (int k = 0; k < count * 40; ++k)
    {
        uint64_t e = 1023 + (uint64_t) rng.range (-60, 30);
        uint64_t m = rng.next () >> 12;
        switch (k % 5) { case 0: m = 0; break; case 1: m = (1ull << 52) - 1; break; case 2: m &= ~((1ull << (int) rng.below (52)) - 1); break; default: break; }
        xs.push_back ((e << 52) | m);
    }
    for (uint64_t u : xs)
        for (int s = 0; s < 2; ++s)
        {
            uint64_t b = u | ((uint64_t) s << 63);
            double   x = vt_bitsd (b);
            Rec r ("sd"); r.raw ("x", jw (x)); r.raw ("succ", jw (succd (x))); r.raw ("pred", jw (predd (x))); r.num ("fin", IMATH_INTERNAL_NAMESPACE::finited (x));
            bool small = std::fabs (x) <= 2147483647.0;      // so that ceil/floor fit an int (the functions return int)
            r.num ("small", small);
            if (small) { r.num ("floor", IMATH_INTERNAL_NAMESPACE::floor (x)); r.num ("ceil", IMATH_INTERNAL_NAMESPACE::ceil (x)); r.num ("trunc", IMATH_INTERNAL_NAMESPACE::trunc (x)); }
            r.emit ();
        }
}

static void intdiv (uint64_t seed, int count)
{
    VtRng rng (seed + 3);
    std::vector<int> g = {0, 1, 2, 3, 5, 7, 8, 100, 46341, 65536, 1073741823, 1073741824, 2147483646, 2147483647};
    std::vector<int> all;
    for (int v : g) { all.push_back (v); all.push_back (-v); }
    for (int k = 0; k < count * 30; ++k) all.push_back ((int) (rng.next () >> (33 + rng.below (28))) * (rng.below (2) ? 1 : -1));
    for (int x : all)
        for (int y : all)
        {
            if (y == 0) continue;
            // the functions negate their operands (INT_MIN is not among the values); every other pair is in the domain, also
            // those for which the rounding bias |y| - 1 - x does not fit an int
            fprintf (o, "{\"e\":\"idiv\",\"x\":%d,\"y\":%d,\"divs\":%d,\"mods\":%d,\"divp\":%d,\"modp\":%d}\n", x, y, divs (x, y), mods (x, y), divp (x, y), modp (x, y));
        }
}

template <class T> static void helpers (uint64_t seed, int count)
{
    Gen<T> g (seed + 11);
    const char* t = vt_tag (T ());
    for (int k = 0; k < count * 60; ++k)
    {
        int mode = k % 3;        // small ints, dyadics, full
        T a = g.pick (mode), b = g.pick (mode), c = g.pick (mode);
        if (k % 7 == 0) b = a;
        if (k % 11 == 0) c = 0;
        T tolb = 0; bool band = false;
        if (k % 13 == 5)
        {   // the band between  e |x1|  and  e |x2|  (the relative test is about the FIRST argument): dyadic, so every product is exact
            a = (T) ((1 + k % 7) * ((k / 13) % 2 ? -8.0 : 8.0));
            band = true; tolb = (T) std::ldexp (1.0, -(int) (1 + (k / 26) % 4));
            b = a + tolb * a + tolb * tolb * a / 2;
            if ((k / 104) % 2) { T sw = a; a = b; b = sw; }       // ... and the same pair the other way round (outside: e |x1| is now the larger bound)
        }
        { Rec r ("fn"); r.str ("fn", "lerp"); r.str ("t", t); r.raw ("a", jlist (std::vector<T>{a, b, c}.data (), 3)); r.raw ("out", jv (lerp (a, b, c))); r.emit (); }
        { Rec r ("fn"); r.str ("fn", "ulerp"); r.str ("t", t); r.raw ("a", jlist (std::vector<T>{a, b, c}.data (), 3)); r.raw ("out", jv (ulerp (a, b, c))); r.emit (); }
        { Rec r ("fn"); r.str ("fn", "lerpfactor"); r.str ("t", t); r.raw ("a", jlist (std::vector<T>{a, b, c}.data (), 3)); r.raw ("out", jv (lerpfactor (a, b, c))); r.emit (); }
        { Rec r ("fn"); r.str ("fn", "clamp"); r.str ("t", t); r.raw ("a", jlist (std::vector<T>{a, std::min (b, c), std::max (b, c)}.data (), 3)); r.raw ("out", jv (clamp (a, std::min (b, c), std::max (b, c)))); r.emit (); }
        T tol = band ? tolb : (T) std::fabs ((double) c);
        { Rec r ("fn"); r.str ("fn", "cmp"); r.str ("t", t); r.raw ("a", jlist (std::vector<T>{a, b}.data (), 2)); r.raw ("out", jv ((T) cmp (a, b))); r.emit (); }
        { Rec r ("fn"); r.str ("fn", "cmpt"); r.str ("t", t); r.raw ("a", jlist (std::vector<T>{a, b, tol}.data (), 3)); r.raw ("out", jv ((T) cmpt (a, b, tol))); r.emit (); }
        { Rec r ("fn"); r.str ("fn", "iszero"); r.str ("t", t); r.raw ("a", jlist (std::vector<T>{a, tol}.data (), 2)); r.raw ("out", jv ((T) iszero (a, tol))); r.emit (); }
        { Rec r ("fn"); r.str ("fn", "equal"); r.str ("t", t); r.raw ("a", jlist (std::vector<T>{a, b, tol}.data (), 3)); r.raw ("out", jv ((T) equal (a, b, tol))); r.emit (); }
        { Rec r ("fn"); r.str ("fn", "eqabs"); r.str ("t", t); r.raw ("a", jlist (std::vector<T>{a, b, tol}.data (), 3)); r.raw ("out", jv ((T) equalWithAbsError (a, b, tol))); r.emit (); }
        { Rec r ("fn"); r.str ("fn", "eqrel"); r.str ("t", t); r.raw ("a", jlist (std::vector<T>{a, b, tol}.data (), 3)); r.raw ("out", jv ((T) equalWithRelError (a, b, tol))); r.emit (); }
        { Rec r ("fn"); r.str ("fn", "abs"); r.str ("t", t); r.raw ("a", jlist (std::vector<T>{a}.data (), 1)); r.raw ("out", jv (IMATH_INTERNAL_NAMESPACE::abs (a))); r.emit (); }
        { T xs = (k % 5 == 0) ? (T) std::ldexp ((double) a, -(int) (k % 40)) : a;         // down to far below sqrt(eps)
          Rec r ("fn"); r.str ("fn", "sinx_over_x"); r.str ("t", t); r.raw ("a", jlist (std::vector<T>{xs, (T) std::sin (xs)}.data (), 2)); r.raw ("out", jv (sinx_over_x (xs))); r.emit (); }
        { Rec r ("fn"); r.str ("fn", "sign"); r.str ("t", t); r.raw ("a", jlist (std::vector<T>{a}.data (), 1)); r.raw ("out", jv ((T) sign (a))); r.emit (); }
    }
    // lerp between endpoints of very different magnitude, at and near the ends: a (1 - t) + b t is the endpoint itself at t = 0 / 1
    {
        const T mags[] = {1, (T) 3.5, (T) 1e8, (T) -1e8, (T) 1e-8, (T) 6.25e20, (T) -1e-20};
        const T ts[] = {0, 1, (T) 0.5, (T) 0.25, std::nextafter ((T) 1, (T) 0), (T) std::ldexp (1.0, -20)};
        for (T a : mags) for (T b : mags) for (T tt : ts)
        {
            { Rec r ("fn"); r.str ("fn", "lerp"); r.str ("t", t); r.raw ("a", jlist (std::vector<T>{a, b, tt}.data (), 3)); r.raw ("out", jv (lerp (a, b, tt))); r.emit (); }
            { Rec r ("fn"); r.str ("fn", "ulerp"); r.str ("t", t); r.raw ("a", jlist (std::vector<T>{a, b, tt}.data (), 3)); r.raw ("out", jv (ulerp (a, b, tt))); r.emit (); }
        }
    }
    // clamp on IEEE specials: NaN in any position, signed zeros, infinities, inverted ranges
    {
        const T inf = std::numeric_limits<T>::infinity (), qn = std::numeric_limits<T>::quiet_NaN ();
        const T sp[] = {(T) 0, -(T) 0, 1, -1, (T) 0.5, 2, std::numeric_limits<T>::max (), std::numeric_limits<T>::denorm_min (), inf, -inf, qn};
        for (T v : sp) for (T lo : sp) for (T hi : sp)
        { Rec r ("fn"); r.str ("fn", "clamp"); r.str ("t", t); r.raw ("a", jlist (std::vector<T>{v, lo, hi}.data (), 3)); r.raw ("out", jv (clamp (v, lo, hi))); r.emit (); }
    }
    // lerpfactor near the overflow guard: |m - a| against max * |b - a|
    const T big = std::numeric_limits<T>::max ();
    const T ds[] = {0, std::numeric_limits<T>::denorm_min (), std::numeric_limits<T>::min (), (T) 1e-30, (T) 1e-10, (T) 0.5, 1, 2};
    const T ns[] = {0, 1, (T) 1e10, (T) 1e30, big / 8, big / 2};
    for (T d : ds) for (T n : ns) for (int s = 0; s < 4; ++s)
    {
        T a = 0, b = (s & 1) ? -d : d, m = (s & 2) ? -n : n;
        Rec r ("fn"); r.str ("fn", "lerpfactor"); r.str ("t", t); r.raw ("a", jlist (std::vector<T>{m, a, b}.data (), 3)); r.raw ("out", jv (lerpfactor (m, a, b))); r.emit ();
    }
}

// integer element types: lerp / ulerp with a float factor, equalWithAbsError / equalWithRelError, clamp, abs, sign, cmp.
// Values stay below 2^30 in magnitude (no signed overflow, and the checker's integers hold them); factors are dyadic, so the
// real-valued result is exact in float and the conversion to the element type truncates it.
template <class T> static void int_helpers_T (const char* tag, VtRng& rng, int count)
{
    const bool sg = std::numeric_limits<T>::is_signed;
    const long hi = std::min<long> ((long) std::numeric_limits<T>::max (), (1L << 30) - 1);
    const long lo = sg ? std::max<long> ((long) std::numeric_limits<T>::lowest (), -((1L << 30) - 1)) : 0;
    auto pick = [&] () -> long {
        switch (rng.below (5))
        {
            case 0: return rng.below (2) ? hi : lo;                       // the limits of the type
            case 1: return sg ? rng.range (-9, 9) : rng.range (0, 18);
            case 2: return hi - (long) rng.below (4);
            case 3: return lo + (long) rng.below (4);
            default: return lo + (long) (rng.next () % (uint64_t) (hi - lo + 1));
        }
    };
    for (int k = 0; k < count * 40; ++k)
    {
        long a = pick (), b = pick (), e = (long) (rng.below (3) ? rng.below (20) : (rng.next () % (uint64_t) (hi + 1)));
        if (k % 9 == 0) b = a;
        if (k % 9 == 1 && a + e <= hi) b = a + e;                          // exactly on the tolerance
        if (k % 9 == 2 && a + e + 1 <= hi) b = a + e + 1;                  // one beyond it
        if (k % 9 == 3 && a - e >= lo) b = a - e;
        T x = (T) a, y = (T) b, tol = (T) e;
        fprintf (o, "{\"e\":\"ifn\",\"fn\":\"eqabs\",\"t\":\"%s\",\"a\":[%ld,%ld,%ld],\"out\":%d}\n", tag, a, b, e, (int) equalWithAbsError (x, y, tol));
        fprintf (o, "{\"e\":\"ifn\",\"fn\":\"cmp\",\"t\":\"%s\",\"a\":[%ld,%ld],\"out\":%d}\n", tag, a, b, (int) cmp (x, y));
        { long l = std::min (b, e), h = std::max (b, e); if (h <= hi) fprintf (o, "{\"e\":\"ifn\",\"fn\":\"clamp\",\"t\":\"%s\",\"a\":[%ld,%ld,%ld],\"out\":%ld}\n", tag, a, l, h, (long) clamp (x, (T) l, (T) h)); }
        if (sg && a > lo) fprintf (o, "{\"e\":\"ifn\",\"fn\":\"abs\",\"t\":\"%s\",\"a\":[%ld],\"out\":%ld}\n", tag, a, (long) IMATH_INTERNAL_NAMESPACE::abs (x));
        fprintf (o, "{\"e\":\"ifn\",\"fn\":\"sign\",\"t\":\"%s\",\"a\":[%ld],\"out\":%d}\n", tag, a, (int) sign (x));
        // relative tolerance with a small multiplier: e * |x1| stays far from the limits
        { long sa = sg ? rng.range (-1000, 1000) : rng.range (0, 2000), sb = sa + rng.range (-30, 30), se = (long) rng.below (4);
          if (sa < lo) sa = lo; if (sa > hi) sa = hi; if (sb < lo) sb = lo; if (sb > hi) sb = hi;
          fprintf (o, "{\"e\":\"ifn\",\"fn\":\"eqrel\",\"t\":\"%s\",\"a\":[%ld,%ld,%ld],\"out\":%d}\n", tag, sa, sb, se, (int) equalWithRelError ((T) sa, (T) sb, (T) se)); }
        // lerp / ulerp: operands small enough for float arithmetic to be exact (|.| < 2^12), factor k/8 in [0, 1]
        { long la = sg ? rng.range (-4000, 4000) : rng.range (0, 4000), lb = sg ? rng.range (-4000, 4000) : rng.range (0, 4000); int num = (int) rng.below (9);
          if (la > hi) la = hi; if (lb > hi) lb = hi; if (la < lo) la = lo; if (lb < lo) lb = lo;
          float t = (float) num / 8.0f;
              fprintf (o, "{\"e\":\"ifn\",\"fn\":\"lerp\",\"t\":\"%s\",\"a\":[%ld,%ld,%d],\"out\":%ld}\n", tag, la, lb, num, (long) lerp ((T) la, (T) lb, t));
          fprintf (o, "{\"e\":\"ifn\",\"fn\":\"ulerp\",\"t\":\"%s\",\"a\":[%ld,%ld,%d],\"out\":%ld}\n", tag, la, lb, num, (long) ulerp ((T) la, (T) lb, t)); }
    }
}
// cmp / cmpt at the ends of the range: operand pairs whose difference does not fit the element type (INT_MAX against -1,
// 0u against 1u): the comparison is still a comparison
template <class T> static void int_compare_extremes (const char* tag)
{
    const long top = 2147483647L;
    std::vector<long> ex = {top, top - 1, top / 2, 2, 1, 0};
    if (std::numeric_limits<T>::is_signed) { ex.push_back (-1); ex.push_back (-2); ex.push_back (-top / 2); ex.push_back (-top); }
    for (long a : ex) for (long b : ex)
    {
        fprintf (o, "{\"e\":\"ifn\",\"fn\":\"cmp\",\"t\":\"%s\",\"a\":[%ld,%ld],\"out\":%d}\n", tag, a, b, (int) cmp ((T) a, (T) b));
        // cmpt forms the magnitude of the difference in the element type: pairs whose difference does not fit it are outside
        // its domain (for unsigned types every difference fits)
        long diff = a > b ? a - b : b - a;
        if (std::numeric_limits<T>::is_signed && sizeof (T) == 4 && diff > top) continue;
        for (long t : {0L, 1L, 5L})
            fprintf (o, "{\"e\":\"ifn\",\"fn\":\"cmpt\",\"t\":\"%s\",\"a\":[%ld,%ld,%ld],\"out\":%d}\n", tag, a, b, t, (int) cmpt ((T) a, (T) b, (T) t));
    }
}
static void int_helpers (uint64_t seed, int count)
{
    int_compare_extremes<int> ("i32"); int_compare_extremes<unsigned int> ("u32"); int_compare_extremes<long> ("i64");
    VtRng rng (seed + 31);
    int_helpers_T<int> ("i32", rng, count); int_helpers_T<unsigned int> ("u32", rng, count);
    int_helpers_T<short> ("i16", rng, count); int_helpers_T<unsigned short> ("u16", rng, count);
    int_helpers_T<unsigned char> ("u8", rng, count); int_helpers_T<signed char> ("i8", rng, count);
    int_helpers_T<long> ("i64", rng, count);
}

template <class T> static void roots (uint64_t seed, int count)
{
    Gen<T> g (seed + 21);
    const char* t = vt_tag (T ());
    auto dy = [&] () -> T { int m = g.rng.range (-24, 24); int e = g.rng.range (-3, 3); return (T) std::ldexp ((double) m, e); };
    auto emitr = [&] (const char* fn, const char* kind, std::vector<T> coef, std::vector<T> rts, int n, T* x, int nx) {
        Rec r ("roots"); r.str ("fn", fn); r.str ("t", t); r.str ("kind", kind); r.raw ("coef", jlist (coef.data (), (int) coef.size ()));
        r.raw ("built", jlist (rts.data (), (int) rts.size ())); r.num ("n", n); r.raw ("x", jlist (x, nx < 0 ? 0 : nx)); r.emit ();
    };
    for (int k = 0; k < count * 25; ++k)
    {
        // linear
        { T a = dy (), b = dy (); if (k % 9 == 0) a = 0; if (k % 27 == 0) b = 0; T x = 0; int n = solveLinear (a, b, x); emitr ("linear", "any", {a, b}, {}, n, &x, n == 1 ? 1 : 0); }
        // quadratic from two roots (distinct, well separated) / double root / complex pair
        {
            T r1 = dy (), r2 = dy (), a = (T) g.rng.range (1, 3) * (g.rng.below (2) ? 1 : -1);
            if (k % 5 == 1) { int e2 = g.rng.range (6, 12); r1 = (T) std::ldexp (1.0, e2); r2 = (T) std::ldexp (1.0, -e2 + 2); }     // very different magnitudes
            if (k % 5 == 2)
            {   // very different magnitudes with generic significands (b*b is inexact, so the larger root carries a rounding
                // error; the smaller one must not inherit it).  Sum and product stay exactly representable.
                static const int bigs[] = {1000, 777, 999, 513, 641, 1023};
                static const int smalls[] = {3, 5, 7, 1, 11};
                r1 = (T) bigs[g.rng.below (6)] * (g.rng.below (2) ? 1 : -1);
                r2 = (T) std::ldexp ((double) smalls[g.rng.below (5)], -(int) g.rng.range (8, sizeof (T) == 4 ? 11 : 30)) * (g.rng.below (2) ? 1 : -1);
                a = 1;
            }
            const char* kind = "2real";
            if (r1 == r2) kind = "double";
            T x[2] = {0, 0};
            T b = -a * (r1 + r2), c = a * r1 * r2;
            int n = solveQuadratic (a, b, c, x);
            emitr ("quadratic", kind, {a, b, c}, {r1, r2}, n, x, n);
            // complex pair: (x - p)^2 + q^2, q != 0
            T p = dy (), q = dy (); if (q == 0) q = 1;
            T b2 = -2 * a * p, c2 = a * (p * p + q * q);
            T y[2] = {0, 0};
            int n2 = solveQuadratic (a, b2, c2, y);
            emitr ("quadratic", "complex", {a, b2, c2}, {}, n2, y, n2);
            // generic coefficients (roots are not representable): judged by count and backward error
            {
                T ga = g.full (), gb = g.full () * (T) (1 << (int) g.rng.below (12)), gc = g.full ();
                if (ga == 0) ga = 1;
                T gx[2] = {0, 0};
                int gn = solveQuadratic (ga, gb, gc, gx);
                emitr ("quadratic", "general", {ga, gb, gc}, {}, gn, gx, gn);
                // a moderately scaled cubic: expanded (with rounding) from three generic roots of comparable
                // size, or from one such root and a complex pair; judged from the coefficients only
                T q1 = (T) (1 + std::fabs ((double) g.full ())) * (g.rng.below (2) ? 1 : -1), q2 = q1 + (T) (0.5 + std::fabs ((double) g.full ())), q3 = q1 - (T) (0.75 + std::fabs ((double) g.full ()));
                T ca = (T) (0.5 + std::fabs ((double) g.full ())), cb, cc, cd;
                if (k % 2) { cb = -ca * (q1 + q2 + q3); cc = ca * (q1 * q2 + q1 * q3 + q2 * q3); cd = -ca * q1 * q2 * q3; }
                else { T pr = q2, pi = (T) (0.5 + std::fabs ((double) g.full ())); cb = -ca * (q1 + 2 * pr); cc = ca * (2 * pr * q1 + pr * pr + pi * pi); cd = -ca * q1 * (pr * pr + pi * pi); }
                T cx[3] = {0, 0, 0};
                int cn = solveCubic (ca, cb, cc, cd, cx);
                emitr ("cubic", "general", {ca, cb, cc, cd}, {}, cn, cx, cn);
            }
            // degenerate leading coefficient delegates to the linear solver
            T z[2] = {0, 0}; T z1 = 0;
            int n3 = solveQuadratic ((T) 0, b, c, z); int n4 = solveLinear (b, c, z1);
            Rec r ("delegate"); r.str ("fn", "quadratic->linear"); r.str ("t", t); r.num ("n", n3); r.num ("n2", n4); r.raw ("x", jlist (z, n3 > 0 ? n3 : 0)); r.raw ("x2", jlist (&z1, n4 > 0 ? 1 : 0)); r.emit ();
        }
        // cubic from three real roots / one real root + complex pair
        {
            int i1 = g.rng.range (-6, 6), i2 = g.rng.range (-6, 6), i3 = g.rng.range (-6, 6);
            T r1 = (T) i1, r2 = (T) i2, r3 = (T) i3;
            if (k % 4 == 0) { r1 = (T) (i1 * 0.5); r3 = (T) (i3 * 4.0); }
            const char* kind = (r1 != r2 && r2 != r3 && r1 != r3) ? "3real" : "repeated";
            T a = (T) g.rng.range (1, 3) * (g.rng.below (2) ? 1 : -1);
            T b = -a * (r1 + r2 + r3), c = a * (r1 * r2 + r1 * r3 + r2 * r3), d = -a * r1 * r2 * r3;
            T x[3] = {0, 0, 0};
            int n = solveCubic (a, b, c, d, x);
            emitr ("cubic", kind, {a, b, c, d}, {r1, r2, r3}, n, x, n);
            T y[3] = {0, 0, 0};
            int n2 = solveNormalizedCubic (b / a, c / a, d / a, y);
            emitr ("ncubic", kind, {(T) 1, b / a, c / a, d / a}, {r1, r2, r3}, n2, y, n2);
            // one real root r1 and the pair p +- q i
            T p = (T) g.rng.range (-4, 4), q = (T) g.rng.range (1, 4);
            T b3 = -a * (r1 + 2 * p), c3 = a * (2 * p * r1 + p * p + q * q), d3 = -a * r1 * (p * p + q * q);
            T w[3] = {0, 0, 0};
            int n5 = solveCubic (a, b3, c3, d3, w);
            emitr ("cubic", "1real", {a, b3, c3, d3}, {r1}, n5, w, n5);
            // pure cubics x^3 = m (p = 0 in the normalised form)
            T m3 = (T) g.rng.range (-3, 3) ; if (m3 == 0) m3 = 1;
            T cube = m3 * m3 * m3;
            T v[3] = {0, 0, 0};
            int n6 = solveNormalizedCubic ((T) 0, (T) 0, -cube, v);
            emitr ("ncubic", "1real", {(T) 1, (T) 0, (T) 0, -cube}, {m3}, n6, v, n6);
            T z[3] = {0, 0, 0}, z2[2] = {0, 0};
            int n3 = solveCubic ((T) 0, b, c, d, z); int n4 = solveQuadratic (b, c, d, z2);
            Rec r ("delegate"); r.str ("fn", "cubic->quadratic"); r.str ("t", t); r.num ("n", n3); r.num ("n2", n4); r.raw ("x", jlist (z, n3 > 0 ? n3 : 0)); r.raw ("x2", jlist (z2, n4 > 0 ? n4 : 0)); r.emit ();
        }
    }
}

template <class T> static void colours (uint64_t seed, int count)
{
    const char* t = vt_tag (T ());
    VtRng rng (seed + 5);
    const int N = 8;
    for (int i = 0; i <= N; ++i) for (int j = 0; j <= N; ++j) for (int k = 0; k <= N; ++k)
    {
        if (count < 4 && ((i * 81 + j * 9 + k + (int) seed) % 3) != 0 && !(i == j && j == k) && i != N && i != 0) continue;
        T a = (T) i / N, b = (T) j / N, c = (T) k / N;
        T al = (T) ((i + j + k) % 5) / 4;
        Vec3<T> v (a, b, c); Color4<T> c4 (a, b, c, al);
        Vec3<T> h = rgb2hsv (v), rr = hsv2rgb (v);
        Color4<T> h4 = rgb2hsv (c4), r4 = hsv2rgb (c4);
        T h4a[4] = {h4.r, h4.g, h4.b, h4.a}, r4a[4] = {r4.r, r4.g, r4.b, r4.a};
        T in4[4] = {a, b, c, al};
        { Rec r ("hsv"); r.str ("dir", "rgb2hsv"); r.str ("t", t); r.raw ("in", jlist (in4, 4)); r.raw ("v3", jv (h)); r.raw ("c4", jlist (h4a, 4)); r.emit (); }
        { Rec r ("hsv"); r.str ("dir", "hsv2rgb"); r.str ("t", t); r.raw ("in", jlist (in4, 4)); r.raw ("v3", jv (rr)); r.raw ("c4", jlist (r4a, 4)); r.emit (); }
    }
}
static void intcolours ()
{
    // integer element types scale by their maximum: unsigned char colours
    for (int i = 0; i < 256; i += 15) for (int j = 0; j < 256; j += 51) for (int k = 0; k < 256; k += 85)
    {
        Color3<unsigned char> v ((unsigned char) i, (unsigned char) j, (unsigned char) k);
        Vec3<unsigned char> h = rgb2hsv (Vec3<unsigned char> (v)), r = hsv2rgb (Vec3<unsigned char> (v));
        Color4<unsigned char> c4 ((unsigned char) i, (unsigned char) j, (unsigned char) k, (unsigned char) ((i + j) % 256));
        Color4<unsigned char> h4 = rgb2hsv (c4), r4 = hsv2rgb (c4);
        fprintf (o, "{\"e\":\"hsvi\",\"in\":[%d,%d,%d,%d],\"max\":255,\"rgb2hsv\":[%d,%d,%d],\"hsv2rgb\":[%d,%d,%d],\"rgb2hsv4\":[%d,%d,%d,%d],\"hsv2rgb4\":[%d,%d,%d,%d]}\n", i, j, k, (i + j) % 256,
                 h.x, h.y, h.z, r.x, r.y, r.z, h4.r, h4.g, h4.b, h4.a, r4.r, r4.g, r4.b, r4.a);
    }
    // packed round trip: every value of every channel (float-element colours)
    for (int ch = 0; ch < 4; ++ch)
        for (unsigned v = 0; v < 256; ++v)
        {
            PackedColor p = (PackedColor) (0x10203040u & ~(0xffu << (8 * ch))) | (v << (8 * ch));
            C4f c; packed2rgb (p, c);
            PackedColor q = rgb2packed (c);
            V3f c3; packed2rgb (p, c3);
            PackedColor q3 = rgb2packed (c3);
            fprintf (o, "{\"e\":\"packed\",\"p\":[%u,%u],\"q4\":[%u,%u],\"q3\":[%u,%u]}\n", (unsigned) (p >> 16), (unsigned) (p & 0xffff), (unsigned) (q >> 16), (unsigned) (q & 0xffff),
                     (unsigned) (q3 >> 16), (unsigned) (q3 & 0xffff));
        }
}

int main (int argc, char** argv)
{
    vt_init ();
    std::string mode = argc > 1 ? argv[1] : "misc";
    uint64_t    seed = argc > 2 ? strtoull (argv[2], 0, 10) : 1;
    int         n    = argc > 3 ? atoi (argv[3]) : 1;
    if (mode == "strata") strata ();
    else if (mode == "deltas") deltas ();
    else
    {
        doubles (seed, n); intdiv (seed, n);
        helpers<float> (seed, n); helpers<double> (seed, n); int_helpers (seed, n);
        roots<float> (seed, n); roots<double> (seed, n);
        colours<float> (seed, n); colours<double> (seed, n);
        if (seed % 16 == 1) intcolours ();
    }
    return 0;
}
