// Recorder for C14 (ray-box / line-box intersection).
//   rec_raybox lattice <seed> <n>    : seeded sample of the bounded integer lattice (boxes incl. flat and inverted)
//   rec_raybox through <seed> <n>    : rays constructed to pass exactly through lattice points of the box surface
//                                      at non-integer parameters (grazing edges/corners, rounding-sensitive ties)
//   rec_raybox extreme <seed> <n>    : float/double inputs with zero, denormal, tiny and huge direction components
// Each case is run for float and double through intersects(box,ray), intersects(box,ray,ip), findEntryAndExitPoints.
#include "vtrace.h"
#include <ImathBox.h>
#include <ImathBoxAlgo.h>
#include <ImathLine.h>
#include <cfloat>
#include <string>

using namespace IMATH_INTERNAL_NAMESPACE;
static FILE* o = stdout;

template <class T> static void v3 (const Vec3<T>& v)
{
    fprintf (o, "["); vt_num (o, v.x); fprintf (o, ","); vt_num (o, v.y); fprintf (o, ","); vt_num (o, v.z); fprintf (o, "]");
}

// ints: when the inputs are an integer-lattice case, the same coordinates as plain integers
// (the specification checks that they denote the same values as the float words)
template <class T> static void run (const char* fam, const Vec3<T>& mn, const Vec3<T>& mx, const Vec3<T>& pos, const Vec3<T>& dir, const int* ints = 0)
{
    Box<Vec3<T>> box;
    box.min = mn; box.max = mx;
    Line3<T> ray;
    ray.pos = pos; ray.dir = dir;          // set directly: the direction is deliberately not normalised
    const T   mark = (T) 12345.0;
    Vec3<T>   ip (mark, mark, mark), en (mark, mark, mark), ex (mark, mark, mark);
    bool h  = intersects (box, ray);
    bool h3 = intersects (box, ray, ip);
    bool ee = findEntryAndExitPoints (ray, box, en, ex);
    fprintf (o, "{\"e\":\"ray\",\"fam\":\"%s\",\"t\":\"%s\",\"mn\":", fam, vt_tag (T ())); v3 (mn);
    fprintf (o, ",\"mx\":"); v3 (mx); fprintf (o, ",\"pos\":"); v3 (pos); fprintf (o, ",\"dir\":"); v3 (dir);
    fprintf (o, ",\"hit\":%d,\"hit3\":%d,\"ip\":", (int) h, (int) h3); v3 (ip);
    fprintf (o, ",\"ee\":%d,\"entry\":", (int) ee); v3 (en); fprintf (o, ",\"exit\":"); v3 (ex);
    if (ints)
        fprintf (o, ",\"I\":{\"mn\":[%d,%d,%d],\"mx\":[%d,%d,%d],\"pos\":[%d,%d,%d],\"dir\":[%d,%d,%d]}", ints[0], ints[1], ints[2], ints[3],
                 ints[4], ints[5], ints[6], ints[7], ints[8], ints[9], ints[10], ints[11]);
    fprintf (o, "}\n");
}

template <class T> static Vec3<T> V (int a, int b, int c) { return Vec3<T> ((T) a, (T) b, (T) c); }

static void both (const char* fam, const int* mn, const int* mx, const int* p, const int* d)
{
    int ints[12] = {mn[0], mn[1], mn[2], mx[0], mx[1], mx[2], p[0], p[1], p[2], d[0], d[1], d[2]};
    run<float> (fam, V<float> (mn[0], mn[1], mn[2]), V<float> (mx[0], mx[1], mx[2]), V<float> (p[0], p[1], p[2]), V<float> (d[0], d[1], d[2]), ints);
    run<double> (fam, V<double> (mn[0], mn[1], mn[2]), V<double> (mx[0], mx[1], mx[2]), V<double> (p[0], p[1], p[2]), V<double> (d[0], d[1], d[2]), ints);
}

static void lattice (uint64_t seed, int n)
{
    VtRng rng (seed);
    static const int C[4] = {0, 1, 2, 3};
    for (int it = 0; it < n; ++it)
    {
        int mn[3], mx[3], p[3], d[3];
        bool wide = (it % 4) == 3;
        for (int i = 0; i < 3; ++i)
        {
            mn[i] = C[rng.below (4)]; mx[i] = C[rng.below (4)];
            if (rng.below (8) != 0 && mx[i] < mn[i]) { int t = mn[i]; mn[i] = mx[i]; mx[i] = t; }   // mostly proper, sometimes inverted
            p[i] = wide ? rng.range (-16, 16) : rng.range (-1, 4);
            d[i] = wide ? rng.range (-13, 13) : rng.range (-2, 2);
        }
        if (d[0] == 0 && d[1] == 0 && d[2] == 0) d[rng.below (3)] = 1;
        both ("lattice", mn, mx, p, d);
    }
}

static void through (uint64_t seed, int n)
{
    VtRng rng (seed + 99);
    for (int it = 0; it < n; ++it)
    {
        int mn[3], mx[3], q[3], e[3], p[3], d[3];
        for (int i = 0; i < 3; ++i)
        {
            mn[i] = rng.range (-3, 2); mx[i] = mn[i] + (rng.below (3) == 0 ? 0 : rng.range (1, 4));   // flat on some axes
            // target point on the box surface: a lattice point with at least one coordinate on a face
            q[i] = rng.range (mn[i], mx[i]);
            e[i] = rng.range (-3, 3);
        }
        int f = (int) rng.below (3);
        q[f] = rng.below (2) ? mn[f] : mx[f];
        if (rng.below (2)) { int g = (f + 1) % 3; q[g] = rng.below (2) ? mn[g] : mx[g]; }            // edge
        if (rng.below (3) == 0) { int g = (f + 2) % 3; q[g] = rng.below (2) ? mn[g] : mx[g]; }       // corner
        if (e[0] == 0 && e[1] == 0 && e[2] == 0) e[rng.below (3)] = 1;
        int a = rng.range (-7, 7), b = rng.range (1, 7);
        for (int i = 0; i < 3; ++i) { p[i] = q[i] - a * e[i]; d[i] = b * e[i]; }
        both ("through", mn, mx, p, d);
        // and a near miss: the same ray displaced by one unit on an axis orthogonal-ish to the direction
        int k = (int) rng.below (3);
        p[k] += rng.below (2) ? 1 : -1;
        both ("through", mn, mx, p, d);
    }
}

template <class T> static void extreme_T (uint64_t seed, int n)
{
    VtRng rng (seed + 7 + sizeof (T));
    const T tiny = std::numeric_limits<T>::denorm_min ();
    const T mn_  = std::numeric_limits<T>::min ();
    const T big  = std::numeric_limits<T>::max ();
    const T comps[] = {0, tiny, tiny * 64, mn_, mn_ * 1024, (T) 1e-20, (T) 1e-3, 1, 3, (T) 1e10,
                       sizeof (T) == 4 ? (T) 1.2676506e30 : (T) 1e150, big / 8, big};
    const int NC = sizeof (comps) / sizeof (comps[0]);
    for (int it = 0; it < n; ++it)
    {
        Vec3<T> mnv, mxv, pos, dir;
        for (int i = 0; i < 3; ++i)
        {
            mnv[i] = (T) rng.range (-2, 1); mxv[i] = mnv[i] + (T) rng.range (0, 3);
            // origin: inside, on a face, just outside, far outside
            switch (rng.below (5))
            {
                case 0: pos[i] = (mnv[i] + mxv[i]) / 2; break;
                case 1: pos[i] = mnv[i]; break;
                case 2: pos[i] = mnv[i] - (T) 0.001; break;
                case 3: pos[i] = mxv[i] + (T) 0.5; break;
                default: pos[i] = (T) rng.range (-1000, 1000); break;
            }
            T c = comps[rng.below (3) ? rng.below (9) : rng.below (NC)];
            dir[i] = rng.below (2) ? c : -c;
        }
        if (dir.x == 0 && dir.y == 0 && dir.z == 0) dir[rng.below (3)] = comps[1 + rng.below (NC - 1)];
        run<T> ("extreme", mnv, mxv, pos, dir);
        if (it % 8 == 0)
        {
            // Directed: every direction component tiny, but of different sizes.  The origin sits on the low face of axis a; the
            // slab of axis b is reached at a representable parameter (K / tb) at which the line is off the face of axis a by a
            // clear margin (2^-6 .. 2^-10), on the inside (hit) or on the outside (miss): an axis may not be written off as
            // parallel because ONE of its plane distances overflows.
            int a = (int) rng.below (3), b = (a + 1 + (int) rng.below (2)) % 3, c = 3 - a - b;
            for (int i = 0; i < 3; ++i) { mnv[i] = (T) rng.range (-2, 1); mxv[i] = mnv[i] + (T) rng.range (1, 3); }
            mxv[b] = mnv[b];                                                     // flat in b: it is crossed at one parameter only
            pos[a] = mnv[a]; pos[c] = (mnv[c] + mxv[c]) / 2;
            T K = (T) rng.range (100, 900);
            bool behind = rng.below (2) != 0;                                    // the crossing lies behind the origin / ahead of it
            pos[b] = behind ? mnv[b] + K : mnv[b] - K;
            T da = tiny * (T) 64 * (rng.below (2) ? T (1) : T (-1));              // direction along a: into the box, or out of it
            T off = (T) std::ldexp (1.0, -(int) rng.range (6, 10));               // |offset| along a at the crossing
            T tb = std::fabs (da) * K / off;                                     // speed along b, so that |da| * (K / tb) = off
            dir[a] = da; dir[b] = tb; dir[c] = 0;
            run<T> ("extreme", mnv, mxv, pos, dir);
            dir[b] = -tb;
            run<T> ("extreme", mnv, mxv, pos, dir);
        }
        if (it % 8 == 4)
        {
            // Directed: a box that is empty by the smallest possible amount on one axis (inverted by one ulp, or by the smallest
            // subnormal), with the origin far away along that axis and the line passing through the other two slabs: the two
            // plane distances of the inverted axis round to the same value, so only an explicit emptiness test says "no".
            int a = (int) rng.below (3);
            for (int i = 0; i < 3; ++i) { mnv[i] = (T) rng.range (-2, 1); mxv[i] = mnv[i] + (T) rng.range (1, 3); pos[i] = (mnv[i] + mxv[i]) / 2; dir[i] = 0; }
            switch (rng.below (3))
            {
                case 0: mxv[a] = (T) rng.range (1, 3); mnv[a] = std::nextafter (mxv[a], big); break;
                case 1: mxv[a] = 0; mnv[a] = tiny; break;
                default: mnv[a] = 0; mxv[a] = -tiny; break;
            }
            T far_ = (T) rng.range (100, 1000);
            bool neg = rng.below (2) != 0;
            pos[a] = neg ? -far_ : far_;
            dir[a] = neg ? T (1) : T (-1);                                      // towards the box
            if (rng.below (2)) dir[(a + 1) % 3] = (T) std::ldexp (1.0, -14);      // a slight slope that stays inside the other slabs
            run<T> ("extreme", mnv, mxv, pos, dir);
            dir[a] = -dir[a];                                                    // and away from it (the line still crosses)
            run<T> ("extreme", mnv, mxv, pos, dir);
        }
    }
}

int main (int argc, char** argv)
{
    vt_init ();
    std::string mode = argc > 1 ? argv[1] : "lattice";
    uint64_t    seed = argc > 2 ? strtoull (argv[2], 0, 10) : 1;
    int         n    = argc > 3 ? atoi (argv[3]) : 1000;
    if (mode == "lattice") lattice (seed, n);
    else if (mode == "through") through (seed, n);
    else if (mode == "extreme") { extreme_T<float> (seed, n); extreme_T<double> (seed, n); }
    else return 2;
    return 0;
}
