// Raw-bit ndjson emitter shared by all recorders/replayers.
// The harness only drives the real API and logs what it saw; floats are logged
// as 16-bit words (most significant first) so that all decoding and all
// judgement happens in the TLA+ specification.
#ifndef VERIF_VTRACE_H
#define VERIF_VTRACE_H
#include <stdint.h>
#include <stdio.h>
#include <string.h>
#ifdef __cplusplus
#include <string>
#include <exception>
#include <cstdlib>
#include <unistd.h>
#endif

static inline void vt_w32 (FILE* f, uint32_t u)
{
    fprintf (f, "[%u,%u]", (unsigned) (u >> 16), (unsigned) (u & 0xffffu));
}
static inline void vt_w64 (FILE* f, uint64_t u)
{
    fprintf (f, "[%u,%u,%u,%u]", (unsigned) ((u >> 48) & 0xffffu), (unsigned) ((u >> 32) & 0xffffu),
             (unsigned) ((u >> 16) & 0xffffu), (unsigned) (u & 0xffffu));
}
static inline uint32_t vt_fbits (float x) { uint32_t u; memcpy (&u, &x, 4); return u; }
static inline uint64_t vt_dbits (double x) { uint64_t u; memcpy (&u, &x, 8); return u; }
static inline float vt_bitsf (uint32_t u) { float x; memcpy (&x, &u, 4); return x; }
static inline double vt_bitsd (uint64_t u) { double x; memcpy (&x, &u, 8); return x; }
static inline void vt_f (FILE* f, float x) { vt_w32 (f, vt_fbits (x)); }
static inline void vt_d (FILE* f, double x) { vt_w64 (f, vt_dbits (x)); }

#ifdef __cplusplus
// generic: words of a float or double, chosen by overload
static inline void vt_num (FILE* f, float x) { vt_f (f, x); }
static inline void vt_num (FILE* f, double x) { vt_d (f, x); }
static inline const char* vt_tag (float) { return "f"; }
static inline const char* vt_tag (double) { return "d"; }

// a crash must truncate the trace, never corrupt it
static FILE* vt_out = stdout;
// An exception that escapes from the library through the recorder (a call that was not supposed to throw) must not
// silently truncate the trace: flush what was recorded, say why on stderr, and exit with a code the driver reports as a
// violation (the recorded call did not return).
static inline void vt_terminate ()
{
    fflush (vt_out);
    const char* what = "unknown";
    try { std::exception_ptr p = std::current_exception (); if (p) std::rethrow_exception (p); }
    catch (const std::exception& e) { what = e.what (); }
    catch (...) {}
    fprintf (stderr, "recorder terminated by an uncaught exception: %s\n", what);
    fflush (stderr);
    _exit (86);
}
static inline void vt_init () { std::set_terminate (vt_terminate); }

// deterministic generator for drivers (never wall clock)
struct VtRng
{
    uint64_t s;
    explicit VtRng (uint64_t seed) : s (seed * 0x9E3779B97F4A7C15ull + 0xD1B54A32D192ED03ull) {}
    uint64_t next ()
    {
        s ^= s << 13; s ^= s >> 7; s ^= s << 17;
        return s * 0x2545F4914F6CDD1Dull;
    }
    uint32_t below (uint32_t n) { return (uint32_t) ((next () >> 16) % n); }
    int range (int lo, int hi) { return lo + (int) below ((uint32_t) (hi - lo + 1)); }
};
#endif
#endif
