// A test WorkerPool for C20, built against the repo's public PyImathTask.h and loaded with ctypes
// into the interpreter that imported the real imath module (it links the same libPyImath).
// dispatch() executes an imposed *schedule* - a list of (start, end, tid) ranges in a given order,
// sequentially or each range on its own thread released together by a barrier - and logs what it
// was asked to do.  It never inspects data.
#include <PyImathTask.h>
#include <atomic>
#include <condition_variable>
#include <cstdio>
#include <mutex>
#include <string>
#include <thread>
#include <vector>

namespace {

struct Range { long s, e; int tid; };

struct ShimPool : public PyImath::WorkerPool
{
    std::vector<Range> schedule;
    bool               threaded = false;
    std::string        log;
    std::mutex         mu;

    size_t workers () const override { return 8; }
    bool   inWorkerThread () const override { return false; }

    void dispatch (PyImath::Task& task, size_t length) override
    {
        char buf[96];
        snprintf (buf, sizeof buf, "D %zu;", length);
        log += buf;
        std::vector<Range> plan = schedule;
        if (plan.empty ()) plan.push_back (Range{0, (long) length, 0});
        if (!threaded)
        {
            for (const Range& r : plan)
            {
                snprintf (buf, sizeof buf, "E %ld %ld %d;", r.s, r.e, r.tid);
                log += buf;
                task.execute ((size_t) r.s, (size_t) r.e, r.tid);
            }
            return;
        }
        // all ranges start together
        std::mutex              m;
        std::condition_variable cv;
        bool                    go = false;
        std::vector<std::thread> ts;
        for (const Range& r : plan)
        {
            snprintf (buf, sizeof buf, "E %ld %ld %d;", r.s, r.e, r.tid);
            log += buf;
            ts.emplace_back ([&task, r, &m, &cv, &go] () {
                {
                    std::unique_lock<std::mutex> lk (m);
                    cv.wait (lk, [&go] { return go; });
                }
                task.execute ((size_t) r.s, (size_t) r.e, r.tid);
            });
        }
        {
            std::lock_guard<std::mutex> lk (m);
            go = true;
        }
        cv.notify_all ();
        for (std::thread& t : ts) t.join ();
    }
};

ShimPool g_pool;
}

extern "C" {
void shim_install () { PyImath::WorkerPool::setCurrentPool (&g_pool); }
void shim_uninstall () { PyImath::WorkerPool::setCurrentPool (nullptr); }
void shim_set_schedule (int n, const long* s, const long* e, const int* tid, int threaded)
{
    g_pool.schedule.clear ();
    for (int i = 0; i < n; ++i) g_pool.schedule.push_back (Range{s[i], e[i], tid[i]});
    g_pool.threaded = threaded != 0;
}
const char* shim_log () { return g_pool.log.c_str (); }
void shim_log_clear () { g_pool.log.clear (); }
}
