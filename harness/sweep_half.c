/* Exhaustive sweep of the float<->half conversions (C01, C02).
 *
 * Compiled once per build configuration of half.h (C / C++14,17,20 / table /
 * no-table / F16C).  Given slice indices k0..k1 (each slice is 2^24 patterns,
 * 256 slices in all) it pushes every float bit pattern of those slices through
 * imath_float_to_half (and, in C++, through half(float).bits()) and writes a
 * run certificate: maximal runs [lo,hi] of consecutive patterns with the same
 * outputs, bracketed by begin/end events per slice.  With k0 = -1 it logs all
 * 2^16 half->float conversions instead.  No value is interpreted here.
 */
#include "vtrace.h"
#include <half.h>
#include <fenv.h>
#ifdef SWEEP_DAZ_FTZ
#include <xmmintrin.h>
#endif

#ifdef __cplusplus
using IMATH_INTERNAL_NAMESPACE::half;
static inline uint16_t via_ctor (float f) { return half (f).bits (); }
static inline float via_cast (uint16_t h) { half x; x.setBits (h); return (float) x; }
#define LANG "c++"
#else
static inline uint16_t via_ctor (float f) { return imath_float_to_half (f); }
static inline float via_cast (uint16_t h) { return imath_half_to_float (h); }
#define LANG "c"
#endif

static void slice (FILE* o, unsigned k)
{
    uint64_t lo = (uint64_t) k << 24, hi = (uint64_t) (k + 1) << 24;
    fprintf (o, "{\"e\":\"begin\",\"pos\":");
    vt_w32 (o, (uint32_t) lo);
    fprintf (o, "}\n");
    uint32_t run_lo = (uint32_t) lo;
    uint16_t rc = imath_float_to_half (vt_bitsf ((uint32_t) lo));
    uint16_t rk = via_ctor (vt_bitsf ((uint32_t) lo));
    for (uint64_t u = lo + 1; u < hi; ++u)
    {
        float    f = vt_bitsf ((uint32_t) u);
        uint16_t c = imath_float_to_half (f);
        uint16_t q = via_ctor (f);
        if (c != rc || q != rk)
        {
            fprintf (o, "{\"e\":\"run\",\"lo\":");
            vt_w32 (o, run_lo);
            fprintf (o, ",\"hi\":");
            vt_w32 (o, (uint32_t) (u - 1));
            fprintf (o, ",\"c\":%u,\"k\":%u}\n", rc, rk);
            run_lo = (uint32_t) u; rc = c; rk = q;
        }
    }
    fprintf (o, "{\"e\":\"run\",\"lo\":");
    vt_w32 (o, run_lo);
    fprintf (o, ",\"hi\":");
    vt_w32 (o, (uint32_t) (hi - 1));
    fprintf (o, ",\"c\":%u,\"k\":%u}\n", rc, rk);
    /* end position as a word pair; 2^32 is logged as [65536,0] */
    fprintf (o, "{\"e\":\"end\",\"pos\":[%u,0]}\n", (unsigned) (hi >> 16));
}

int main (int argc, char** argv)
{
    if (argc < 4) { fprintf (stderr, "usage: sweep_half <config-name> <k0|-1> <k1> [nanmode]\n"); return 2; }
    const char* cfg = argv[1];
    int k0 = atoi (argv[2]), k1 = atoi (argv[3]);
    const char* nanmode = argc > 4 ? argv[4] : "sw";
#ifdef SWEEP_DAZ_FTZ
    /* ... and whatever the thread's denormal handling is (denormals-are-zero / flush-to-zero, as set by code built with
       -ffast-math): the conversions are integer algorithms and must not pass through FPU arithmetic on denormals */
    _mm_setcsr (_mm_getcsr () | 0x8040u);
#endif
#ifdef SWEEP_FE_UPWARD
    /* the conversions are specified as round-to-nearest-even whatever the thread's current rounding direction is */
    fesetround (FE_UPWARD);
#endif
    FILE* o = stdout;
    fprintf (o, "{\"e\":\"cfg\",\"name\":\"%s\",\"lang\":\"%s\",\"nanmode\":\"%s\"}\n", cfg, LANG, nanmode);
    if (k0 < 0)
    {
        for (uint32_t h = 0; h < 65536; ++h)
        {
            fprintf (o, "{\"e\":\"h2f\",\"h\":%u,\"c\":", h);
            vt_f (o, imath_half_to_float ((uint16_t) h));
            fprintf (o, ",\"k\":");
            vt_f (o, via_cast ((uint16_t) h));
            fprintf (o, "}\n");
        }
        return 0;
    }
    for (int k = k0; k <= k1; ++k) slice (o, (unsigned) k);
    return 0;
}
