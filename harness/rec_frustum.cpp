// Recorder for C16: Frustum and FrustumTest.
//   rec_frustum rec <seed> <count>       random frusta, cameras, points, boxes, spheres
//   rec_frustum replay <programs.txt>    TLC-generated operation sequences ("prog <id>", "start n f l r t b o", "<op> args...")
#include "vrec.h"
#include <ImathFrustum.h>
#include <ImathFrustumTest.h>
#include <ImathBox.h>
#include <ImathSphere.h>
#include <cmath>
#include <fstream>
#include <sstream>

template <class T> static const char* tg () { return vt_tag (T ()); }
// screenToLocal / localToScreen are protected: reach them through a derived class
template <class T> struct FrX : Frustum<T>
{
    explicit FrX (const Frustum<T>& f) : Frustum<T> (f) {}
    using Frustum<T>::screenToLocal;
    using Frustum<T>::localToScreen;
};
template <class T> static std::string jstate (const Frustum<T>& f)
{
    T a[6] = {f.nearPlane (), f.farPlane (), f.left (), f.right (), f.top (), f.bottom ()};
    return jlist (a, 6);
}
template <class T> static void putstate (Rec& r, const char* k, const char* ko, const Frustum<T>& f) { r.raw (k, jstate (f)); r.num (ko, f.orthographic ()); }
template <class T> static std::string jplanes (const Plane3<T>* p)
{
    std::string s = "[";
    for (int i = 0; i < 6; ++i) { T a[4] = {p[i].normal.x, p[i].normal.y, p[i].normal.z, p[i].distance}; s += (i ? "," : "") + jlist (a, 4); }
    return s + "]";
}

static std::string jints (const int* a, int n) { std::string s = "["; for (int i = 0; i < n; ++i) s += (i ? "," : "") + std::to_string (a[i]); return s + "]"; }
// every query of a frustum that involves no other object
template <class T> static void queries (const Frustum<T>& F, Gen<T>& g, int prog, int step)
{
    const char* t = tg<T> ();
    {
        Rec r ("proj"); r.str ("t", t); r.num ("prog", prog); r.num ("step", step); putstate (r, "st", "o", F); r.raw ("m", jv (F.projectionMatrix ()));
        r.raw ("fovx", jw (F.fovx ())); r.raw ("fovy", jw (F.fovy ())); r.raw ("tfx", jw ((T) std::tan (F.fovx ()))); r.raw ("tfy", jw ((T) std::tan (F.fovy ())));
        r.raw ("aspect", jw (F.aspect ())); r.num ("degenerate", F.degenerate ());
        Plane3<T> p[6]; F.planes (p); r.raw ("planes", jplanes (p));
        T hy[2] = {F.hither (), F.yon ()}; r.raw ("hy", jlist (hy, 2));
        // the checked twins: where they return, they return the same bits
        try { r.raw ("mExc", jv (F.projectionMatrixExc ())); } catch (const std::exception&) {}
        try { r.raw ("aspectExc", jw (F.aspectExc ())); } catch (const std::exception&) {}
        r.emit ();
    }
    {
        // equality: a copy compares equal; a frustum differing in exactly one of the seven state components does not
        Rec r ("freq"); r.str ("t", t); putstate (r, "st", "o", F);
        Frustum<T> C (F); Frustum<T> A; A = F;
        int eq[9], ne[9];
        eq[0] = (F == C); ne[0] = (F != C); eq[1] = (A == F); ne[1] = (A != F);
        for (int k = 0; k < 7; ++k)
        {
            T a[6] = {F.nearPlane (), F.farPlane (), F.left (), F.right (), F.top (), F.bottom ()};
            bool o = F.orthographic ();
            if (k < 6) a[k] = a[k] + (a[k] == T (0) ? T (1) : std::abs (a[k]) / T (4)); else o = !o;
            Frustum<T> G (a[0], a[1], a[2], a[3], a[4], a[5], o);
            eq[2 + k] = (F == G); ne[2 + k] = (F != G);
        }
        r.raw ("eq", jints (eq, 9)); r.raw ("ne", jints (ne, 9)); r.emit ();
    }
    for (int k = 0; k < 4; ++k)
    {
        // a point in front of the camera, anywhere around the window (k == 3: behind the eye plane, where the homogeneous
        // weight of  point * projectionMatrix  is negative)
        T z = -(F.nearPlane () + (F.farPlane () - F.nearPlane ()) * T (g.rng.range (0, 8)) / T (8)) * (k == 2 ? T (3) : (k == 3 ? T (-1) : T (1)));
        T sx = F.orthographic () ? T (1) : -z / F.nearPlane ();
        Vec3<T> p ((F.left () + (F.right () - F.left ()) * T (g.rng.range (-2, 10)) / T (8)) * sx, (F.bottom () + (F.top () - F.bottom ()) * T (g.rng.range (-2, 10)) / T (8)) * sx, z);
        Vec2<T> s = F.projectPointToScreen (p);
        Line3<T> ray = F.projectScreenToRay (s);
        Vec3<T> onray = ray (T (2.5) * F.nearPlane ());
        Vec2<T> loc = FrX<T> (F).screenToLocal (s);
        T rad = T (1 + g.rng.below (4)) / T (4);
        T sr = F.screenRadius (p, rad);
        Rec r ("pt"); r.str ("t", t); putstate (r, "st", "o", F); r.raw ("m", jv (F.projectionMatrix ())); r.raw ("p", jv (p)); r.raw ("s", jv (s));
        r.raw ("pos", jv (ray.pos)); r.raw ("dir", jv (ray.dir)); r.raw ("s2", jv (F.projectPointToScreen (onray))); r.raw ("onray", jv (onray));
        r.raw ("loc", jv (loc)); r.raw ("back", jv (FrX<T> (F).localToScreen (loc)));
        r.raw ("rad", jw (rad)); r.raw ("sr", jw (sr)); r.raw ("wr", jw (F.worldRadius (p, sr)));
        try { r.raw ("sExc", jv (F.projectPointToScreenExc (p))); } catch (const std::exception&) {}
        try { r.raw ("srExc", jw (F.screenRadiusExc (p, rad))); } catch (const std::exception&) {}
        try { r.raw ("wrExc", jw (F.worldRadiusExc (p, sr))); } catch (const std::exception&) {}
        r.emit ();
    }
    for (int k = 0; k <= 4; ++k)
    {
        T zn = T (k) / T (4);
        long zmin = (k % 2) ? -100 : 0, zmax = (k % 2) ? 923 : 65535;
        if (k == 3) { zmin = -1073741824L; zmax = 2147483647L; }           // a range wider than INT_MAX (the z arguments are long)
        T d = F.normalizedZToDepth (zn);
        long Z = F.DepthToZ (d, zmin, zmax);
        T d2 = F.ZToDepth (Z, zmin, zmax);
        long Zq = zmin + (zmax - zmin) * k / 4;
        Rec r ("depth"); r.str ("t", t); putstate (r, "st", "o", F); r.raw ("zn", jw (zn)); r.raw ("d", jw (d)); r.num ("zmin", zmin); r.num ("zmax", zmax); r.num ("Z", Z);
        r.raw ("d2", jw (d2)); r.num ("Zq", Zq); r.raw ("dq", jw (F.ZToDepth (Zq, zmin, zmax)));
        try { r.raw ("dExc", jw (F.normalizedZToDepthExc (zn))); } catch (const std::exception&) {}
        try { r.num ("ZExc", F.DepthToZExc (d, zmin, zmax)); } catch (const std::exception&) {}
        try { r.raw ("d2Exc", jw (F.ZToDepthExc (Z, zmin, zmax))); } catch (const std::exception&) {}
        r.emit ();
    }
}

template <class T> static Matrix44<T> camera (Gen<T>& g, int fam)
{
    // 0 identity, 1 translation, 2 rigid, 3 uniformly scaled rigid, 4 non-uniform scale, 5 rolled 90 degrees about the view axis, 6 sheared, 7 quarter turns
    Matrix44<T> R, S, Tm, H;
    Vec3<T> tr (g.smallInt (5), g.smallInt (5), g.smallInt (5));
    if (fam >= 1) Tm.setTranslation (tr);
    if (fam == 2 || fam == 3 || fam == 4 || fam == 6) R.setEulerAngles (Vec3<T> (g.full (), g.full (), g.full ()));
    if (fam == 3) S.setScale (T (g.rng.below (2) ? 2 : 0.25));
    if (fam == 4) S.setScale (Vec3<T> (2, 0.5, 1.5));
    if (fam == 5) R = Matrix44<T> (0, 1, 0, 0, -1, 0, 0, 0, 0, 0, 1, 0, 0, 0, 0, 1);
    if (fam == 6) H.setShear (Vec3<T> (0.5, -0.25, 0.25));
    if (fam == 7) { static const T q[3][9] = {{0, 0, 1, 0, 1, 0, -1, 0, 0}, {1, 0, 0, 0, 0, 1, 0, -1, 0}, {0, 1, 0, 0, 0, 1, 1, 0, 0}}; int k = g.rng.below (3); for (int i = 0; i < 3; ++i) for (int j = 0; j < 3; ++j) R[i][j] = q[k][i * 3 + j]; }
    return S * H * R * Tm;
}

template <class T> static void culling (const Frustum<T>& Fin, Gen<T>& g, int it)
{
    const char* t = tg<T> ();
    int fam = it % 8;
    int how = (it / 8) % 4;          // 0 FrustumTest(F, M); 1 default-constructed (default frustum, identity camera); 2 constructed with the defaults explicitly; 3 constructed, then setFrustum to something else and back
    Frustum<T> F = (how == 1 || how == 2) ? Frustum<T> () : Fin;
    Matrix44<T> M = (how == 1 || how == 2) ? Matrix44<T> () : camera<T> (g, fam);
    Plane3<T> p[6], q0[6], viaMul[6];
    F.planes (p, M);
    F.planes (q0);
    for (int i = 0; i < 6; ++i) viaMul[i] = q0[i] * M;
    {
        Rec r ("planesM"); r.str ("t", t); r.num ("fam", fam); putstate (r, "st", "o", F); r.raw ("cam", jv (M)); r.raw ("planes", jplanes (p)); r.raw ("mul", jplanes (viaMul)); r.emit ();
    }
    FrustumTest<T> ftA (F, M), ftB;
    if (how == 3) { Frustum<T> other (F.nearPlane () * 2, F.farPlane () * 3, F.left () - 1, F.right () + 2, F.top () + 1, F.bottom () - 2, !F.orthographic ()); Matrix44<T> om; om.translate (Vec3<T> (5, -3, 2));
                    ftA.setFrustum (other, om); ftA.setFrustum (F, M); }
    FrustumTest<T>& ft = (how == 1) ? ftB : ftA;
    // witnesses: points of the frustum in camera space, pushed through the camera matrix
    for (int k = 0; k < 6; ++k)
    {
        // local point at fractions (u, v, w) of the frustum (beyond [0,1] = outside)
        int iu = g.rng.range (-2, 10), ivv = g.rng.range (-2, 10), iw = g.rng.range (-2, 10);
        if (k < 2) { iu = g.rng.range (1, 7); ivv = g.rng.range (1, 7); iw = g.rng.range (1, 7); }       // inside
        T w = T (iw) / T (8), z = -(F.nearPlane () + (F.farPlane () - F.nearPlane ()) * w);
        T sx = F.orthographic () ? T (1) : -z / F.nearPlane ();
        Vec3<T> loc ((F.left () + (F.right () - F.left ()) * T (iu) / T (8)) * sx, (F.bottom () + (F.top () - F.bottom ()) * T (ivv) / T (8)) * sx, z);
        Vec3<T> x = loc * M;
        // a box and a sphere that contain the witness x: centred on it, or touching it with a corner / surface point
        T ext = (F.farPlane () - F.nearPlane ()) * T (1 + g.rng.below (12)) / T (16);
        if (k % 3 == 2) ext = ext / T (64);
        Vec3<T> off (0, 0, 0);
        if (k % 2) off = Vec3<T> (g.rng.below (2) ? ext : -ext, g.rng.below (2) ? ext : -ext, g.rng.below (2) ? ext : -ext) * T (0.9375);
        Box<Vec3<T>> bx (x + off - Vec3<T> (ext, ext, ext), x + off + Vec3<T> (ext, ext * T (0.5), ext * T (2)) );
        bx.extendBy (x);
        Sphere3<T> sp (x + off, (k % 2) ? off.length () * T (1.0625) : ext);
        Rec r ("cull"); r.str ("t", t); r.num ("fam", fam); r.num ("how", how); r.num ("k", k); r.raw ("planes", jplanes (p)); r.raw ("x", jv (x));
        if (k == 0) { r.raw ("cam", jv (M)); r.raw ("camm", jv (ft.cameraMat ())); putstate (r, "st", "o", F); putstate (r, "cst", "co", ft.currentFrustum ()); }
        r.num ("vp", ft.isVisible (x));
        r.raw ("bmin", jv (bx.min)); r.raw ("bmax", jv (bx.max)); r.num ("vb", ft.isVisible (bx)); r.num ("cb", ft.completelyContains (bx));
        r.raw ("sc", jv (sp.center)); r.raw ("sr", jw (sp.radius)); r.num ("vs", ft.isVisible (sp)); r.num ("cs", ft.completelyContains (sp));
        r.emit ();
    }
}

template <class T> static Frustum<T> randomFrustum (Gen<T>& g, int it)
{
    int fam = it % 6;    // 0 symmetric, 1 asymmetric window, 2 off-centre (window not containing the axis), 3 wide near/far ratio, 4 dyadic, 5 tiny window
    T n = T (1 << g.rng.below (4)) / T (4);
    T f = n * T (2 + g.rng.below (30));
    if (fam == 3) { n = (T) std::ldexp (1.0, -g.rng.range (2, 10)); f = (T) std::ldexp (1.0, g.rng.range (3, 12)); }
    T l = -T (1 + g.rng.below (8)) / T (4), r = T (1 + g.rng.below (8)) / T (4), b = -T (1 + g.rng.below (8)) / T (4), tp = T (1 + g.rng.below (8)) / T (4);
    if (fam == 0) { l = -r; b = -tp; }
    if (fam == 2) { l = r + T (0.25); r = l + T (1 + g.rng.below (4)) / T (2); if (g.rng.below (2)) { b = tp + T (0.5); tp = b + T (1); } }
    if (fam == 4) { l = -std::fabs (g.dyadic ()) - T (0.125); r = std::fabs (g.dyadic ()) + T (0.125); b = -std::fabs (g.dyadic ()) - T (0.125); tp = std::fabs (g.dyadic ()) + T (0.125); }
    if (fam == 5) { l /= 64; r /= 64; b /= 64; tp /= 64; }
    bool ortho = (it / 6) % 2 == 1;
    if (ortho && (it / 12) % 3 == 1) n = 0;                    // an orthographic volume may start at, or behind, the eye plane
    if (ortho && (it / 12) % 3 == 2) n = -f / 2;
    return Frustum<T> (n, f, l, r, tp, b, ortho);
}

template <class T> static void rec (Gen<T>& g, int it)
{
    const char* t = tg<T> ();
    Frustum<T> F = randomFrustum<T> (g, it);
    queries<T> (F, g, -1, 0);
    culling<T> (F, g, it);
    // set(near, far, fovx | fovy, aspect)
    {
        T n = T (1 + g.rng.below (4)), f = n * T (4), fov = T (g.rng.range (2, 24)) / T (16), asp = T (1 + g.rng.below (8)) / T (4);
        bool useX = it % 2;
        Frustum<T> G; G.set (n, f, useX ? fov : T (0), useX ? T (0) : fov, asp);
        Rec r ("setfov"); r.str ("t", t); r.num ("usex", useX); r.raw ("n", jw (n)); r.raw ("f", jw (f)); r.raw ("fov", jw (fov)); r.raw ("asp", jw (asp)); r.raw ("tanhalf", jw ((T) std::tan (fov / T (2))));
        putstate (r, "st", "o", G); r.raw ("fovx", jw (G.fovx ())); r.raw ("fovy", jw (G.fovy ())); r.raw ("aspect", jw (G.aspect ())); r.emit ();
    }
    // modifyNearAndFar and window on this frustum
    {
        Frustum<T> G = F; T n2 = F.nearPlane () * T (1 + g.rng.below (3)) / T (2), f2 = F.farPlane () * T (2);
        G.modifyNearAndFar (n2, f2);
        Rec r ("step"); r.str ("t", t); r.num ("prog", -1); r.num ("step", 0); r.str ("op", "modnf"); putstate (r, "st0", "o0", F); T a[2] = {n2, f2}; r.raw ("a", jlist (a, 2)); putstate (r, "st1", "o1", G); r.emit ();
        T wl = T (g.rng.range (-8, 0)) / T (8), wr = T (g.rng.range (1, 8)) / T (8), wb = T (g.rng.range (-8, 0)) / T (8), wt = T (g.rng.range (1, 8)) / T (8);
        Frustum<T> W = F.window (wl, wr, wt, wb);
        Rec q ("step"); q.str ("t", t); q.num ("prog", -1); q.num ("step", 0); q.str ("op", "window"); putstate (q, "st0", "o0", F); T wa[4] = {wl, wr, wt, wb}; q.raw ("a", jlist (wa, 4)); putstate (q, "st1", "o1", W); q.emit ();
    }
}

template <class T> static void replayT (const char* path)
{
    const char* t = tg<T> ();
    std::ifstream in (path);
    std::string line;
    int prog = -1, step = 0;
    Frustum<T> F;
    Gen<T> g (7);
    while (std::getline (in, line))
    {
        std::istringstream ss (line);
        std::string op; ss >> op;
        std::vector<double> a; double x; while (ss >> x) a.push_back (x);
        if (op == "prog") { prog = (int) a[0]; step = 0; continue; }
        Frustum<T> before = F;
        if (op == "start" || op == "set") F.set (T (a[0]), T (a[1]), T (a[2]), T (a[3]), T (a[4]), T (a[5]), a[6] != 0);
        else if (op == "ortho") F.setOrthographic (a[0] != 0);
        else if (op == "modnf") F.modifyNearAndFar (T (a[0]), T (a[1]));
        else if (op == "window") { Frustum<T> W = F.window (T (a[0] / 2), T (a[1] / 2), T (a[2] / 2), T (a[3] / 2)); F = W; for (int i = 0; i < 4; ++i) a[i] /= 2; }
        else { fprintf (stderr, "unknown op %s\n", op.c_str ()); exit (2); }
        ++step;
        std::vector<T> at (a.begin (), a.end ());
        Rec r ("step"); r.str ("t", t); r.num ("prog", prog); r.num ("step", step); r.str ("op", op == "start" ? "set" : op.c_str ()); putstate (r, "st0", "o0", before);
        r.raw ("a", jlist (at.data (), (int) at.size ())); putstate (r, "st1", "o1", F);
        Frustum<T> copy (F); Frustum<T> assigned; assigned = F;
        r.num ("eqcopy", copy == F && assigned == F && !(copy != F)); r.num ("eqbefore", before == F); r.emit ();
        queries<T> (F, g, prog, step);
    }
}

int main (int argc, char** argv)
{
    vt_init ();
    std::string mode = argc > 1 ? argv[1] : "rec";
    if (mode == "replay") { replayT<float> (argv[2]); replayT<double> (argv[2]); return 0; }
    uint64_t seed = argc > 2 ? strtoull (argv[2], 0, 10) : 1;
    int      n    = argc > 3 ? atoi (argv[3]) : 10;
    Gen<float> gf (seed); Gen<double> gd (seed + 13);
    for (int it = 0; it < n; ++it)
    {
        int k = it + (int) (seed % 16) * n;
        rec<float> (gf, k); rec<double> (gd, k);
    }
    return 0;
}
