-------------------------------- MODULE Euler --------------------------------
(***************************************************************************)
(* Euler angles in all 24 orders (C11).                                    *)
(*                                                                         *)
(* Finite part (exact): an order code is 0xABCD with A = initial axis,     *)
(* B = parity even, C = initial axis repeated, D = frame static.  Decode,  *)
(* the slot permutations angleOrder / angleMapping and the XYZ layout are  *)
(* finite tables; MCEuler checks the encode/decode bijection and that the  *)
(* permutations are mutually inverse, and exports the table for replay.    *)
(*                                                                         *)
(* Numeric part: the rotation of (a1,a2,a3) in order o is the product of   *)
(* three elementary rotations (row-vector convention)                      *)
(*      R_s1(b1) * R_s2(b2) * R_s3(b3)                                     *)
(* where <<s1,s2,s3>> = <<i, j, IF repeated THEN i ELSE k>> from           *)
(* angleOrder and <<b1,b2,b3>> is <<a1,a2,a3>> for static frames and the   *)
(* reverse for rotating ("r") frames - polynomials in the logged sines and *)
(* cosines of the three stored angles.                                     *)
(***************************************************************************)
EXTENDS Rotation

Names == <<"XYZ", "XZY", "YZX", "YXZ", "ZXY", "ZYX", "XZX", "XYX", "YXY", "YZY", "ZYZ", "ZXZ",
           "XYZr", "XZYr", "YZXr", "YXZr", "ZXYr", "ZYXr", "XZXr", "XYXr", "YXYr", "YZYr", "ZYZr", "ZXZr">>
Codes == <<257, 1, 4353, 4097, 8449, 8193, 17, 273, 4113, 4369, 8209, 8465,
           8192, 8448, 4096, 4352, 0, 256, 8464, 8208, 4368, 4112, 272, 16>>
LegalCodes == {Codes[n] : n \in 1..24}

\* decode 0xABCD
AxisOf(c) == c \div 4096                      \* 0, 1, 2
EvenOf(c) == (c \div 256) % 16 = 1
RepeatedOf(c) == (c \div 16) % 16 = 1
StaticOf(c) == c % 16 = 1
Encode(axis, even, rep, stat) == axis * 4096 + (IF even THEN 256 ELSE 0) + (IF rep THEN 16 ELSE 0) + (IF stat THEN 1 ELSE 0)
\* slot permutations (0-based axes, as the API reports them)
AngleOrder(c) == LET i == AxisOf(c) IN
                 IF EvenOf(c) THEN <<i, (i + 1) % 3, (i + 2) % 3>> ELSE <<i, (i + 2) % 3, (i + 1) % 3>>
AngleMapping(c) == LET i == AxisOf(c)
                       m == [a \in 0..2 |-> IF a = i THEN 0 ELSE IF a = (i + 1) % 3 THEN (IF EvenOf(c) THEN 1 ELSE 2) ELSE (IF EvenOf(c) THEN 2 ELSE 1)]
                   IN  <<m[0], m[1], m[2]>>
\* the name of a static order lists its axes in the order the rotations are applied
AxisSeq(c) == LET ao == AngleOrder(c) IN <<ao[1], ao[2], IF RepeatedOf(c) THEN ao[1] ELSE ao[3]>>

\* elementary rotations about axis a (0,1,2) in the row-vector convention, from (cos, sin)
Elem(a, c, s) == LET ns == D!DNeg(s) IN
    CASE a = 0 -> << <<O, Z, Z>>, <<Z, c, s>>, <<Z, ns, c>> >>
      [] a = 1 -> << <<c, Z, ns>>, <<Z, O, Z>>, <<s, Z, c>> >>
      [] a = 2 -> << <<c, s, Z>>, <<ns, c, Z>>, <<Z, Z, O>> >>
\* trig = <<c1, s1, c2, s2, c3, s3>> of the stored angles <<x, y, z>> (IJK layout)
DefMatrix(c, trig) ==
    LET seq == AxisSeq(c)
        cs(n) == <<trig[2 * n - 1], trig[2 * n]>>
        b == IF StaticOf(c) THEN <<cs(1), cs(2), cs(3)>> ELSE <<cs(3), cs(2), cs(1)>>
    IN  MM(MM(Elem(seq[1], b[1][1], b[1][2]), Elem(seq[2], b[2][1], b[2][2])), Elem(seq[3], b[3][1], b[3][2]))
=============================================================================
