------------------------------ MODULE MCFactor ------------------------------
(***************************************************************************)
(* The affine factorisation of C12 on an integer lattice (exact).          *)
(*                                                                         *)
(*   M = S * H * R   (linear part; the translation row is carried along    *)
(*   unchanged and cannot interfere)                                       *)
(*   S = diag(s), s_i > 0;  H unit lower shear (h_xy, h_xz, h_yz);         *)
(*   R one of the 24 rotation matrices with entries in {-1, 0, 1}.         *)
(*                                                                         *)
(* Theorems checked by TLC over all 8 * 27 * 24 factor triples:            *)
(*  Unique      the product determines its factors (so "the" scale, shear  *)
(*              and rotation of a matrix are well defined, and a           *)
(*              decomposition that recomposes to M with factors of these   *)
(*              shapes IS the decomposition);                              *)
(*  GramSchmidt the factors are what Gram-Schmidt on the rows reads off:   *)
(*              s_x^2 = |row_0|^2,  h_xy s_x^2 s_y = ... cross-multiplied: *)
(*              row_0.row_1 = s_x s_y h_xy, and so on;                     *)
(*  SansScaling H * R = S^-1 * M, stated as S * (H * R) = M;               *)
(*  Reflection  negating all three scales gives -M, whose determinant is   *)
(*              negative: the flip the extraction undoes.                  *)
(***************************************************************************)
EXTENDS LinAlgInt
VARIABLES s, h, r

Scales == {1, 2}
Shears == {-1, 0, 1}
Perms == {<<1, 2, 3>>, <<2, 3, 1>>, <<3, 1, 2>>, <<1, 3, 2>>, <<3, 2, 1>>, <<2, 1, 3>>}
Signs3 == {<<a, b, c>> : a \in {-1, 1}, b \in {-1, 1}, c \in {-1, 1}}
PermMat(p, sg) == [i \in 1..3 |-> [j \in 1..3 |-> IF p[i] = j THEN sg[i] ELSE 0]]
Rots == {m \in {PermMat(p, sg) : p \in Perms, sg \in Signs3} : Det(m) = 1}
S3(sc) == [i \in 1..3 |-> [j \in 1..3 |-> IF i = j THEN sc[i] ELSE 0]]
H3(sh) == << <<1, 0, 0>>, <<sh[1], 1, 0>>, <<sh[2], sh[3], 1>> >>
MM(A, B2) == MatVal(MatMul(A, B2))
Compose(sc, sh, rot) == MM(S3(sc), MM(H3(sh), rot))
Triples == {<<sc, sh, rot>> : sc \in [1..3 -> Scales], sh \in [1..3 -> Shears], rot \in Rots}
Images == {Compose(t[1], t[2], t[3]) : t \in Triples}

ASSUME Cardinality(Rots) = 24
\* Unique: as many distinct products as factor triples
ASSUME Cardinality(Images) = Cardinality(Triples)

Init == s \in [1..3 -> Scales] /\ h \in [1..3 -> Shears] /\ r \in Rots
Next == UNCHANGED <<s, h, r>>
RowDot(M, i, j) == M[i][1] * M[j][1] + M[i][2] * M[j][2] + M[i][3] * M[j][3]
GramSchmidt ==
    LET M == Compose(s, h, r) IN
    /\ RowDot(M, 1, 1) = s[1] * s[1]
    /\ RowDot(M, 1, 2) = s[1] * s[2] * h[1]                               \* row0 . row1 = sx sy hxy
    /\ RowDot(M, 2, 2) = s[2] * s[2] * (1 + h[1] * h[1])
    /\ RowDot(M, 1, 3) = s[1] * s[3] * h[2]                               \* row0 . row2 = sx sz hxz
    /\ RowDot(M, 2, 3) = s[2] * s[3] * (h[1] * h[2] + h[3])
    /\ RowDot(M, 3, 3) = s[3] * s[3] * (1 + h[2] * h[2] + h[3] * h[3])
    /\ Det(M) = s[1] * s[2] * s[3]
SansScaling == MM(S3(s), MM(H3(h), r)) = Compose(s, h, r) /\ Det(MM(H3(h), r)) = 1
Reflection ==
    LET M == Compose(s, h, r)  N == Compose([i \in 1..3 |-> -s[i]], h, r)
    IN  N = [i \in 1..3 |-> [j \in 1..3 |-> -M[i][j]]] /\ Det(N) < 0
=============================================================================
