---------------------------- MODULE TransformTrace ----------------------------
(* Trace specification for C09.
   set      a builder's matrix against its documented layout (exact, or a polynomial in
            logged libm facts), its action on a point, translation()
   inplace  an in-place operation: m1 = set * m0 (pre-multiplication), or m0 * set for
            Matrix22/33::rotate; steps of a TLC-generated sequence are chained through
            the observed matrix (variable cur)
   frame    orthonormal right-handed frames with the documented axes and origin *)
EXTENDS Transform, TraceIO
VARIABLES l, cur, prog
Rec == TraceLog[l]

Sq(t, ws, n) == Mat(t, ws, n, n)
KT == 4
FrameTol(t) == D!Pow2(-14)                   \* axes of frames: nextFrame takes its angle from acosf
FrameTol2(t) == D!Pow2(-28)
OrthoTol(t) == D!DMul(D!DInt(64), Eps(t))

ActsAs(r, E) ==        \* q = p * E (p extended by 1), within the rounding bound
    ~Has(r, "p") \/
    LET t == r.t  n == r.n  p == Nums(t, r.p)
        P == IF Len(p) = n THEN VecMat(p, E) ELSE VecMatH(p, E)
    IN  \A j \in 1..Len(p) : WithinK(t, r.q[j], P[j], KT)

SetOK(r) ==
    LET t == r.t  n == r.n  a == Nums(t, r.args)
        E == CASE r.fn = "setTranslation" -> SetTranslation(n, a)
               [] r.fn = "setScale" -> SetScale(n, a)
               [] r.fn = "setScale22" -> SetScaleFull(2, a)
               [] r.fn = "setShear1" -> SetShear33_1(a[1])
               [] r.fn = "setShear2" -> SetShear33_2(a)
               [] r.fn = "setShear3" -> SetShear44_3(a)
               [] r.fn = "setShear6" -> SetShear44_6(a)
               [] OTHER -> Id(n)
    IN
    CASE r.fn \in {"setTranslation", "setScale", "setScale22", "setShear1", "setShear2", "setShear3", "setShear6"} ->
           /\ ExactMat(t, r.m, E, n)
           /\ ActsAs(r, E)
           /\ (Has(r, "tr") => r.tr = r.args)                      \* translation() returns the translation row
      [] r.fn = "setRotation" ->
           LET cw == r.m[1]  sw == r.m[2] IN
           /\ TrigOK(t, cw, sw, r.cos, r.sin)
           /\ ExactMat(t, r.m, SetRotation2(n, Num(t, cw), Num(t, sw)), n)
           /\ ActsAs(r, SetRotation2(n, Num(t, cw), Num(t, sw)))
      [] r.fn = "setEulerAngles" ->
           LET f == [k \in DOMAIN r.f |-> Num(t, r.f[k])]
               R == Rows3(Sq(t, r.m, 4))
           IN  /\ PolyMat(t, r.m, EulerPoly(f), 4, 8)
               /\ Orthonormal(R, OrthoTol(t)) /\ RightHanded(R, OrthoTol(t))
      [] r.fn = "setAxisAngle" ->
           LET u == Nums(t, r.unit)  ax == <<a[1], a[2], a[3]>>
               R == Rows3(Sq(t, r.m, 4))
           IN  /\ PolyMat(t, r.m, AxisAnglePoly(u, Num(t, r.cos), Num(t, r.sin)), 4, 8)
               /\ SameDir(u, ax, D!Pow2(-40)) /\ D!DWithin(Norm2(u), D!DOne, OrthoTol(t))
               /\ Orthonormal(R, OrthoTol(t)) /\ RightHanded(R, OrthoTol(t))
      [] OTHER -> FALSE

InplaceOK(r) ==
    LET t == r.t  n == r.n
        M0 == Sq(t, r.m0, n)  S == Sq(t, r.set, n)
        P == IF r.op = "rotate-right" THEN MatMul(M0, S) ELSE MatMul(S, M0)
    IN  /\ (r.step > 1 /\ prog = <<r.prog, r.t, r.n>> => r.m0 = cur)       \* a chained step starts where the last one ended
        /\ PolyMat(t, r.m1, P, n, KT)
        \* translation() returns the translation row as stored, whatever the rest of the matrix holds
        /\ (Has(r, "tr") => r.tr = [j \in 1..(n - 1) |-> r.m1[(n - 1) * n + j]])

Row(A, i) == <<A[i][1], A[i][2], A[i][3]>>
MaxAbsOf3(A) == D!DMax(D!DMax(D!DSumAbs(Row(A, 1)), D!DSumAbs(Row(A, 2))), D!DSumAbs(Row(A, 3)))
FrameOK(r) ==
    LET t == r.t
        A == Sq(t, r.m, 4)
        R == Rows3(A)
        ortho == FinAll(t, r.m) /\ Orthonormal(R, OrthoTol(t)) /\ RightHanded(R, OrthoTol(t))
        in(k) == Nums(t, r.in[k])
        ft == FrameTol2(t)
    IN
    CASE r.fn = "rotationMatrix" ->
           LET a == in(1)  b == in(2) IN
           (D!DSign(Norm2(a)) > 0 /\ D!DSign(Norm2(b)) > 0) =>
              ortho /\ SameDir([j \in 1..3 |-> Value(VecMat(a, R)[j])], b, ft)
      [] r.fn = "rotationMatrixWithUpDir" ->
           LET a == in(1)  b == in(2)  c == in(3) IN
           ortho /\ (Generic(a, b) /\ Generic(b, c) /\ Generic(a, <<D!DZero, D!DOne, D!DZero>>) =>
                        SameDir([j \in 1..3 |-> Value(VecMat(a, R)[j])], b, ft))
      [] r.fn = "alignZAxisWithTargetDir" ->
           LET tg == in(1)  up == in(2) IN
           ortho /\ (Generic(tg, up) =>
                       /\ SameDir(Row(A, 3), tg, ft)
                       /\ D!DLe(D!DSq(D!DDot(Row(A, 1), up)), D!DMul(ft, Norm2(up)))         \* x axis perpendicular to up
                       /\ D!DSign(D!DDot(Row(A, 2), up)) > 0)
      [] r.fn = "computeLocalFrame" ->
           LET p == in(1)  x == in(2)  nrm == in(3) IN
           Generic(x, nrm) =>
              /\ ortho /\ SameDir(Row(A, 1), x, ft) /\ SameDir(Row(A, 2), CrossV(nrm, x), ft)
              /\ \A j \in 1..3 : D!DEq(A[4][j], p[j])
      [] r.fn = "firstFrame" ->
           LET p0 == in(1)  p1 == in(2)  p2 == in(3)
               tt == VSub(p1, p0)  w == VSub(p2, p0) IN
           Generic(tt, w) =>
              /\ ortho /\ SameDir(Row(A, 1), tt, ft) /\ SameDir(Row(A, 2), CrossV(tt, w), ft)
              /\ \A j \in 1..3 : D!DEq(A[4][j], p0[j])
      [] r.fn = "nextFrame" ->
           \* in = <<Mi (16 numbers), pi, pj, ti, tj>>: the result's origin is pj and its x axis the new tangent
           LET Mi == Sq(t, r.in[1], 4)  pi == in(2)  pj == in(3)  ti == in(4)  tj == in(5) IN
           \* (the frame handed in must itself be a frame: nextFrame turns it, it does not repair it)
           /\ (Generic(ti, tj) /\ SameDir(Row(Mi, 1), ti, ft) /\ Orthonormal(Rows3(Mi), OrthoTol(t))) =>
                 /\ ortho /\ SameDir(Row(A, 1), tj, ft)
                 /\ \A j \in 1..3 : D!DWithin(A[4][j], pj[j], D!DMul(FrameTol(t), D!DAdd(D!DOne, D!DAdd(D!DAbs(pj[j]), D!DAbs(pi[j])))))
           \* exactly parallel (or zero) tangents: no rotation, the previous frame moved by pj - pi
           /\ (\A cc \in 1..3 : D!DIsZero(CrossV(ti, tj)[cc])) =>
                 /\ \A i \in 1..3, j \in 1..3 : D!DWithin(A[i][j], Mi[i][j], D!DMul(FrameTol(t), D!DAdd(D!DOne, MaxAbsOf3(Mi))))
                 /\ \A j \in 1..3 : D!DWithin(A[4][j], D!DAdd(Mi[4][j], D!DSub(pj[j], pi[j])),
                                              D!DMul(FrameTol(t), D!DAdd(D!DOne, D!DAdd(D!DAbs(Mi[4][j]), D!DAdd(D!DAbs(pj[j]), D!DAbs(pi[j]))))))
      [] r.fn = "lastFrame" ->
           LET Mi == Sq(t, r.in[1], 4)  pi == in(2)  pj == in(3) IN
           \A j \in 1..3 : D!DWithin(A[4][j], D!DAdd(Mi[4][j], D!DSub(pj[j], pi[j])),
                                     D!DMul(OrthoTol(t), D!DAdd(D!DOne, D!DAdd(D!DAbs(Mi[4][j]), D!DAdd(D!DAbs(pj[j]), D!DAbs(pi[j]))))))
      [] OTHER -> FALSE

\* addOffset(in, t, r, s, ref) = S(s) * O * in * ref, with O the rotation builder's matrix for r degrees (logged; judged by its
\* own "set"/"inplace" records) carrying t in its translation row.  Every entry within 64 eps of the exact product, at the
\* scale of the product of absolute values.
MVt(A, B2) == MatVal(MatMul(A, B2))
AbsMt(A) == [i \in 1..Len(A) |-> [j \in 1..Len(A[i]) |-> D!DAbs(A[i][j])]]
AddOffsetOK(r) ==
    LET t == r.t IN
    \* every product is bound once (TLC evaluates operator arguments lazily: a nested product passed as an argument would be
    \* recomputed at each of its 64 references)
    \E m \in {[In |-> Sq(t, r.in, 4), Ref |-> Sq(t, r.ref, 4), R |-> Sq(t, r.R, 4), to |-> Nums(t, r.to), S |-> SetScale(4, Nums(t, r.so)), X |-> Sq(t, r.out, 4)]} :
    \E Om \in {[i \in 1..4 |-> [j \in 1..4 |-> IF i = 4 /\ j < 4 THEN m.to[j] ELSE m.R[i][j]]]} :
    \E p1 \in {[P |-> MVt(m.In, m.Ref), A |-> MVt(AbsMt(m.In), AbsMt(m.Ref))]} :
    \E p2 \in {[P |-> MVt(Om, p1.P), A |-> MVt(AbsMt(Om), p1.A)]} :
    \E p3 \in {[P |-> MVt(m.S, p2.P), A |-> MVt(AbsMt(m.S), p2.A)]} :
          /\ \A i \in 1..3 : D!DEq(m.R[i][4], D!DZero)                                                  \* the logged builder matrix is a linear map
          /\ \A i \in 1..4, j \in 1..4 : D!DWithin(m.X[i][j], p3.P[i][j], D!DAdd(D!DMul(D!DMul(D!DInt(64), Eps(t)), p3.A[i][j]), Tiny(t)))

Judge(r) == CASE r.e = "addoffset" -> AddOffsetOK(r) [] r.e = "set" -> SetOK(r) [] r.e = "inplace" -> InplaceOK(r) [] r.e = "frame" -> FrameOK(r) [] OTHER -> FALSE
What(r) == CASE r.e = "set" -> <<r.e, r.fn, r.t, r.n>> [] r.e = "inplace" -> <<r.e, r.op, r.t, r.n>> [] r.e = "addoffset" -> <<r.e, r.t>> [] OTHER -> <<r.e, r.fn, r.t>>
Init == l = 1 /\ cur = <<>> /\ prog = <<>>
Next == \/ /\ l <= TraceLen
           /\ LET r == Rec IN
              /\ IF Judge(r) THEN TRUE ELSE ReportBad(l, What(r))
              /\ cur' = IF r.e = "inplace" THEN r.m1 ELSE cur
              /\ prog' = IF r.e = "inplace" THEN <<r.prog, r.t, r.n>> ELSE prog
           /\ l' = l + 1
        \/ l = TraceLen + 1 /\ ReportDone(TraceLen) /\ l' = l + 1 /\ UNCHANGED <<cur, prog>>
=============================================================================
