---- MODULE FactorDbg ----
EXTENDS FactorTrace
r == TraceLog[atoi(IOEnv.REC)]
c == [A |-> Sq(r.t, r.m, 4), S |-> Sq(r.t, r.S, 4), H |-> Sq(r.t, r.H, 4), R |-> Sq(r.t, r.R, 4), T |-> Sq(r.t, r.T, 4), Re |-> Sq(r.t, r.Re, 4)]
t == r.t
P1 == MV(c.S, MV(c.H, MV(c.R, c.T)))
P2 == MV(c.S, MV(c.H, MV(c.Re, c.T)))
tl == RowTol(t, c.A)
ASSUME PrintT(<<"flags", r.ok, r.oke, r.s5 = r.s, r.h5 = r.h, r.order>>)
ASSUME PrintT(<<"P1", NearRows(P1, c.A, tl), IsRotation(Lin(c.R, 3), KE(t))>>)
ASSUME PrintT(<<"P2", NearRows(P2, c.A, tl), IsRotation(Lin(c.Re, 3), KE(t))>>)
====
