---- MODULE FactorDbg ----
EXTENDS FactorTrace
r == TraceLog[atoi(IOEnv.REC)]
t == r.t  n == r.n  d == n - 1
c == ShrtCtx(r)
ASSUME PrintT(<<"recompose", NearRows(c.SHRT, c.A, c.tolA)>>)
ASSUME PrintT(<<"rot", IsRotation(Lin(c.R, d), KE(t))>>)
ASSUME PrintT(<<"eqs", r.s2 = r.s /\ r.s3 = r.s /\ r.h3 = r.h /\ r.s4 = r.s /\ r.h4 = r.h>>)
ASSUME PrintT(<<"rem", NearRows(c.rem, c.RT, c.tolRT), IsRotation(Lin(c.rem, d), KE(t)), r.sans2 = r.rem /\ r.removed2 = r.rem>>)
ASSUME PrintT(<<"sans", NearRows(c.sans, c.HRT, c.tolHRT), r.removed = r.sans>>)
ASSUME PrintT(<<"layouts", ExactMat(t, r.S, SetScale(n, Nums(t, r.s)), n), ExactMat(t, r.T, SetTranslation(n, Nums(t, r.tr)), n), ExactMat(t, r.H, SetShear33_1(Nums(t, r.h)[1]), n)>>)
====
