---------------------------- MODULE MCFoundation ----------------------------
(* Model-level checks of the foundation modules themselves (no code involved):
   BigInt against TLC's native integers, the rounding algorithm against the
   rounding relation, decode/encode round trips. *)
EXTENDS Integers, Sequences, TLC
B == INSTANCE BigInt
D == INSTANCE Dyadic
I == INSTANCE IEEE754

R == -70..70
Big == {0, 1, 4095, 4096, 4097, 65535, 65536, 16777215, 16777216, 46340, 46341,
        1000003, 2147483647, 1073741824, 305419896}

ToI(a) == B!ToInt(a)

BigIntSmall ==
    \A x \in R, y \in R :
        /\ ToI(B!Add(B!FromInt(x), B!FromInt(y))) = x + y
        /\ ToI(B!Sub(B!FromInt(x), B!FromInt(y))) = x - y
        /\ ToI(B!Mul(B!FromInt(x), B!FromInt(y))) = x * y
        /\ B!Cmp(B!FromInt(x), B!FromInt(y)) = (IF x < y THEN -1 ELSE IF x > y THEN 1 ELSE 0)

\* wide products checked by the identity (a+b)^2 = a^2 + 2ab + b^2 and
\* (a*b)*c = a*(b*c), plus the division algorithm a = q*b + r, 0 <= r < b
BigIntWide ==
    \A x \in Big, y \in Big :
        LET a == B!FromInt(x)  b == B!FromInt(y)
            s == B!Add(a, b)
        IN  /\ B!Eq(B!Mul(s, s), B!Add(B!Add(B!Mul(a, a), B!MulInt(B!Mul(a, b), 2)), B!Mul(b, b)))
            /\ B!Eq(B!Sub(s, b), a)
            /\ B!Eq(B!ShiftL(a, 37), B!Mul(a, B!Mul(B!FromInt(131072), B!FromInt(1048576))))
            /\ (y # 0 => LET qr == I!DivModM(B!Mul(a, a).m, b.m)
                         IN  /\ B!AddM(B!MulM(qr[1], b.m), qr[2]) = B!Mul(a, a).m
                             /\ B!CmpM(qr[2], b.m) < 0)
            /\ (x < 46341 /\ y < 46341 => ToI(B!Mul(a, b)) = x * y)
            /\ B!BitLen(B!ShiftL(B!FromInt(1), 100)) = 101

\* every half pattern decodes and re-encodes to itself; values are ordered
Half16RoundTrip ==
    \A h \in 0..65535 : I!Enc16(I!Dec16(h)) = h

HalfMonotone ==
    \A h \in 0..31743 :   \* below +inf
        D!DLt(I!Val(I!Fmt16, I!Dec16(h)), I!Val(I!Fmt16, I!Dec16(h + 1)))

\* Round is the unique solution of IsRNE on a grid of dyadics m * 2^e around
\* every half binade, for the half format
GridM == (0..40) \cup (2040..2056) \cup (4090..4100) \cup (8185..8200)
GridE == (-30..-22) \cup (-16..-12) \cup (-2..2) \cup (3..6)
RoundIsRNE ==
    \A m \in GridM, e \in GridE, s \in {-1, 1} :
        LET xx == D!Dy(B!FromInt(s * m), e)
            r == I!Round(I!Fmt16, xx, 0)
        IN  /\ I!IsRNE(I!Fmt16, xx, r)
            /\ (~I!IsInf(I!Fmt16, r) /\ r.ef < 31 =>
                   LET up == I!SuccMag(I!Fmt16, r)
                   IN  up = r \/ ~I!IsRNE(I!Fmt16, xx, up) \/ I!IsNaN(I!Fmt16, up))
            /\ (~I!IsZero(I!Fmt16, r) => ~I!IsRNE(I!Fmt16, xx, I!PredMag(I!Fmt16, r)))

\* rounding a rational m/n agrees with the relation too
RoundRatIsRNE ==
    \A m \in {1, 2, 3, 5, 7, 2047, 2049, 4097, 65519, 65520, 65521},
       n \in {1, 3, 7, 10, 4095, 65536, 16777216, 1000003} :
        LET q == D!RDivD(D!DInt(m), D!DInt(n))
            r == I!RoundRat(I!Fmt16, q, 0)
            r32 == I!RoundRat(I!Fmt32, q, 0)
        IN  I!IsRNERat(I!Fmt16, q, r) /\ I!IsRNERat(I!Fmt32, q, r32)

\* spot values
Spot ==
    /\ I!Round(I!Fmt16, D!DInt(65519), 0) = I!MaxFinite(I!Fmt16)
    /\ I!Round(I!Fmt16, D!DInt(65520), 0) = I!Inf(I!Fmt16, 0)
    /\ I!Round(I!Fmt16, D!Pow2(-25), 0) = I!Zero(0)
    /\ I!Round(I!Fmt16, D!Dy(B!FromInt(3), -26), 0) = I!MinSub(I!Fmt16)
    /\ I!Enc16(I!FAdd(I!Fmt16, I!Dec16(15360), I!Dec16(15360))) = 16384
    /\ I!Enc32(I!FDiv(I!Fmt32, I!Dec32(<<16256, 0>>), I!Dec32(<<16448, 0>>))) = <<16042, 43691>>
    /\ I!Dec64(<<16368, 0, 0, 0>>) = I!F(0, 1023, <<>>)
    /\ D!DEq(I!Val(I!Fmt64, I!Dec64(<<16392, 0, 0, 0>>)), D!DInt(3))

ASSUME BigIntSmall
ASSUME BigIntWide
ASSUME Half16RoundTrip
ASSUME HalfMonotone
ASSUME RoundIsRNE
ASSUME RoundRatIsRNE
ASSUME Spot

VARIABLE dummy
Init == dummy = 0
Next == UNCHANGED dummy
=============================================================================
