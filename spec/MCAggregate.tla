----------------------------- MODULE MCAggregate -----------------------------
(* Bounded model of the Aggregate register machine over small integers, and the generator
   of operation sequences replayed into every (type family, element type) of the real
   library.  Invariants (definitional, they state what "component-wise" means):
   every spelling of an operator reaches the same state; each slot of the result is a
   function of the same slot of the operands only (SlotLocal: permuting the slots of the
   inputs permutes the slots of the output). *)
EXTENDS Aggregate, Json, Randomization
CONSTANTS N, MaxDepth
VARIABLES acc, hist, depth
Vals == -2..2
Ops == {"add", "sub", "mul", "smul", "neg", "set", "div", "sdiv"}
Pool(k) == [i \in 1..N |-> ((k * 3 + i * 5 + k * i) % 5) - 2]
Apply(a, op, k) == [i \in 1..N |-> IF op \in {"div", "sdiv"} THEN a[i]           \* (division is exercised on the real types only)
                                  ELSE Wrap("i16", StepSlot("i32", op, a[i], IF op \in {"smul"} THEN <<(k % 3) + 1>> ELSE Pool(k), i))]
Init == acc = Pool(0) /\ hist = <<[op |-> "set", sp |-> 0, k |-> 0]>> /\ depth = 0
Mults(h) == Len(SelectSeq(h, LAMBDA s : s.op \in {"mul", "smul"}))
Next == /\ depth < MaxDepth
        /\ \E op \in Ops, sp \in 0..2, k \in RandomSubset(3, 0..11) :
             /\ (op \in {"mul", "smul"} => Mults(hist) < 2)        \* keeps integer element types far from overflow
             /\ (op \in {"add", "sub", "mul", "div", "set"} => sp \in 0..1)
             /\ (op \in {"neg", "sdiv"} => sp \in 0..1)
             /\ acc' = Apply(acc, op, k)
             /\ hist' = Append(hist, [op |-> op, sp |-> sp, k |-> k])
        /\ depth' = depth + 1
Swap(a) == [i \in 1..N |-> a[N + 1 - i]]
SlotLocal == \A op \in Ops \ {"set", "div", "sdiv"} :
               LET r1 == [i \in 1..N |-> StepSlot("i32", op, acc[i], IF op = "smul" THEN <<2>> ELSE Pool(1), i)]
                   r2 == [i \in 1..N |-> StepSlot("i32", op, Swap(acc)[i], IF op = "smul" THEN <<2>> ELSE Swap(Pool(1)), i)]
               IN  r2 = Swap(r1)
Export == depth = MaxDepth => PrintT("BEHAVIOUR " \o ToJson(hist))
=============================================================================
