------------------------------ MODULE PyArray ------------------------------
(***************************************************************************)
(* PyImath FixedArray<T> as seen from Python (C19): a heap of buffers,     *)
(* objects that are arrays or masked references onto a buffer, a writable  *)
(* capability per object, and the Python API as a transition function      *)
(*     Apply(st, ev) = [st |-> successor, exc |-> raised?, out |-> result] *)
(* used both by the bounded model (MCPyArray: every enabled event) and by  *)
(* the trace specification (PyArrayTrace: the logged event).               *)
(*                                                                         *)
(* Definition layer: indexing and slicing are *Python list semantics*      *)
(* (PyIndex, SliceDef: the index sequence Python documents for             *)
(* s[i:j:k]).  Implementation-shaped layer: SliceAlgo, the clamp rules of  *)
(* PySlice_GetIndicesEx followed by start + n*step, as the bindings use    *)
(* them.  MCPyArray checks SliceDef = SliceAlgo on the whole small scope.  *)
(*                                                                         *)
(* Modelling choices that follow the code where the property is silent are *)
(* marked Deviation_: the copy constructor aliases; a[mask] on a masked    *)
(* reference raises; slices are copies (so they are writable).             *)
(***************************************************************************)
EXTENDS Integers, Sequences, FiniteSets, TLC

None == 99                       \* stands for Python's None in slice fields

----------------------------------------------------------------------------
\* Python sequence semantics (definition layer)

\* s[i]: index or "oob"
PyIndex(n, i) == IF i < 0 THEN (IF i + n >= 0 THEN i + n ELSE -1)
                 ELSE (IF i < n THEN i ELSE -1)          \* 0-based, -1 = IndexError

\* s[start:stop:step], Python reference manual 3.10 "Sequence types", note (5):
\* bounds omitted -> "end" values depending on the sign of k; negative bounds are
\* relative to the end; then the slice is the items x = i + m*k with 0 <= m and
\* x on the correct side of j, restricted to valid indices.
SliceDef(n, sl) ==
    LET k == IF sl.step = None THEN 1 ELSE sl.step
        norm(v) == IF v < 0 THEN v + n ELSE v
        \* clipped bounds as "the index where the walk starts / the first index not taken"
        i == IF sl.start = None THEN (IF k > 0 THEN 0 ELSE n - 1)
             ELSE LET v == norm(sl.start) IN
                  IF k > 0 THEN (IF v < 0 THEN 0 ELSE IF v > n THEN n ELSE v)
                           ELSE (IF v < 0 THEN -1 ELSE IF v >= n THEN n - 1 ELSE v)
        j == IF sl.stop = None THEN (IF k > 0 THEN n ELSE -1)
             ELSE LET v == norm(sl.stop) IN
                  IF k > 0 THEN (IF v < 0 THEN 0 ELSE IF v > n THEN n ELSE v)
                           ELSE (IF v < 0 THEN -1 ELSE IF v >= n THEN n - 1 ELSE v)
        taken == IF k > 0 THEN {x \in 0..(n - 1) : x >= i /\ x < j /\ (x - i) % k = 0}
                          ELSE {x \in 0..(n - 1) : x <= i /\ x > j /\ (i - x) % (-k) = 0}
        cnt == Cardinality(taken)
    IN  [m \in 1..cnt |-> i + (m - 1) * k]

\* implementation-shaped: PySlice_AdjustIndices + slicelength, then start + m*step
SliceAlgo(n, sl) ==
    LET step == IF sl.step = None THEN 1 ELSE sl.step
        start0 == IF sl.start = None THEN (IF step < 0 THEN n - 1 ELSE 0) ELSE sl.start
        stop0  == IF sl.stop = None THEN (IF step < 0 THEN -1 - n ELSE n) ELSE sl.stop   \* "PY_SSIZE_T_MIN"-like
        start == IF start0 < 0
                 THEN (IF start0 + n < 0 THEN (IF step < 0 THEN -1 ELSE 0) ELSE start0 + n)
                 ELSE (IF start0 >= n THEN (IF step < 0 THEN n - 1 ELSE n) ELSE start0)
        stop  == IF sl.stop = None THEN (IF step < 0 THEN -1 ELSE n)
                 ELSE IF stop0 < 0
                 THEN (IF stop0 + n < 0 THEN (IF step < 0 THEN -1 ELSE 0) ELSE stop0 + n)
                 ELSE (IF stop0 >= n THEN (IF step < 0 THEN n - 1 ELSE n) ELSE stop0)
        len == IF step < 0 THEN (IF stop < start THEN (start - stop - 1) \div (-step) + 1 ELSE 0)
                           ELSE (IF start < stop THEN (stop - start - 1) \div step + 1 ELSE 0)
    IN  [m \in 1..len |-> start + (m - 1) * step]


----------------------------------------------------------------------------
\* abstract state: heap[b] = sequence of values; objs[o] = [buf, idx, w]
\*   idx = sequence of 0-based raw indices into the buffer (identity for a plain array)
\*   masked = TRUE for masked references

EmptyState == [heap |-> <<>>, objs |-> <<>>]
OLen(st, o) == Len(st.objs[o].idx)
Vals(st, o) == [k \in 1..OLen(st, o) |-> st.heap[st.objs[o].buf][st.objs[o].idx[k] + 1]]
Ident(n) == [k \in 1..n |-> k - 1]
NewBuf(st) == Len(st.heap) + 1
WithObj(st, o, rec) == [st EXCEPT !.objs = (o :> rec) @@ st.objs]
Alloc(st, o, vals) ==
    LET b == NewBuf(st)
    IN  [heap |-> Append(st.heap, vals),
         objs |-> (o :> [buf |-> b, idx |-> Ident(Len(vals)), w |-> TRUE, masked |-> FALSE]) @@ st.objs]
\* write vals[k] at virtual positions pos[k] (0-based virtual indices) of object o
Write(st, o, pos, vals) ==
    LET ob == st.objs[o]
        raw == [k \in 1..Len(pos) |-> ob.idx[pos[k] + 1]]
        old == st.heap[ob.buf]
        new == [c \in 1..Len(old) |->
                  IF \E k \in 1..Len(pos) : raw[k] + 1 = c
                  THEN vals[CHOOSE k \in 1..Len(pos) : raw[k] + 1 = c /\ \A k2 \in 1..Len(pos) : raw[k2] + 1 = c => k2 <= k]
                  ELSE old[c]]
    IN  [st EXCEPT !.heap[ob.buf] = new]

Ok(st, out) == [st |-> st, exc |-> FALSE, out |-> out]
Raise(st) == [st |-> st, exc |-> TRUE, out |-> 0]
SelIdx(m) == LET S == {k \in 1..Len(m) : m[k] # 0}
             IN  [j \in 1..Cardinality(S) |-> (CHOOSE k \in S : Cardinality({x \in S : x < k}) = j - 1) - 1]

Apply(st, ev) ==
    LET op == ev.op IN
    CASE op = "new" -> Ok(Alloc(st, ev.r, ev.vals), 0)
      [] op = "len" -> Ok(st, OLen(st, ev.o))
      [] op = "writable" -> Ok(st, IF st.objs[ev.o].w THEN 1 ELSE 0)
      [] op = "readonly" -> Ok(WithObj(st, ev.o, [st.objs[ev.o] EXCEPT !.w = FALSE]), 0)
      [] op = "getitem" ->
           LET i == PyIndex(OLen(st, ev.o), ev.i)
           IN  IF i < 0 THEN Raise(st) ELSE Ok(st, Vals(st, ev.o)[i + 1])
      [] op = "getslice" ->                                  \* a slice is a fresh, writable copy
           LET pos == SliceDef(OLen(st, ev.o), ev.key)
               v == Vals(st, ev.o)
           IN  Ok(Alloc(st, ev.r, [k \in 1..Len(pos) |-> v[pos[k] + 1]]), 0)
      [] op = "getmask" ->                                   \* a masked reference shares the buffer
           LET ob == st.objs[ev.o] IN
           IF ob.masked \/ Len(ev.m) # OLen(st, ev.o) THEN Raise(st)       \* Deviation_MaskOfMasked
           ELSE Ok(WithObj(st, ev.r, [buf |-> ob.buf, w |-> ob.w, masked |-> TRUE,
                                      idx |-> [j \in 1..Len(SelIdx(ev.m)) |-> ob.idx[SelIdx(ev.m)[j] + 1]]]), 0)
      [] op = "copy" ->                                      \* Deviation_CopyAliases
           Ok(WithObj(st, ev.r, st.objs[ev.o]), 0)
      [] op = "setscalar" ->                                 \* integer key
           LET n == OLen(st, ev.o)  i == PyIndex(n, ev.i) IN
           IF ~st.objs[ev.o].w \/ i < 0 THEN Raise(st)
           ELSE Ok(Write(st, ev.o, <<i>>, <<ev.v>>), 0)
      [] op = "setslice" ->                                  \* slice key, scalar value
           LET n == OLen(st, ev.o)  pos == SliceDef(n, ev.key) IN
           IF ~st.objs[ev.o].w THEN Raise(st)
           ELSE Ok(Write(st, ev.o, pos, [k \in 1..Len(pos) |-> ev.v]), 0)
      [] op = "setvec" ->                                    \* slice key, array value
           LET n == OLen(st, ev.o)
               pos == SliceDef(n, ev.key)
           IN  IF ~st.objs[ev.o].w \/ Len(pos) # OLen(st, ev.src) THEN Raise(st)
               ELSE Ok(Write(st, ev.o, pos, Vals(st, ev.src)), 0)
      [] op = "setmaskscalar" ->
           LET n == OLen(st, ev.o) IN
           IF ~st.objs[ev.o].w \/ Len(ev.m) # n THEN Raise(st)
           ELSE Ok(Write(st, ev.o, SelIdx(ev.m), [k \in 1..Len(SelIdx(ev.m)) |-> ev.v]), 0)
      [] op = "setmaskvec" ->
           LET n == OLen(st, ev.o)
               sel == SelIdx(ev.m)
               src == Vals(st, ev.src)
           IN  IF ~st.objs[ev.o].w \/ Len(ev.m) # n THEN Raise(st)
               ELSE IF Len(src) = n THEN Ok(Write(st, ev.o, sel, [k \in 1..Len(sel) |-> src[sel[k] + 1]]), 0)
               ELSE IF Len(src) = Len(sel) THEN Ok(Write(st, ev.o, sel, src), 0)
               ELSE Raise(st)
      [] op = "ifelse_s" ->
           LET n == OLen(st, ev.o)  v == Vals(st, ev.o) IN
           IF Len(ev.m) # n THEN Raise(st)
           ELSE Ok(Alloc(st, ev.r, [k \in 1..n |-> IF ev.m[k] # 0 THEN v[k] ELSE ev.v]), 0)
      [] op = "ifelse_v" ->
           LET n == OLen(st, ev.o)  v == Vals(st, ev.o)  u == Vals(st, ev.src) IN
           IF Len(ev.m) # n \/ Len(u) # n THEN Raise(st)
           ELSE Ok(Alloc(st, ev.r, [k \in 1..n |-> IF ev.m[k] # 0 THEN v[k] ELSE u[k]]), 0)
      [] op = "iadd" ->                                      \* o += scalar, through the vectorised in-place operator
           LET n == OLen(st, ev.o)  v == Vals(st, ev.o) IN
           IF ~st.objs[ev.o].w THEN Raise(st)
           ELSE Ok(Write(st, ev.o, Ident(n), [k \in 1..n |-> v[k] + ev.v]), 0)
      [] op = "iadd_v" ->
           LET n == OLen(st, ev.o)  v == Vals(st, ev.o)  u == Vals(st, ev.src)  ob == st.objs[ev.o] IN
           IF ~ob.w THEN Raise(st)
           ELSE IF Len(u) = n THEN Ok(Write(st, ev.o, Ident(n), [k \in 1..n |-> v[k] + u[k]]), 0)
           \* a masked reference also accepts an operand of its UNMASKED length: element k then pairs with the operand's
           \* element at its own raw position (what VectorizedMaskedVoidOperation does; also with an empty selection)
           ELSE IF ob.masked /\ Len(u) = Len(st.heap[ob.buf])
                THEN Ok(Write(st, ev.o, Ident(n), [k \in 1..n |-> v[k] + u[ob.idx[k] + 1]]), 0)
           ELSE Raise(st)
      [] op = "release" ->                                   \* dropping a Python reference never frees a shared buffer
           Ok([st EXCEPT !.objs = [x \in DOMAIN st.objs \ {ev.o} |-> st.objs[x]]], 0)

\* the projection the harness logs: contents and writable flag of every live object
Project(st) == [o \in DOMAIN st.objs |-> [vals |-> Vals(st, o), w |-> IF st.objs[o].w THEN 1 ELSE 0]]
=============================================================================
