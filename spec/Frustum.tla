------------------------------- MODULE Frustum -------------------------------
(* FrustumCore on exact dyadics, for judging recorded executions (C16). *)
EXTENDS Geom
FC == INSTANCE FrustumCore WITH NZero <- D!DZero, NOne <- D!DOne, NMul <- D!DMul, NAdd <- D!DAdd, NSub <- D!DSub,
                                NNeg <- D!DNeg, NSgn <- D!DSign
\* a logged state: six numbers <<n, f, l, r, t, b>> and the orthographic flag
St(t, ws, o) == FC!Fr(Num(t, ws[1]), Num(t, ws[2]), Num(t, ws[3]), Num(t, ws[4]), Num(t, ws[5]), Num(t, ws[6]), o = 1)
Abs(x) == D!DAbs(x)
\* smallest k <= kmax with small * 2^k >= big
AmpK(small, big, kmax) == Amp(small, big, kmax)
=============================================================================
