------------------------------ MODULE MCRand48 ------------------------------
(* Bounded model of Rand48: a generator state machine started from boundary
   states and driven by every entry point; invariants are the range clauses and
   the refinement between the two formulations of the step and of erand48.
   A history variable records the behaviour so that TLC can export behaviours
   for replay into the real code (Rand48Gen.cfg). *)
EXTENDS Rand48, Json

CONSTANT Depth
VARIABLES st, hist, last
vars == <<st, hist, last>>

Boundary == { <<0, 0, 0>>, <<0, 0, 1>>, <<0, 0, 65535>>, <<0, 1, 0>>, <<0, 65535, 65535>>,
              <<1, 0, 0>>, <<65535, 65535, 65535>>, <<32768, 0, 0>>, <<32767, 65535, 65535>>,
              <<0, 0, 13070>>, <<4660, 43981, 13070>>, <<65535, 65535, 13070>>, <<1, 0, 13070>>,
              <<43690, 43690, 43690>>, <<21845, 21845, 21845>>, <<61680, 3855, 255>> }

Init == st \in Boundary /\ hist = <<[op |-> "set", st |-> st]>> /\ last = "set"

Do(op) == /\ Len(hist) <= Depth
          /\ st' = Step(st)
          /\ last' = op
          /\ hist' = Append(hist, [op |-> op])
Next == Do("nrand48") \/ Do("erand48")
Spec == Init /\ [][Next]_vars

StepRefines == Step(st) = StepLimbs(st)
WordsOK == \A i \in 1..3 : st[i] \in Word
NrandRange == Nrand(st) >= 0 /\ Nrand(st) <= 2147483647
\* the code's bit packing satisfies the POSIX relation: it is in [0,1) and
\* within 2^-48 of X/2^48
ErandRefines ==
    LET v == ErandBits(st)
    IN  /\ D!DSign(v) >= 0 /\ D!DLt(v, D!DOne)
        /\ D!DCmpAbs(D!DSub(v, D!Dy(ValOf(st), -48)), D!Pow2(-48)) < 0

\* export complete behaviours (for replay into the code)
Export == Len(hist) = Depth + 1 => PrintT("BEHAVIOUR " \o ToJson(hist))
=============================================================================
