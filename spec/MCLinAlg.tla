------------------------------ MODULE MCLinAlg ------------------------------
(* The algebraic identities the property lists, checked for the *definitions* of
   LinAlgCore over small integer matrices (no code involved): det(AB) = det A det B,
   det A^T = det A, cofactor expansion along every row and column, (AB)^T = B^T A^T,
   cross product perpendicular to both operands, quaternion norm multiplicative. *)
EXTENDS LinAlgInt
CONSTANTS Ent
EntA == {-1, 0, 2}
VARIABLES A, Bm, n
vars == <<A, Bm, n>>
Mats(k) == [1..k -> [1..k -> Ent]]
\* 2x2: all pairs of matrices over Ent; 3x3: matrices with one free row over Ent on top of two
\* fixed generic rows (keeps the initial-state set small while every index is exercised)
Fixed3 == << <<2, -1, 3>>, <<1, 4, -2>> >>
Mats3 == UNION {{[i \in 1..3 |-> IF i = k THEN r ELSE Fixed3[IF i < k THEN i ELSE i - 1]] : r \in [1..3 -> Ent]} : k \in 1..3}
Init == \/ n = 2 /\ A \in Mats(2) /\ Bm \in Mats(2)
        \/ n = 3 /\ A \in Mats3 /\ Bm \in Mats3
Next == UNCHANGED vars
Seqd(M) == [i \in 1..n |-> [j \in 1..n |-> M[i][j]]]
DetMultiplicative == Det(MatVal(MatMul(Seqd(A), Seqd(Bm)))) = Det(Seqd(A)) * Det(Seqd(Bm))
DetTranspose == Det(Transpose(Seqd(A))) = Det(Seqd(A))
Cofactor == \A k \in 1..n : ExpandRow(Seqd(A), k) = Det(Seqd(A)) /\ ExpandCol(Seqd(A), k) = Det(Seqd(A))
TransposeProduct == Transpose(MatVal(MatMul(Seqd(A), Seqd(Bm)))) = MatVal(MatMul(Transpose(Seqd(Bm)), Transpose(Seqd(A))))
CrossPerp == n = 3 => LET a == Seqd(A)[1]  b == Seqd(A)[2]
                          c == [i \in 1..3 |-> Value(Cross3(a, b)[i])]
                      IN  Value(Dot(a, c)) = 0 /\ Value(Dot(b, c)) = 0
QuatNorm == n = 3 => LET p == <<A[1][1], A[1][2], A[1][3], A[2][1]>>  q == <<Bm[1][1], Bm[1][2], Bm[1][3], Bm[2][1]>>
                         r == [i \in 1..4 |-> Value(QuatMul(p, q)[i])]
                     IN  Value(Dot(r, r)) = Value(Dot(p, p)) * Value(Dot(q, q))
=============================================================================
