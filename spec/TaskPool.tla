------------------------------ MODULE TaskPool ------------------------------
(***************************************************************************)
(* PyImath's task dispatch (C20): a vectorised call of length len is       *)
(* either run directly as one range [0,len) or handed to the installed     *)
(* WorkerPool, which may split [0,len) into any sub-ranges, run them in    *)
(* any order and concurrently.  A Task executes a range element by element.*)
(*                                                                         *)
(* State machine: Call -> Dispatch (any partition, any order) ->           *)
(* Start(t)/Step(t)/Finish(t) per thread (element-granular interleaving)   *)
(* -> Return.  The constant Kind selects the task body:                    *)
(*   "wellformed"     out[i] := F(i) for i in [start,end)                  *)
(*   "ignoresStart"   loops from 0 to end-start          (negative control)*)
(*   "relIndex"       out[i] := F(i - start)              (negative control)*)
(*   "sharedScratch"  scratch := F(i); out[i] := scratch  (negative control)*)
(* Theorem checked by TLC (MCTaskPool): for well-formed tasks the result   *)
(* at Return is [i |-> F(i)] for every partition, order and interleaving,  *)
(* and no cell outside [0,len) is touched; each negative control violates  *)
(* it (non-vacuity).                                                       *)
(***************************************************************************)
EXTENDS TaskPoolDefs

CONSTANTS N, Threads, Kind, MinIter     \* cells, thread ids, task body, dispatch threshold

VARIABLES phase, len, plan, run, out, scratch, touched
vars == <<phase, len, plan, run, out, scratch, touched>>

F(i) == 10 * i + 1
Unset == -1
Idle == [s |-> 0, e |-> 0, cur |-> 0, sub |-> 0, busy |-> FALSE]

Init == /\ phase = "idle" /\ len = 0 /\ plan = <<>> /\ run = [t \in Threads |-> Idle]
        /\ out = [i \in 0..(N - 1) |-> Unset] /\ scratch = Unset /\ touched = {}

Call(L) == /\ phase = "idle" /\ phase' = "called" /\ len' = L
           /\ UNCHANGED <<plan, run, out, scratch, touched>>

\* length <= MinIter (or no pool): one range, on the calling thread
DispatchDirect == /\ phase = "called" /\ len <= MinIter
                  /\ plan' = <<<<0, len>>>> /\ phase' = "running"
                  /\ UNCHANGED <<len, run, out, scratch, touched>>
\* the pool may choose any partition and any order
DispatchPool == /\ phase = "called" /\ len > MinIter
                /\ \E C \in Cuts(len) : \E o \in Orders(RangesOf(len, C)) : plan' = o
                /\ phase' = "running"
                /\ UNCHANGED <<len, run, out, scratch, touched>>

Start(t) == /\ phase = "running" /\ ~run[t].busy /\ plan # <<>>
            /\ run' = [run EXCEPT ![t] = [s |-> Head(plan)[1], e |-> Head(plan)[2], busy |-> TRUE, sub |-> 0,
                                           cur |-> IF Kind = "ignoresStart" THEN 0 ELSE Head(plan)[1]]]
            /\ plan' = Tail(plan)
            /\ UNCHANGED <<phase, len, out, scratch, touched>>

Limit(r) == IF Kind = "ignoresStart" THEN r.e - r.s ELSE r.e
Value(r) == IF Kind = "relIndex" THEN F(r.cur - r.s) ELSE F(r.cur)

Step(t) == /\ phase = "running" /\ run[t].busy /\ run[t].cur < Limit(run[t])
           /\ IF Kind = "sharedScratch" /\ run[t].sub = 0
              THEN /\ scratch' = Value(run[t])
                   /\ run' = [run EXCEPT ![t].sub = 1]
                   /\ UNCHANGED <<out, touched>>
              ELSE /\ out' = [out EXCEPT ![run[t].cur] = IF Kind = "sharedScratch" THEN scratch ELSE Value(run[t])]
                   /\ touched' = touched \cup {run[t].cur}
                   /\ run' = [run EXCEPT ![t].cur = @ + 1, ![t].sub = 0]
                   /\ UNCHANGED scratch
           /\ UNCHANGED <<phase, len, plan>>

Finish(t) == /\ phase = "running" /\ run[t].busy /\ run[t].cur >= Limit(run[t])
             /\ run' = [run EXCEPT ![t] = Idle]
             /\ UNCHANGED <<phase, len, plan, out, scratch, touched>>

Return == /\ phase = "running" /\ plan = <<>> /\ \A t \in Threads : ~run[t].busy
          /\ phase' = "returned"
          /\ UNCHANGED <<len, plan, run, out, scratch, touched>>

Next == \/ \E L \in 1..N : Call(L)
        \/ DispatchDirect \/ DispatchPool
        \/ \E t \in Threads : Start(t) \/ Step(t) \/ Finish(t)
        \/ Return
Spec == Init /\ [][Next]_vars

\* the property: schedule independence and in-bounds writes
ResultCorrect == phase = "returned" => \A i \in 0..(N - 1) : out[i] = (IF i < len THEN F(i) ELSE Unset)
InBounds == touched \subseteq 0..(len - 1) \/ phase = "idle"
PlanIsPartition == phase = "running" =>
    LET started == {<<run[t].s, run[t].e>> : t \in {x \in Threads : run[x].busy}} IN TRUE
=============================================================================
