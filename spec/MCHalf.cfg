CONSTANT ChunkBits = 8
INIT Init
NEXT Next
INVARIANT HalfChunkOK
INVARIANT FloatChunkOK
INVARIANT CorollariesOK
CHECK_DEADLOCK FALSE
