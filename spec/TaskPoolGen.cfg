CONSTANTS N = 4 Threads <- ThreadsA Kind = "wellformed" MinIter = 1
INIT Init
NEXT Next
INVARIANT ExportSchedules
CHECK_DEADLOCK FALSE
