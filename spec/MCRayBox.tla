------------------------------ MODULE MCRayBox ------------------------------
(* Bounded model of RayBox on a small integer lattice: the candidate-set
   definition agrees with a literal search over a fine rational grid of
   parameters, and with the slab method.  One state per (box, origin); the
   invariants quantify over all directions. *)
EXTENDS RayBoxInt

CONSTANTS BoxC, PosC, DirC, GridDen, GridMax
VARIABLES bx, pos, phase
vars == <<bx, pos, phase>>

PosT == {-1, 0, 1, 2, 4}
DirT == {-2, -1, 0, 1, 2}
V3(S) == {<<x, y, z>> : x \in S, y \in S, z \in S}
DV(v) == v
BoxesI == {[mn |-> a, mx |-> b] : a \in V3(BoxC), b \in V3(BoxC)}
Dirs == V3(DirC) \ {<<0, 0, 0>>}

\* root -> (choice of box minimum) -> leaves: lets the TLC workers share the leaves
Z3 == <<0, 0, 0>>
Init == bx = [mn |-> Z3, mx |-> Z3] /\ pos = Z3 /\ phase = "root"
Next == \/ /\ phase = "root" /\ phase' = "group"
           /\ \E a \in V3(BoxC) : bx' = [mn |-> a, mx |-> a]
           /\ pos' = pos
        \/ /\ phase = "group" /\ phase' = "leaf"
           /\ \E b \in V3(BoxC) : bx' = [mn |-> bx.mn, mx |-> b]
           /\ pos' \in V3(PosC)

DB(b) == [mn |-> DV(b.mn), mx |-> DV(b.mx)]
\* literal definition on a grid of parameters t = k/GridDen
GridHit(b, p, d, rayOnly) ==
    \E k \in (IF rayOnly THEN 0 ELSE -GridMax)..GridMax :
       \A i \in Axes : /\ b.mn[i] * GridDen <= p[i] * GridDen + k * d[i]
                       /\ p[i] * GridDen + k * d[i] <= b.mx[i] * GridDen

CandIsEnough == phase = "leaf" =>
    \A d \in Dirs : /\ Hit(DB(bx), DV(pos), DV(d)) = GridHit(bx, pos, d, TRUE)
                    /\ LineHit(DB(bx), DV(pos), DV(d)) = GridHit(bx, pos, d, FALSE)
SlabAgrees == phase = "leaf" =>
    \A d \in Dirs : /\ AlgoSlab(DB(bx), DV(pos), DV(d), TRUE) = Hit(DB(bx), DV(pos), DV(d))
                    /\ AlgoSlab(DB(bx), DV(pos), DV(d), FALSE) = LineHit(DB(bx), DV(pos), DV(d))
FirstIsFirst == phase = "leaf" =>
    \A d \in Dirs : Hit(DB(bx), DV(pos), DV(d)) =>
        LET t == FirstContact(DB(bx), DV(pos), DV(d))
        IN  /\ TNonNeg(t) /\ PointIn(DB(bx), DV(pos), DV(d), t)
            /\ (OriginInside(DB(bx), DV(pos), DV(d)) <=> t[1] = 0)
=============================================================================
