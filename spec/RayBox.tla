------------------------------- MODULE RayBox -------------------------------
(***************************************************************************)
(* RayBoxCore instantiated with exact dyadic arithmetic (for inputs decoded *)
(* from float/double words), plus the rounding clause for reported points. *)
(***************************************************************************)
EXTENDS Integers, Sequences, FiniteSets, TLC
B == INSTANCE BigInt
D == INSTANCE Dyadic
INSTANCE RayBoxCore WITH NZero <- D!DZero, NOne <- D!DOne, NMul <- D!DMul, NAdd <- D!DAdd,
                         NSub <- D!DSub, NNeg <- D!DNeg, NSgn <- D!DSign

\* |q_i - (pos_i + t dir_i)| <= K u (|pos_i| + |t dir_i|), cross-multiplied by d;
\* ubits = number of fraction bits of the working format; tiny = its smallest subnormal
\* (an absolute floor of K subnormal units covers results in the subnormal range)
NearPoint(pos, dir, t, q, ubits, K, tiny) ==
    \A i \in Axes :
       D!DCmpAbs(D!DSub(D!DMul(q[i], t[2]), Scaled(pos, dir, t, i)),
                 D!DAdd(D!DScale(D!DMul(D!DInt(K), D!DAdd(D!DAbs(D!DMul(pos[i], t[2])), D!DAbs(D!DMul(t[1], dir[i])))), -ubits),
                        D!DMul(D!DMul(D!DInt(K), tiny), t[2]))) <= 0
=============================================================================
