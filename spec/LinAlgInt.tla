------------------------------ MODULE LinAlgInt ------------------------------
(* LinAlgCore on TLC's native integers (for model-checking its identities). *)
EXTENDS Integers, Sequences, FiniteSets, TLC
IAbs(a) == IF a < 0 THEN -a ELSE a
INSTANCE LinAlgCore WITH NZero <- 0, NOne <- 1, NMul <- LAMBDA a, b : a * b, NAdd <- LAMBDA a, b : a + b,
                         NNeg <- LAMBDA a : -a, NAbs <- IAbs
=============================================================================
