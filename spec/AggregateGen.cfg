CONSTANTS N = 3 MaxDepth = 7
INIT Init
NEXT Next
INVARIANT Export
INVARIANT SlotLocal
CHECK_DEADLOCK FALSE
