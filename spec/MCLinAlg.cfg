CONSTANTS Ent <- EntA
INIT Init
NEXT Next
INVARIANT DetMultiplicative
INVARIANT DetTranspose
INVARIANT Cofactor
INVARIANT TransposeProduct
INVARIANT CrossPerp
INVARIANT QuatNorm
CHECK_DEADLOCK FALSE
