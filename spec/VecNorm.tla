------------------------------- MODULE VecNorm -------------------------------
(***************************************************************************)
(* length / length2 / normalisation of Vec2/3/4 (C08) and the relation     *)
(* between checked and unchecked forms of an operation (C07).              *)
(*                                                                         *)
(* With S = sum x_i^2 computed exactly, a reported length r is accurate    *)
(* when (r - k ulp(r))^2 <= S <= (r + k ulp(r))^2 - no square root is      *)
(* taken anywhere.  A normalised vector n must keep the direction of x     *)
(* (all 2x2 minors n_i x_j - n_j x_i vanish to rounding, signs agree),     *)
(* have sum n_i^2 within a few eps of 1, and be finite.                    *)
(***************************************************************************)
EXTENDS LinAlg

KLen == 8
SumSq(xs) == D!DSum([i \in 1..Len(xs) |-> D!DSq(xs[i])])
AllZero(xs) == \A i \in 1..Len(xs) : D!DIsZero(xs[i])

\* the property's scope: squared components do not overflow (|x_i| <= sqrt(max)/2)
InScope(t, xs) == \A i \in 1..Len(xs) : D!DCmp(D!DSq(xs[i]), D!Pow2(I!Emax(Fm(t)) - 1)) <= 0

LenOK(t, xs, rw) ==
    LET r == I!Dec(t, rw)
        v == Num(t, rw)
        S == SumSq(xs)
        u == D!DMul(D!DInt(KLen), I!Ulp(Fm(t), r))
        lo == D!DSub(v, u)
        hi == D!DAdd(v, u)
    IN  /\ I!IsFinite(Fm(t), r)
        /\ (r.sign = 0 \/ I!IsZero(Fm(t), r))
        /\ (I!IsZero(Fm(t), r) <=> AllZero(xs))
        /\ (AllZero(xs) \/ (/\ (D!DSign(lo) <= 0 \/ D!DLe(D!DSq(lo), S))
                            /\ D!DLe(S, D!DSq(hi))))

\* the Euclidean norm is a normal number: S >= (min normal)^2
NormIsNormal(t, xs) == D!DCmp(SumSq(xs), D!Pow2(2 * I!Emin(Fm(t)))) >= 0

NormOK(t, xs, nws) ==
    LET n == Len(xs)
        ns == Nums(t, nws)
        nd == [i \in 1..n |-> I!Dec(t, nws[i])]
        xd(i) == xs[i]
    IN  /\ FinAll(t, nws)
        /\ \A i \in 1..n : D!DIsZero(ns[i]) \/ D!DSign(ns[i]) = D!DSign(xs[i])          \* same sign (or flushed to zero)
        /\ \A i \in 1..n : D!DIsZero(xs[i]) => D!DIsZero(ns[i])
        /\ D!DWithin(SumSq(ns), D!DOne, D!DMul(D!DInt(16), Eps(t)))                          \* unit length
        /\ \A i \in 1..n, j \in 1..n :                                                    \* same ratios
             i < j => D!DCmpAbs(D!DSub(D!DMul(ns[i], xs[j]), D!DMul(ns[j], xs[i])),
                                D!DAdd(D!DMul(D!DMul(D!DInt(16), Eps(t)), D!DAdd(D!DAbs(D!DMul(ns[i], xs[j])), D!DAbs(D!DMul(ns[j], xs[i])))),
                                       D!DMul(D!DMul(D!DInt(4), Tiny(t)), D!DAdd(D!DAbs(xs[i]), D!DAbs(xs[j]))))) <= 0

IsZeroVec(t, ws) == \A i \in 1..Len(ws) : I!IsZero(Fm(t), I!Dec(t, ws[i]))
=============================================================================
