----------------------------- MODULE MCTaskPool -----------------------------
(* Bounded instance of TaskPool, plus export of every (partition, order) schedule
   for replay into the real bindings through the test WorkerPool. *)
EXTENDS TaskPool, Json

ThreadsA == {1, 2}
Schedules == UNION {{[n |-> N, ranges |-> o] : o \in Orders(RangesOf(N, C))} : C \in Cuts(N)}
ExportSchedules == phase = "idle" => PrintT("SCHEDULES " \o ToJson(Schedules))
=============================================================================
