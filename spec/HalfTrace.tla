----------------------------- MODULE HalfTrace -----------------------------
(***************************************************************************)
(* Trace specification for Half: consumes one recorded execution of the    *)
(* real code (sweep_half / rec_half) line by line.  State:                 *)
(*   l     position in the trace                                           *)
(*   pos   next float bit pattern a run certificate must start at          *)
(*         (word pair; tiling of [slice_lo, slice_hi) without gap/overlap) *)
(*   start where the current slice of the certificate began               *)
(*   mode  NaN payload rule of the configuration ("sw" | "f16c")           *)
(*   luts  the halfFunction tables built so far (id -> build parameters)   *)
(* A line the specification does not allow is reported (BADREC) and the    *)
(* state is resynchronised from the line so that the rest is still checked.*)
(***************************************************************************)
EXTENDS Half, TraceIO

VARIABLES l, pos, start, mode, luts
vars == <<l, pos, start, mode, luts>>

Rec == TraceLog[l]

IncPos(p) == IF p[2] = 65535 THEN <<p[1] + 1, 0>> ELSE <<p[1], p[2] + 1>>

Rel(x, h) == IF mode = "f16c" THEN F2HRelF16C(x, h) ELSE F2HRel(x, h)

\* ---- C01 / C02 events ---------------------------------------------------
CfgOK(r) == r.nanmode \in {"sw", "f16c"}

\* half -> float through the C function (c) and the C++ cast (k)
H2FOK(r) ==
    LET want == H2F(I!Dec16(r.h))
        okw(ws) == LET g == I!Dec32(ws)
                   IN  IF I!IsNaN(H, I!Dec16(r.h)) /\ mode = "f16c"
                       THEN I!IsNaN(S, g) /\ g.sign = want.sign
                       ELSE g = want
    IN  okw(r.c) /\ okw(r.k)

\* a run [lo,hi] of float patterns all mapped to the same half by both paths:
\* both ends satisfy the relation (RNE is monotone in the magnitude bits, so
\* everything in between does too), and the run starts where the last ended
RunOK(r) ==
    /\ r.lo = pos
    /\ (r.lo[1] < r.hi[1] \/ (r.lo[1] = r.hi[1] /\ r.lo[2] <= r.hi[2]))
    /\ \A hw \in {r.c, r.k} :
         /\ Rel(I!Dec32(r.lo), I!Dec16(hw))
         /\ Rel(I!Dec32(r.hi), I!Dec16(hw))

\* a slice is 2^24 consecutive patterns starting at a multiple of 2^24
BeginOK(r) == r.pos[2] = 0 /\ r.pos[1] % 256 = 0 /\ r.pos[1] < 65536
EndOK(r) == r.pos = pos /\ r.pos = <<start[1] + 256, 0>>

\* ---- C03 events ---------------------------------------------------------
Flag(r, f) == r[f] = 1

\* the text of a bit pattern given as 16-bit words (most significant first) with an exponent field of w bits:
\* 0 / 1 for the bits, 2 for the two separating spaces
RECURSIVE Pow2N(_)
Pow2N(k) == IF k = 0 THEN 1 ELSE 2 * Pow2N(k - 1)
BitAt(ws, i) == LET word == ws[Len(ws) - (i \div 16)] IN (word \div Pow2N(i % 16)) % 2          \* bit i, 0 = least significant
BitsText(ws, w) ==
    LET nb == 16 * Len(ws) IN
    [k \in 1..(nb + 2) |-> IF k = 1 THEN BitAt(ws, nb - 1)
                            ELSE IF k = 2 \/ k = w + 3 THEN 2
                            ELSE IF k < w + 3 THEN BitAt(ws, nb - (k - 1))
                            ELSE BitAt(ws, nb - (k - 2))]
ClsOK(r) ==
    LET h == I!Dec16(r.h)
        c == I!Class(H, h)
    IN  /\ Flag(r, "fin") = I!IsFinite(H, h)
        /\ Flag(r, "nrm") = (c = "norm")
        /\ Flag(r, "den") = (c = "sub")
        /\ Flag(r, "zer") = (c = "zero")
        /\ Flag(r, "nan") = (c = "nan")
        /\ Flag(r, "inf") = (c = "inf")
        /\ Flag(r, "neg") = (h.sign = 1)
        /\ r.fpc = FloatClassOf(h)                   \* fpclassify((float) h)
        /\ Flag(r, "fsb") = (h.sign = 1)             \* signbit((float) h)
        /\ r.negbits = NegBits(r.h)                  \* unary minus flips the sign bit only
        /\ (r.text = r.h                             \* << then >> reproduces finite halves
            \/ ~I!IsFinite(H, h))
        \* printBits: sign, space, exponent, space, significand - most significant bit first; 18 / 34 characters
        /\ r.pb = BitsText(<<r.h>>, 5) /\ r.pbc = r.pb
        /\ r.pbf = BitsText(r.fw, 8) /\ r.pbfc = r.pbf

\* n is logged as a word pair (it is an unsigned 32-bit argument)
RoundRecOK(r) ==
    I!IsNaN(H, I!Dec16(r.h)) \/
    RoundRel(r.h, IF r.nw[1] > 0 \/ r.nw[2] > 10 THEN 10 ELSE r.nw[2], r.out)

\* a op= b; rhs is "h" (half operand, logged as its word) or "f" (float words)
ArithOK(r) ==
    LET a == I!Dec16(r.a)
        rhs == IF r.rt = "h" THEN H2F(I!Dec16(r.b[1])) ELSE I!Dec32(r.b)
    IN  CompoundRel(r.op, a, rhs, I!Dec16(r.out))

\* numeric_limits<half> and HALF_* macros
LimitsOK(r) ==
    /\ r.max = LimitMax /\ r.lowest = LimitMax + 32768
    /\ r.min = LimitMinNormal /\ r.denorm_min = LimitDenormMin
    /\ r.epsilon = LimitEpsilon
    /\ r.round_error = 14336                          \* 0.5: round to nearest
    /\ r.infinity = 31744
    /\ I!IsNaN(H, I!Dec16(r.qnan)) /\ I!IsNaN(H, I!Dec16(r.snan))
    \* half's own factories: the two infinities, a quiet NaN (top fraction bit set) and a signalling NaN (top fraction bit clear)
    /\ r.posInf = 31744 /\ r.negInf = 31744 + 32768
    /\ I!IsNaN(H, I!Dec16(r.qNan)) /\ (r.qNan % 1024) \div 512 = 1
    /\ I!IsNaN(H, I!Dec16(r.sNan)) /\ (r.sNan % 1024) \div 512 = 0
    /\ r.qnan = r.qNan /\ r.snan = r.sNan
    /\ r.digits = H.p
    \* digits10: largest d with 10^d <= 2^(p-1); max_digits10: least d with 10^d > 2^p ... +1
    /\ B!Pow2Small(H.p - 1) >= 10 ^ r.digits10 /\ B!Pow2Small(H.p - 1) < 10 ^ (r.digits10 + 1)
    /\ 10 ^ (r.max_digits10 - 1) > B!Pow2Small(H.p) /\ 10 ^ (r.max_digits10 - 2) <= B!Pow2Small(H.p)
    /\ r.radix = 2
    /\ r.min_exponent = I!Emin(H) + 1 /\ r.max_exponent = I!Emax(H) + 1
    \* 10^min_exponent10 is the smallest power of ten that is a normal half
    /\ r.min_exponent10 = -4 /\ r.max_exponent10 = 4
    \* (the boolean traits is_bounded, is_modulo, ... are logged but not judged: the
    \*  property speaks of the extremes and digit counts only; the code says is_bounded = false)
    \* the HALF_* macros (logged as double words) round to the extremal halves
    /\ I!Round(H, I!Val(I!Fmt64, I!Dec64(r.HALF_MAX)), 0) = I!Dec16(LimitMax)
    /\ D!DEq(I!Val(I!Fmt64, I!Dec64(r.HALF_MAX)), I!Val(H, I!Dec16(LimitMax)))
    /\ I!Round(H, I!Val(I!Fmt64, I!Dec64(r.HALF_MIN)), 0) = I!Dec16(LimitMinNormal)
    /\ I!Round(H, I!Val(I!Fmt64, I!Dec64(r.HALF_NRM_MIN)), 0) = I!Dec16(LimitMinNormal)
    /\ I!Round(H, I!Val(I!Fmt64, I!Dec64(r.HALF_DENORM_MIN)), 0) = I!Dec16(LimitDenormMin)
    /\ I!Round(H, I!Val(I!Fmt64, I!Dec64(r.HALF_EPSILON)), 0) = I!Dec16(LimitEpsilon)
    /\ r.HALF_MANT_DIG = H.p /\ r.HALF_DIG = r.digits10 /\ r.HALF_DECIMAL_DIG = r.max_digits10
    /\ r.HALF_RADIX = 2 /\ r.HALF_DENORM_MIN_EXP = I!Emin(H) + 1 /\ r.HALF_MAX_EXP = I!Emax(H) + 1
    /\ r.HALF_DENORM_MIN_10_EXP = -4 /\ r.HALF_MAX_10_EXP = 4

LutOK(r) == r.id \in DOMAIN luts /\ r.out = LutValue(luts[r.id], r.x)

\* ---- the trace state machine ---------------------------------------------
Kind(r) == r.e

Judge(r) ==
    CASE Kind(r) = "cfg" -> CfgOK(r)
      [] Kind(r) = "h2f" -> H2FOK(r)
      [] Kind(r) = "run" -> RunOK(r)
      [] Kind(r) = "begin" -> BeginOK(r)
      [] Kind(r) = "end" -> EndOK(r)
      [] Kind(r) = "cls" -> ClsOK(r)
      [] Kind(r) = "round" -> RoundRecOK(r)
      [] Kind(r) = "arith" -> ArithOK(r)
      [] Kind(r) = "limits" -> LimitsOK(r)
      [] Kind(r) = "lutbuild" -> TRUE
      [] Kind(r) = "lut" -> LutOK(r)
      [] OTHER -> FALSE

Init == l = 1 /\ pos = <<0, 0>> /\ start = <<0, 0>> /\ mode = "sw" /\ luts = <<>>

Step ==
    /\ l <= TraceLen
    /\ LET r == Rec IN
       /\ IF Judge(r) THEN (r.e = "end" => PrintT(<<"INFO", "slice", start[1]>>))
                      ELSE ReportBad(l, <<r.e>>)
       /\ start' = IF r.e = "begin" THEN r.pos ELSE start
       /\ pos' = CASE r.e = "begin" -> r.pos
                   [] r.e = "run" -> IncPos(r.hi)
                   [] OTHER -> pos
       /\ mode' = IF r.e = "cfg" THEN r.nanmode ELSE mode
       /\ luts' = IF r.e = "lutbuild"
                  THEN (r.id :> [dmin |-> r.dmin, dmax |-> r.dmax, dflt |-> r.dflt,
                                 pinf |-> r.pinf, ninf |-> r.ninf, nan |-> r.nan]) @@ luts
                  ELSE luts
    /\ l' = l + 1

Finish == l = TraceLen + 1 /\ ReportDone(TraceLen) /\ l' = l + 1 /\ UNCHANGED <<pos, start, mode, luts>>

Next == Step \/ Finish
Spec == Init /\ [][Next]_vars
=============================================================================
