------------------------------ MODULE GeomTrace ------------------------------
(* Trace specification for C15: one record per call group, judged by the definitions of Geom. *)
EXTENDS Geom, TraceIO
VARIABLES l
Rec == TraceLog[l]

E(t) == D!DMul(D!DInt(64), Eps(t))
V(t, ws) == Nums(t, ws)
S(t, w) == Num(t, w)
One == D!DOne
Sc(vs) == D!DAdd(One, MaxOfR([i \in 1..Len(vs) |-> MaxAbsRow(vs[i])], 1))      \* 1 + largest coordinate
Unit(t, n) == D!DWithin(Norm2(n), One, E(t))
Near(a, b, tol) == \A i \in 1..Len(a) : D!DWithin(a[i], b[i], tol)
\* a is parallel to b, same direction, up to a relative angle tolerance tol:  |a x b| <= tol |a| |b|
Par(a, b, tol) == SameDir(a, b, D!DSq(tol))
\* about the square root of the rounding unit: margin for root selection
Tau(t) == IF t = "f" THEN D!Pow2(-8) ELSE D!Pow2(-23)

LinePtOK(r) == \E c \in {[p0 |-> V(r.t, r.p0), p1 |-> V(r.t, r.p1), pos |-> V(r.t, r.pos), dir |-> V(r.t, r.dir), q |-> V(r.t, r.q), cp |-> V(r.t, r.cp)]} :
    LET t == r.t  u == VSub(c.p1, c.p0)
        sc == Sc(<<c.p0, c.p1, c.q>>)
        tol == D!DMul(E(t), sc)
    IN  /\ r.pos = r.p0 /\ Unit(t, c.dir)
        \* the direction is that of p1 - p0 (the subtraction is rounded: relative error eps (|p0| + |p1|) / |u|)
        /\ D!DLe(Norm2(CrossV(c.dir, u)), D!DMul(D!DSq(E(t)), D!DMul(D!DSq(sc), Norm2(c.dir)))) /\ D!DSign(DotV(c.dir, u)) > 0
        /\ OnLine(c.cp, c.pos, c.dir, tol)
        /\ D!DWithin(DotV(VSub(c.q, c.cp), c.dir), D!DZero, tol)
        /\ D!DSign(S(t, r.d)) >= 0 /\ LenNear(VSub(c.q, c.cp), S(t, r.d), tol)
        /\ Near(V(t, r.at2), VAdd(c.pos, VScale(c.dir, D!DInt(2))), tol)

LinesCtx(r) == LET t == r.t  u == V(t, r.u)  v == V(t, r.v)  cr == CrossV(u, v) IN
    [u |-> u, v |-> v, cr |-> cr, cr2 |-> Norm2(cr), uv2 |-> D!DMul(Norm2(u), Norm2(v)), w |-> VSub(V(t, r.b0), V(t, r.a0)),
     pos1 |-> V(t, r.pos1), dir1 |-> V(t, r.dir1), pos2 |-> V(t, r.pos2), dir2 |-> V(t, r.dir2),
     cp1 |-> V(t, r.cp1), cp2 |-> V(t, r.cp2), p1 |-> V(t, r.p1), p2 |-> V(t, r.p2), dist |-> S(t, r.dist), dist21 |-> S(t, r.dist21)]
LinesOK(r) == \E c \in {LinesCtx(r)} :
    LET t == r.t
        k == Amp(c.cr2, c.uv2, 10)                                    \* 1 / sin^2 of the angle between the lines, as a power of two
        sc == Sc(<<c.pos1, c.pos2, c.cp1, c.cp2>>)
        tol == D!DScale(D!DMul(E(t), sc), k)
        fin == FinAll(t, r.cp1) /\ FinAll(t, r.cp2) /\ FinAll(t, <<r.dist, r.dist21>>) /\ (r.ok = 1 => FinAll(t, r.p1) /\ FinAll(t, r.p2))
        perp(a, b) == /\ D!DWithin(DotV(VSub(a, b), c.dir1), D!DZero, tol) /\ D!DWithin(DotV(VSub(a, b), c.dir2), D!DZero, tol)
    IN
    /\ fin /\ D!DSign(c.dist) >= 0 /\ D!DSign(c.dist21) >= 0
    /\ CASE D!DIsZero(c.cr2) ->                                         \* parallel (or coincident): handled, never divided by zero
              LET tp == D!DMul(E(t), sc)  wu == CrossV(c.w, c.u) IN
              /\ OnLine(c.cp1, c.pos1, c.dir1, tp) /\ OnLine(c.cp2, c.pos2, c.dir2, tp)
              \* the distance between parallel lines:  |w x u| / |u|
              /\ D!DLe(Norm2(wu), D!DMul(D!DSq(D!DAdd(c.dist, tp)), Norm2(c.u)))
              /\ (D!DLe(c.dist, tp) \/ D!DLe(D!DMul(D!DSq(D!DSub(c.dist, tp)), Norm2(c.u)), Norm2(wu)))
              /\ D!DWithin(c.dist21, c.dist, tp)
              /\ (r.ok = 1 => /\ OnLine(c.p1, c.pos1, c.dir1, tp) /\ OnLine(c.p2, c.pos2, c.dir2, tp)
                              /\ D!DWithin(DotV(VSub(c.p1, c.p2), c.dir1), D!DZero, tp))
         [] k <= 10 ->                                                  \* generic: sin^2 >= 2^-10
              LET wc == DotV(c.w, c.cr) IN
              /\ r.ok = 1
              /\ OnLine(c.p1, c.pos1, c.dir1, tol) /\ OnLine(c.p2, c.pos2, c.dir2, tol)
              /\ perp(c.p1, c.p2)
              /\ Near(c.cp1, c.p1, tol) /\ Near(c.cp2, c.p2, tol)
              \* the distance between the lines:  |w . (u x v)| / |u x v|
              /\ D!DLe(D!DSq(wc), D!DMul(D!DSq(D!DAdd(c.dist, tol)), c.cr2))
              /\ (D!DLe(c.dist, tol) \/ D!DLe(D!DMul(D!DSq(D!DSub(c.dist, tol)), c.cr2), D!DSq(wc)))
              /\ D!DWithin(c.dist21, c.dist, tol)
              /\ LenNear(VSub(c.p1, c.p2), c.dist, tol)
         [] OTHER ->                                                    \* nearly parallel: the closest points are ill-conditioned, the DISTANCE is not -
              \* |w . (u x v)| / |u x v| loses one part in sin(angle) of the rounding unit; judged while that leaves two bits
              LET k2 == Amp(c.cr2, c.uv2, 110)  kh == (k2 + 1) \div 2
                  sch == Sc(<<c.pos1, c.pos2>>)
                  tolh == D!DScale(D!DMul(E(t), sch), kh + 2)
                  wc == DotV(c.w, c.cr)
              IN  kh + 10 <= (IF t = "f" THEN 23 ELSE 52) =>
                    /\ D!DLe(D!DSq(wc), D!DMul(D!DSq(D!DAdd(c.dist, tolh)), c.cr2))
                    /\ (D!DLe(c.dist, tolh) \/ D!DLe(D!DMul(D!DSq(D!DSub(c.dist, tolh)), c.cr2), D!DSq(wc)))
                    /\ D!DWithin(c.dist21, c.dist, tolh)

PlaneOK(r) ==
    LET t == r.t  n == V(t, r.n)  dist == S(t, r.dist) IN
    CASE r.e = "plane3" -> \E c \in {[p1 |-> V(t, r.p1), p2 |-> V(t, r.p2), p3 |-> V(t, r.p3)]} :
           LET a == VSub(c.p2, c.p1)  b == VSub(c.p3, c.p1)  cr == CrossV(a, b)
               sc == Sc(<<c.p1, c.p2, c.p3>>)  tol == D!DScale(D!DMul(E(t), sc), 5)
               on(p, dw) == D!DWithin(D!DSub(DotV(n, p), dist), D!DZero, tol) /\ D!DWithin(S(t, dw), D!DZero, tol)
           IN  Generic(a, b) => /\ Unit(t, n) /\ Par(n, cr, D!DScale(D!DMul(E(t), sc), 5))
                                /\ on(c.p1, r.d1) /\ on(c.p2, r.d2) /\ on(c.p3, r.d3)
      [] r.e = "planepn" ->
           LET p == V(t, r.p)  tol == D!DMul(E(t), Sc(<<p>>)) IN
           /\ Unit(t, n) /\ Par(n, V(t, r.nin), E(t))
           /\ D!DWithin(dist, DotV(n, p), tol) /\ D!DWithin(S(t, r.dp), D!DZero, tol)
      [] r.e = "planend" ->
           /\ Unit(t, n) /\ Par(n, V(t, r.nin), E(t)) /\ r.dist = r.din /\ r.n2 = r.n /\ r.dist2 = r.dist
      [] OTHER -> FALSE

PlaneOpsOK(r) == \E c \in {[n |-> V(r.t, r.n), q |-> V(r.t, r.q), rq |-> V(r.t, r.rq), v |-> V(r.t, r.v), rv |-> V(r.t, r.rv)]} :
    LET t == r.t  dist == S(t, r.dist)  dq == S(t, r.dq)
        sc == D!DAdd(Sc(<<c.q, c.v>>), D!DAbs(dist))  tol == D!DMul(E(t), sc)
        nv == DotV(c.n, c.v)
    IN  /\ D!DWithin(dq, D!DSub(DotV(c.q, c.n), dist), tol)
        \* the mirror image: moved by -2 dq along the normal, signed distance negated, twice is the identity
        /\ Near(c.rq, VSub(c.q, VScale(c.n, D!DScale(dq, 1))), tol)
        /\ D!DWithin(S(t, r.drq), D!DNeg(dq), tol)
        /\ Near(V(t, r.rrq), c.q, tol)
        \* reflectVector: 2 n (n.v) - v  (length preserved, an involution)
        /\ Near(c.rv, VSub(VScale(c.n, D!DScale(nv, 1)), c.v), tol)
        /\ Near(V(t, r.rrv), c.v, tol)
        /\ D!DWithin(Norm2(c.rv), Norm2(c.v), D!DMul(tol, sc))
        \* the negated plane
        /\ Near(V(t, r.nn), VScale(c.n, N1), E(t)) /\ D!DEq(S(t, r.ndist), D!DNeg(dist))
        /\ D!DWithin(S(t, r.ndq), D!DNeg(dq), tol)

PlaneLineOK(r) == \E c \in {[n |-> V(r.t, r.n), pos |-> V(r.t, r.pos), dir |-> V(r.t, r.dir), pt |-> V(r.t, r.pt), lt |-> V(r.t, r.lt)]} :
    LET t == r.t  dist == S(t, r.dist)
        nd == DotV(c.n, c.dir)  and == D!DAbs(nd)
        \* an axis-aligned normal: n.dir is then a single product, computed without rounding
        axisAligned == Cardinality({i \in 1..3 : ~D!DIsZero(c.n[i])}) = 1
    IN  IF D!DIsZero(nd) THEN (IF axisAligned THEN r.ok = 0 /\ r.okT = 0 ELSE r.ok = r.okT)     \* (a rounded n.dir need not be exactly zero)
        ELSE IF D!DLt(and, D!Pow2(-10))               \* nearly parallel: either answer, but "true" comes with a finite point / parameter
             THEN r.ok = r.okT /\ (r.ok = 1 => FinAll(t, r.pt)) /\ (r.okT = 1 => FinAll(t, <<r.tt>>))
        ELSE LET sc == D!DAdd(Sc(<<c.pos, c.pt>>), D!DAbs(dist))  tol == D!DMul(E(t), sc) IN
             /\ r.ok = 1 /\ r.okT = 1 /\ FinAll(t, r.pt)
             \* on the plane and on the line, up to the amplification 1 / |n.dir|
             /\ D!DLe(D!DMul(D!DAbs(D!DSub(DotV(c.n, c.pt), dist)), and), tol)
             /\ D!DLe(D!DMul(Norm2(CrossV(VSub(c.pt, c.pos), c.dir)), D!DSq(nd)), D!DMul(D!DSq(tol), Norm2(c.dir)))
             /\ D!DLe(D!DMul(Norm2(VSub(c.pt, c.lt)), D!DSq(nd)), D!DSq(tol))
             /\ D!DLe(D!DMul(Norm2(VSub(c.lt, VAdd(c.pos, VScale(c.dir, S(t, r.tt))))), D!DSq(nd)), D!DSq(tol))

PlaneMatOK(r) == \E c \in {[n |-> V(r.t, r.n), M |-> Mat(r.t, r.m, 4, 4), p |-> <<V(r.t, r.p1), V(r.t, r.p2), V(r.t, r.p3)>>, n2 |-> V(r.t, r.n2), q |-> V(r.t, r.q)]} :
    LET t == r.t  dist2 == S(t, r.dist2)  dq == S(t, r.dq)
        \* exact homogeneous image of a point: <<X, Y, Z, W>>, the point being <<X, Y, Z>> / W
        hom(x) == [j \in 1..4 |-> Value(VecMatH(x, c.M)[j])]
        scM == D!DAdd(One, MaxAbs(c.M))
        sc == D!DMul(Sc(<<c.p[1], c.p[2], c.p[3], c.q>>), scM)
        tol == D!DScale(D!DMul(E(t), sc), 8)
        detM == Det(Lin(c.M, 3))
        affine == \A i \in 1..3 : D!DIsZero(c.M[i][4])
        \* W times the signed distance of the image to the new plane
        sdw(h) == D!DSub(DotV(c.n2, <<h[1], h[2], h[3]>>), D!DMul(dist2, h[4]))
    IN  /\ Unit(t, c.n2)
        \* the transformed plane contains the images of the points that define the plane
        /\ \A k \in 1..3 : \E h \in {hom(c.p[k])} : D!DSign(h[4]) > 0 => D!DLe(D!DAbs(sdw(h)), D!DMul(tol, h[4]))
        /\ \E h \in {hom(c.q)} : D!DSign(h[4]) > 0 =>
              \* an orientation-preserving affine matrix keeps points on their side
              /\ (affine /\ D!DSign(detM) > 0 /\ D!DLt(tol, D!DAbs(dq))) =>
                     IF D!DSign(dq) > 0 THEN D!DLt(D!DNeg(D!DMul(tol, h[4])), sdw(h)) ELSE D!DLt(sdw(h), D!DMul(tol, h[4]))
              /\ D!DLe(D!DAbs(D!DSub(D!DMul(S(t, r.dqm), h[4]), sdw(h))), D!DMul(tol, h[4]))

SphereOK(r) == \E c \in {[ctr |-> V(r.t, r.c), pos |-> V(r.t, r.pos), dir |-> V(r.t, r.dir)]} :
    LET t == r.t  rad == S(t, r.r)  tt == S(t, r.tt)
        v == VSub(c.pos, c.ctr)
        A == Norm2(c.dir)  Bh == DotV(c.dir, v)  C == D!DSub(Norm2(v), D!DSq(rad))
        sc == D!DAdd(Sc(<<v>>), rad)
        disc == D!DSub(D!DSq(Bh), D!DMul(A, C))                                   \* a quarter of the discriminant = r^2 - (distance of the centre from the line)^2
        \* allowance of the decision: the distance d of the centre from the line is known to about E |v|, so d^2 near r^2 to
        \* about 4 E |v| r - NOT to E |v|^2, which is what evaluating the quadratic's discriminant from its coefficients gives
        \* and which makes every sphere more than a few hundred radii away invisible (or spuriously visible) in float
        md == D!DAdd(D!DMul(D!DScale(E(t), 2), D!DMul(sc, rad)), D!DSq(D!DMul(E(t), sc)))
        tau == D!DMul(Tau(t), sc)
        f(x) == QuadAt(A, Bh, C, x)
        other == D!DSub(D!DNeg(D!DScale(Bh, 1)), tt)                              \* the other root (A = 1 up to rounding)
        clearHit == /\ D!DLt(md, disc)
                    /\ (D!DLt(f(tau), D!DNeg(md)) \/ D!DLt(D!DMul(A, tau), D!DNeg(Bh)))
    IN  /\ r.ok = r.okT
        /\ IF r.okT = 1
           THEN /\ D!DSign(tt) >= 0
                \* on the sphere: the parameter is known to about E (|v| + t), and f changes by at most 2 (r + |miss|) per unit of t
                /\ LET dt == D!DMul(E(t), D!DAdd(sc, D!DAbs(tt))) IN
                   D!DWithin(f(tt), D!DZero, D!DAdd(D!DAdd(md, D!DMul(D!DScale(dt, 2), rad)), D!DSq(dt)))
                /\ ~(D!DLe(tau, other) /\ D!DLt(other, D!DSub(tt, D!DScale(tau, 1))))                   \* no smaller non-negative root
                /\ Near(V(t, r.lt), VAdd(c.pos, VScale(c.dir, tt)), D!DMul(E(t), D!DAdd(sc, D!DAdd(MaxAbsRow(c.pos), tt))))
                /\ r.pt = r.lt
           ELSE ~clearHit

CircOK(r) == \E c \in {[mn |-> V(r.t, r.mn), mx |-> V(r.t, r.mx), ctr |-> V(r.t, r.c)]} :
    LET t == r.t  rad == S(t, r.r)
        sc == Sc(<<c.mn, c.mx>>)  tol == D!DMul(E(t), sc)
        corner(b) == [i \in 1..3 |-> IF b[i] = 0 THEN c.mn[i] ELSE c.mx[i]]
    IN  /\ \A i \in 1..3 : D!DWithin(D!DScale(c.ctr[i], 1), D!DAdd(c.mn[i], c.mx[i]), D!DScale(tol, 1))
        /\ LenNear(VSub(c.mx, c.ctr), rad, tol)
        /\ \A b \in [1..3 -> {0, 1}] : LenLe(VSub(corner(b), c.ctr), D!DAdd(rad, tol))

TriCtx(r) == LET t == r.t  p0 == V(t, r.p0)  u == VSub(V(t, r.p1), p0)  v0 == V(t, r.v0)  v1 == V(t, r.v1)  v2 == V(t, r.v2)
                 Nn == TriNormal(v0, v1, v2)  nd == DotV(Nn, u)  H == TriHitTimesNd(p0, u, v0, Nn) IN
    [p0 |-> p0, u |-> u, v0 |-> v0, v1 |-> v1, v2 |-> v2, Nn |-> Nn, NN |-> Norm2(Nn), nd |-> nd, H |-> H,
     num |-> TriBaryNum(H, nd, v0, v1, v2, Nn), off |-> DotV(Nn, VSub(v0, p0)), pt |-> V(t, r.pt), b |-> V(t, r.bary)]
TriOK(r) == \E c \in {TriCtx(r)} :
    LET t == r.t
        den == D!DMul(c.NN, D!DSq(c.nd))
        mu == D!DScale(den, -8)
        inside == \A i \in 1..3 : D!DLe(mu, c.num[i])
        outside == \E i \in 1..3 : D!DLe(c.num[i], D!DNeg(mu))
        sc == Sc(<<c.p0, c.v0, c.v1, c.v2, c.pt>>)  tol == D!DMul(E(t), sc)
        \* the line meets the plane at an angle whose sine squared is at least 2^-8
        steep == D!DLe(D!DScale(D!DMul(c.NN, Norm2(c.u)), -8), D!DSq(c.nd))
        recomb == [j \in 1..3 |-> D!DAdd(D!DMul(c.v0[j], c.b[1]), D!DAdd(D!DMul(c.v1[j], c.b[2]), D!DMul(c.v2[j], c.b[3])))]
    IN
    /\ IF D!DIsZero(c.NN) THEN r.ok = 0                                                 \* zero-area triangle
       ELSE IF D!DIsZero(c.nd) THEN (D!DIsZero(c.off) \/ r.ok = 0)                      \* parallel and off the plane: no intersection
       ELSE /\ (inside /\ steep) => r.ok = 1
            /\ outside => r.ok = 0
            /\ (r.ok = 1 /\ steep) =>
                 LET tb == D!DScale(E(t), 6) IN
                 /\ \A i \in 1..3 : D!DLe(D!DAbs(D!DSub(D!DMul(c.b[i], den), c.num[i])), D!DMul(tb, den))
                 /\ \A j \in 1..3 : D!DLe(D!DAbs(D!DSub(D!DMul(c.pt[j], c.nd), c.H[j])), D!DMul(D!DScale(tol, 6), D!DAbs(c.nd)))
                 /\ (r.front = 1) = (D!DSign(c.nd) > 0)
    /\ r.ok = 1 =>
         /\ FinAll(t, r.pt) /\ FinAll(t, r.bary)
         /\ D!DWithin(D!DSum(c.b), One, E(t))
         /\ \A i \in 1..3 : D!DSign(c.b[i]) >= 0 /\ D!DLe(c.b[i], D!DAdd(One, E(t)))
         /\ Near(recomb, c.pt, D!DScale(tol, 4))

CVertOK(r) == \E c \in {[v |-> <<V(r.t, r.v0), V(r.t, r.v1), V(r.t, r.v2)>>, a0 |-> V(r.t, r.a0), w |-> V(r.t, r.w), p |-> V(r.t, r.p)]} :
    LET t == r.t
        words == <<r.v0, r.v1, r.v2>>
        dl(i) == Norm2(CrossV(VSub(c.v[i], c.a0), c.w))                              \* squared distance to the line, times |w|^2
        dp(i) == Norm2(VSub(c.v[i], c.p))
        xy(x) == <<x[1], x[2]>>
        dp2(i) == Norm2(VSub(xy(c.v[i]), xy(c.p)))
        slack(x) == D!DAdd(x, D!DMul(E(t), D!DAdd(x, One)))
    IN  /\ \E i \in 1..3 : r.cl = words[i] /\ \A j \in 1..3 : D!DLe(dl(i), slack(dl(j)))
        /\ \E i \in 1..3 : r.cp = words[i] /\ \A j \in 1..3 : D!DLe(dp(i), dp(j))
        /\ \E i \in 1..3 : r.cp2 = <<words[i][1], words[i][2]>> /\ \A j \in 1..3 : D!DLe(dp2(i), dp2(j))

RotPtOK(r) == \E c \in {[p |-> V(r.t, r.p), dir |-> V(r.t, r.dir), q |-> V(r.t, r.q), rr |-> V(r.t, r.r)]} :
    LET t == r.t  a == VSub(c.p, c.q)  b == VSub(c.rr, c.q)  R2 == Norm2(a)
        sc == Sc(<<c.p, c.q>>)  tol == D!DScale(D!DMul(E(t), D!DSq(sc)), 2)
    IN  /\ FinAll(t, r.r)                                                             \* also for a point on the axis (radius 0)
        /\ D!DWithin(DotV(b, c.dir), D!DZero, tol)                                   \* stays in the plane perpendicular to the axis
        /\ D!DWithin(Norm2(b), R2, tol)                                             \* at the same distance from it
        /\ D!DWithin(DotV(a, b), D!DMul(R2, S(t, r.cos)), tol)                       \* turned by the angle
        /\ D!DWithin(DotV(CrossV(a, b), c.dir), D!DNeg(D!DMul(R2, S(t, r.sin))), tol)

VAlgoOK(r) == \E c \in {[s |-> V(r.t, r.s), w |-> V(r.t, r.w), proj |-> V(r.t, r.proj), orth |-> V(r.t, r.orth), refl |-> V(r.t, r.refl)]} :
    LET t == r.t  n == r.n
        ss == Norm2(c.s)  ww == Norm2(c.w)  sw == DotV(c.s, c.w)
        ls == L1(c.s)  lw == L1(c.w)
    IN  \* project(s, w) = s (s.w) / (s.s)
        /\ \A i \in 1..n : D!DLe(D!DAbs(D!DSub(D!DMul(c.proj[i], ss), D!DMul(c.s[i], sw))), D!DMul(E(t), D!DMul(ss, lw)))
        \* orthogonal(s, w) = w - project(s, w), perpendicular to s
        /\ \A i \in 1..n : D!DWithin(D!DAdd(c.orth[i], c.proj[i]), c.w[i], D!DMul(E(t), lw))
        /\ D!DWithin(DotV(c.orth, c.s), D!DZero, D!DMul(E(t), D!DMul(ls, lw)))
        \* reflect(s, w) = 2 project(w, s) - s
        /\ \A i \in 1..n : D!DLe(D!DAbs(D!DSub(D!DMul(D!DAdd(c.refl[i], c.s[i]), ww), D!DScale(D!DMul(c.w[i], sw), 1))), D!DMul(D!DScale(E(t), 1), D!DMul(ww, ls)))

Judge(r) == CASE r.e = "linept" -> LinePtOK(r) [] r.e = "lines" -> LinesOK(r)
              [] r.e \in {"plane3", "planepn", "planend"} -> PlaneOK(r) [] r.e = "planeops" -> PlaneOpsOK(r)
              [] r.e = "planeline" -> PlaneLineOK(r) [] r.e = "planemat" -> PlaneMatOK(r)
              [] r.e = "sphere" -> SphereOK(r) [] r.e = "circ" -> CircOK(r) [] r.e = "tri" -> TriOK(r)
              [] r.e = "cvert" -> CVertOK(r) [] r.e = "rotpt" -> RotPtOK(r) [] r.e = "valgo" -> VAlgoOK(r) [] OTHER -> FALSE
What(r) == IF Has(r, "fam") THEN <<r.e, r.t, r.fam>> ELSE <<r.e, r.t>>
Init == l = 1
Next == \/ /\ l <= TraceLen
           /\ LET r == Rec IN IF Judge(r) THEN TRUE ELSE ReportBad(l, What(r))
           /\ l' = l + 1
        \/ l = TraceLen + 1 /\ ReportDone(TraceLen) /\ l' = l + 1
=============================================================================
