------------------------------ MODULE EulerTrace ------------------------------
(* Trace specification for C11.
   order   the public view of one order code against the finite tables
   emat    toMatrix33 / toMatrix44 / toQuat against the definitional product of elementary
           rotations; XYZ order against Matrix44::setEulerAngles
   eext    extraction (3x3, 4x4, quaternion, constructors) and conversion back
   eany    extraction in an order other than the one the rotation was built in; re-ordering
   enear   makeNear / nearestRotation / simpleXYZRotation
   enear2  makeNear towards a target held in another order
   exalgo  extractEulerXYZ / extractEulerZYX / extractEuler;   amod   angleMod *)
EXTENDS Euler, TraceIO
VARIABLE l
Rec == TraceLog[l]
E64(t) == D!DMul(D!DInt(64), Eps(t))
E256(t) == D!DMul(D!DInt(256), Eps(t))
M3(t, ws) == Mat(t, ws, 3, 3)
Upper3(t, ws) == [i \in 1..3 |-> [j \in 1..3 |-> Num(t, ws[(i - 1) * 4 + j])]]
NearMat(A, Bm, tol) == \A i \in 1..3, j \in 1..3 : D!DWithin(A[i][j], Bm[i][j], tol)
RotationMat(R, tol) == Orthonormal(R, tol) /\ RightHanded(R, tol)
PiD == I!Val(I!Fmt64, I!Dec64(<<16393, 8699, 21572, 11544>>))          \* 0x400921FB54442D18

OrderOK(r) ==
    LET c == r.code
        ao == AngleOrder(c)  am == AngleMapping(c)
        \* slots hold 1,2,3 (IJK layout); toXYZVector reads slot am[x], am[y], am[z]
        expectXYZ == [a \in 1..3 |-> am[a] + 1]
        \* XYZ-layout input (10,20,30): slot s receives the value whose axis maps to s
        fromXYZ == [s \in 1..3 |-> 10 * (CHOOSE a \in 1..3 : am[a] = s - 1)]
    IN  /\ c \in LegalCodes /\ r.legal = 1
        /\ r.order = c /\ r.order2 = c                                       \* order() returns the order set
        /\ (r.static = 1) = StaticOf(c) /\ (r.repeated = 1) = RepeatedOf(c) /\ (r.even = 1) = EvenOf(c) /\ r.axis = AxisOf(c)
        /\ r.ao = ao /\ r.am = am
        \* set(axis, relative, parityEven, firstRepeats) with the components of the code yields that order
        /\ r.setargs = <<AxisOf(c), IF StaticOf(c) THEN 0 ELSE 1, IF EvenOf(c) THEN 1 ELSE 0, IF RepeatedOf(c) THEN 1 ELSE 0>>
        /\ r.setord = c
        /\ r.slots = <<1, 2, 3>>
        /\ r.toxyz = expectXYZ
        /\ (~RepeatedOf(c) => r.ctorxyz = fromXYZ /\ r.ctorxyz3 = fromXYZ /\ r.setxyz = fromXYZ /\ r.back = <<10, 20, 30>>)   \* mutually inverse permutations

EmatOK(r) ==
    LET t == r.t  c == r.code
        trig == Nums(t, r.trig)
        Def == DefMatrix(c, trig)
        A == M3(t, r.m33)
    IN  /\ \A n \in 1..3 : D!DWithin(D!DAdd(D!DSq(trig[2 * n - 1]), D!DSq(trig[2 * n])), D!DOne, E64(t))
        /\ NearMat(A, Def, E64(t))
        /\ \A i \in 1..3, j \in 1..3 : r.m44[(i - 1) * 4 + j] = r.m33[(i - 1) * 3 + j]       \* same rotation in 3x3 and 4x4
        /\ RotationMat(A, E64(t))
        /\ NearMat(M3(t, r.mq), A, E64(t)) /\ NearMat(QM(Nums(t, r.q)), A, E64(t))           \* toQuat represents it
        /\ (c = 257 => NearMat(Upper3(t, r.seteuler), A, E64(t)))                             \* XYZ = setEulerAngles
        \* ... which sets the whole matrix (a pure rotation), whatever it held before
        /\ \A k \in 1..3 : D!DIsZero(Num(t, r.seteuler[(k - 1) * 4 + 4])) /\ D!DIsZero(Num(t, r.seteuler[12 + k]))
        /\ D!DEq(Num(t, r.seteuler[16]), D!DOne)

EextOK(r) ==
    LET t == r.t  A == M3(t, r.m33) IN
    /\ r.x3 = r.x4 /\ r.c3 = r.x3 /\ r.c4 = r.x3                    \* 3x3 and 4x4 extraction give identical angles
    /\ r.ord3 = r.code
    /\ NearMat(M3(t, r.back3), A, E256(t))                          \* converting back reproduces the rotation
    /\ NearMat(M3(t, r.backq), M3(t, r.mq), E256(t))

EanyOK(r) == LET t == r.t  A == M3(t, r.m33) IN
    /\ NearMat(M3(t, r.back), A, E256(t))
    /\ NearMat(M3(t, r.reorder), A, E256(t)) /\ r.ord = r.code2

WithinPi(t, a, b) == D!DCmpAbs(D!DSub(a, b), D!DAdd(PiD, D!DMul(D!DInt(64), D!DMul(Eps(t), D!DAdd(PiD, D!DAbs(b))))) ) <= 0
\* (the property states these "to single precision": angleMod returns a float even for Euler<double>)
EnearOK(r) ==
    LET t == "f"  A == M3(r.t, r.m)
        near == Nums(r.t, r.near)  tg == Nums(r.t, r.target)
        nr == Nums(r.t, r.nr)  xt == Nums(r.t, r.xyzt)
        sr == Nums(r.t, r.sr)
    IN  /\ NearMat(M3(r.t, r.mnear), A, E256(t)) /\ \A i \in 1..3 : WithinPi(t, near[i], tg[i])
        /\ NearMat(M3(r.t, r.mnr), A, E256(t)) /\ \A i \in 1..3 : WithinPi(t, nr[i], xt[i])
        /\ NearMat(Upper3(r.t, r.sm1), Upper3(r.t, r.sm0), E256(t)) /\ \A i \in 1..3 : WithinPi(t, sr[i], tg[i])

\* makeNear towards a target held in another order: "the target" is the target re-expressed in this object's order (the
\* re-ordering constructor, itself bound to the target's rotation here), the rotation and the order stay what they were
Enear2OK(r) ==
    LET t == "f"  A == M3(r.t, r.m)
        near == Nums(r.t, r.near)  tre == Nums(r.t, r.tre)
    IN  /\ r.ordtre = r.code /\ r.ordnear = r.code
        /\ NearMat(M3(r.t, r.mtre), M3(r.t, r.mtgt), E256(t))
        /\ NearMat(M3(r.t, r.mnear), A, E256(t)) /\ \A i \in 1..3 : WithinPi(t, near[i], tre[i])

ExalgoOK(r) == LET t == r.t IN
    /\ NearMat(Upper3(t, r.bx), Upper3(t, r.m), E256(t))
    /\ NearMat(Upper3(t, r.bz), Upper3(t, r.mz), E256(t))
    /\ \A k \in 1..4 : D!DWithin(Num(t, r.b2[k]), Num(t, r.m2[k]), E256(t))
    /\ NearMat(M3(t, r.b3), M3(t, r.m3), E256(t))

\* angleMod: result in [-pi, pi] (single precision) and congruent to the argument modulo 2 pi
AmodOK(r) ==
    LET t == r.t  x == Num(t, r.x)  y == I!Val(I!Fmt32, I!Dec32(r.out))
        tol == D!DMul(D!Pow2(-19), D!DAdd(D!DOne, D!DAbs(x)))
        twopi == D!DScale(PiD, 1)
    IN  /\ D!DCmpAbs(y, D!DAdd(PiD, D!Pow2(-20))) <= 0
        /\ \E k \in -2100..2100 : D!DCmpAbs(D!DSub(D!DSub(x, y), D!DMul(D!DInt(k), twopi)), tol) <= 0

Judge(r) == CASE r.e = "order" -> OrderOK(r) [] r.e = "emat" -> EmatOK(r) [] r.e = "eext" -> EextOK(r) [] r.e = "eany" -> EanyOK(r)
              [] r.e = "enear" -> EnearOK(r) [] r.e = "enear2" -> Enear2OK(r) [] r.e = "exalgo" -> ExalgoOK(r) [] r.e = "amod" -> AmodOK(r) [] OTHER -> FALSE
What(r) == IF Has(r, "code") THEN <<r.e, r.t, r.code>> ELSE <<r.e, r.t>>
Init == l = 1
Next == \/ /\ l <= TraceLen
           /\ IF Judge(Rec) THEN TRUE ELSE ReportBad(l, What(Rec))
           /\ l' = l + 1
        \/ l = TraceLen + 1 /\ ReportDone(TraceLen) /\ l' = l + 1
=============================================================================
