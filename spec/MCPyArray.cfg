CONSTANTS MaxLen = 2 MaxDepth = 3 Sim = FALSE BndLo <- BLo BndHi = 1 Steps <- StepsSmall
INIT Init
NEXT Next
INVARIANT NoOOB
PROPERTY ReadOnlyFrozen
PROPERTY DerivedReadOnly
CHECK_DEADLOCK FALSE
