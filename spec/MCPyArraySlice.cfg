CONSTANTS MaxLen = 4 MaxDepth = 0 Sim = FALSE BndLo <- BLoWide BndHi = 6 Steps <- StepsWide
INIT Init
NEXT Next
INVARIANT SliceRefinesInit
CHECK_DEADLOCK FALSE
