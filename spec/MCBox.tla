------------------------------- MODULE MCBox -------------------------------
(* Bounded model of Box: histories of makeEmpty / makeInfinite / extendBy(point) /
   extendBy(box) / assign over a small lattice.  Invariants: after makeEmpty the box
   is the hull of everything added (minimality); observers agree with the set
   semantics; intersects(box) is symmetric.  The implementation-shaped comparison
   AlgoIntersectsBox is compared with the set definition (its disagreement set is
   exactly the boxes that are empty - recorded as the invariant AlgoIntersectsAgrees
   restricted to non-empty operands). *)
EXTENDS Box

CONSTANTS D, Coords, MaxDepth
VARIABLES box, added, depth, tracked
vars == <<box, added, depth, tracked>>

CoordsA == {-2, 0, 2, 4}
CoordsB == {0, 2}
CoordsC == {0}
Lattice == Coords \cup {LOW, MAX}
PointsFinite == Tuples(D, Coords)
PointsAll == Tuples(D, Lattice)
Boxes == {MkBox(mn, mx) : mn \in PointsAll, mx \in PointsAll}
NonEmptyBoxes == {b \in Boxes : ~IsEmptyDef(b)}

Init == box = EmptyBox(D) /\ added = {} /\ depth = 0 /\ tracked = TRUE

MakeEmpty == box' = EmptyBox(D) /\ added' = {} /\ tracked' = TRUE
MakeInfinite == box' = InfBox(D) /\ added' = {} /\ tracked' = FALSE
ExtendByPoint(p) == box' = ExtendPointDef(box, p) /\ added' = added \cup {p} /\ UNCHANGED tracked
ExtendByBox(c) == box' = ExtendBoxDef(box, c) /\ added' = added \cup Pts(c, Lattice) /\ UNCHANGED tracked
Assign(c) == box' = c /\ added' = {} /\ tracked' = FALSE

Next == /\ depth < MaxDepth
        /\ depth' = depth + 1
        /\ \/ MakeEmpty \/ MakeInfinite
           \/ \E p \in PointsFinite : ExtendByPoint(p)
           \/ \E c \in NonEmptyBoxes \cup {EmptyBox(D)} : ExtendByBox(c)
           \/ \E c \in Boxes : Assign(c)
Spec == Init /\ [][Next]_vars

\* minimality: the box is exactly the hull of what was added since makeEmpty
Minimal == tracked => box = Hull(D, added)
\* observers are functions of the point set
EmptyIffNoPoints == IsEmptyDef(box) <=> Pts(box, Lattice) = {}
MembershipIsIn == \A p \in PointsAll : In(p, box) <=> p \in Pts(box, Lattice)
InfiniteContainsAll == IsInfiniteDef(box) => Pts(box, Lattice) = PointsAll
IntersectsSymmetric == \A c \in Boxes : IntersectsBoxDef(box, c) = IntersectsBoxDef(c, box)
IntersectsIsSharing == \A c \in Boxes : IntersectsBoxDef(box, c) <=> (Pts(box, Lattice) \cap Pts(c, Lattice) # {})
\* the code's comparison agrees with the definition when both operands are non-empty
AlgoIntersectsAgrees == \A c \in NonEmptyBoxes : ~IsEmptyDef(box) => (AlgoIntersectsBox(box, c) = IntersectsBoxDef(box, c))
AlgoExtendAgrees == \A c \in NonEmptyBoxes \cup {EmptyBox(D)} : AlgoExtendBox(box, c) = ExtendBoxDef(box, c)
ClosestInIsNearest == ~IsEmptyDef(box) =>
    \A p \in PointsFinite : /\ In(ClosestInDef(p, box), box)
                            /\ \A q \in Pts(box, Lattice) : Dist2(p, ClosestInDef(p, box)) <= Dist2(p, q)
=============================================================================
