----------------------------- MODULE MCTransform -----------------------------
(* Bounded model of the in-place transform machine on integer matrices (exact), and the
   generator of operation sequences replayed on Matrix33 / Matrix44 of the real library.
   State: the current n x n matrix M (not affine: its last column is arbitrary).
   Actions: M' = Set(args) * M for translate, scale and every shear overload.
   Invariant PointsFirstThroughSet: a point is first moved by the new transform, then by
   the old matrix - (p * Set) * M = p * M' - which is what "pre-multiplies" means. *)
EXTENDS LinAlgInt, Json, Randomization
CONSTANTS Dim, MaxDepth
VARIABLES M, hist, depth, prev
Par == -2..2
Z == 0
O == 1
TrM(t) == [i \in 1..Dim |-> [j \in 1..Dim |-> IF i = Dim /\ j < Dim THEN t[j] ELSE IF i = j THEN 1 ELSE 0]]
ScM(s) == [i \in 1..Dim |-> [j \in 1..Dim |-> IF i # j THEN 0 ELSE IF i < Dim THEN s[i] ELSE 1]]
Sh1(xy) == << <<1, 0, 0>>, <<xy, 1, 0>>, <<0, 0, 1>> >>
Sh2(h) == << <<1, h[2], 0>>, <<h[1], 1, 0>>, <<0, 0, 1>> >>
Sh3(h) == << <<1, 0, 0, 0>>, <<h[1], 1, 0, 0>>, <<h[2], h[3], 1, 0>>, <<0, 0, 0, 1>> >>
Sh6(h) == << <<1, h[4], h[5], 0>>, <<h[1], 1, h[6], 0>>, <<h[2], h[3], 1, 0>>, <<0, 0, 0, 1>> >>
Starts == IF Dim = 3 THEN { << <<1, 2, 1>>, <<0, 1, 2>>, <<3, -1, 1>> >>, << <<2, 0, -1>>, <<1, 1, 1>>, <<0, 2, 2>> >> }
          ELSE { << <<1, 2, 0, 1>>, <<0, 1, 1, 2>>, <<2, 0, 1, -1>>, <<1, -1, 2, 1>> >>, << <<0, 1, 1, 0>>, <<2, 1, 0, 1>>, <<1, 0, 1, 2>>, <<3, 1, -1, 2>> >> }
Vecs(k) == [1..k -> Par]
Ops == IF Dim = 3
       THEN {[op |-> "translate", a |-> v] : v \in RandomSubset(2, Vecs(2))} \cup {[op |-> "scale", a |-> v] : v \in RandomSubset(2, Vecs(2))}
            \cup {[op |-> "shear1", a |-> v] : v \in RandomSubset(2, Vecs(1))} \cup {[op |-> "shear2", a |-> v] : v \in RandomSubset(2, Vecs(2))}
       ELSE {[op |-> "translate", a |-> v] : v \in RandomSubset(2, Vecs(3))} \cup {[op |-> "scale", a |-> v] : v \in RandomSubset(2, Vecs(3))}
            \cup {[op |-> "shear3", a |-> v] : v \in RandomSubset(2, Vecs(3))} \cup {[op |-> "shear6", a |-> v] : v \in RandomSubset(2, Vecs(6))}
SetOf(o) == CASE o.op = "translate" -> TrM(o.a) [] o.op = "scale" -> ScM(o.a) [] o.op = "shear1" -> Sh1(o.a[1])
              [] o.op = "shear2" -> Sh2(o.a) [] o.op = "shear3" -> Sh3(o.a) [] o.op = "shear6" -> Sh6(o.a)
Flat(A) == [k \in 1..(Dim * Dim) |-> A[((k - 1) \div Dim) + 1][((k - 1) % Dim) + 1]]
Init == M \in Starts /\ hist = <<[op |-> "start", a |-> Flat(M)]>> /\ depth = 0 /\ prev = M
Next == /\ depth < MaxDepth
        /\ \E o \in Ops : /\ M' = MatVal(MatMul(SetOf(o), M))
                          /\ hist' = Append(hist, [op |-> o.op, a |-> [i \in 1..Len(o.a) |-> o.a[i]]])
        /\ depth' = depth + 1 /\ prev' = M
Pts == IF Dim = 3 THEN {<<1, 2, 1>>, <<-1, 0, 1>>} ELSE {<<1, 2, 3, 1>>, <<0, -1, 2, 1>>}
RowVal(P) == [j \in 1..Len(P) |-> Value(P[j])]
PointsFirstThroughSet ==
    depth > 0 =>
      LET o == hist[Len(hist)]
          S == SetOf([op |-> o.op, a |-> o.a])
      IN  \A p \in Pts : RowVal(VecMat(p, M)) = RowVal(VecMat(RowVal(VecMat(p, S)), prev))
Export == depth = MaxDepth => PrintT("BEHAVIOUR " \o ToJson(hist))
=============================================================================
