CONSTANTS D = 1 Coords <- CoordsA MaxDepth = 5
INIT GInit
NEXT GNext
INVARIANT Export
INVARIANT Minimal
CHECK_DEADLOCK FALSE
