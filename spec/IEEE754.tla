------------------------------ MODULE IEEE754 ------------------------------
(***************************************************************************)
(* IEEE-754 binary interchange formats as value semantics.                 *)
(*                                                                         *)
(* A floating-point datum is decoded from the raw 16-bit words the harness *)
(* logs (most significant word first) into                                 *)
(*     [sign |-> 0|1, ef |-> biased exponent field, fm |-> fraction field] *)
(* with the fraction a BigInt magnitude.  Its meaning is given by Val      *)
(* (an exact dyadic).  Rounding is specified twice:                        *)
(*   IsRNE  - the *relation* "r is a nearest value of the format, ties to  *)
(*            the even significand", stated with the two neighbours of r;  *)
(*   Round  - an *algorithm* (floor + half-way test) computing it.         *)
(* MCFoundation checks that Round satisfies IsRNE.                         *)
(***************************************************************************)
EXTENDS Integers, Sequences
B == INSTANCE BigInt
D == INSTANCE Dyadic

Fmt16 == [p |-> 11, w |-> 5,  bias |-> 15,   efmax |-> 31]
Fmt32 == [p |-> 24, w |-> 8,  bias |-> 127,  efmax |-> 255]
Fmt64 == [p |-> 53, w |-> 11, bias |-> 1023, efmax |-> 2047]

Emin(fmt) == 1 - fmt.bias
Emax(fmt) == fmt.efmax - 1 - fmt.bias
HiddenM(fmt) == B!ShiftLM(<<1>>, fmt.p - 1)          \* 2^(p-1) as a magnitude

F(sign, ef, fm) == [sign |-> sign, ef |-> ef, fm |-> fm]

----------------------------------------------------------------------------
\* decoding raw words

Dec16(h) == F(h \div 32768, (h \div 1024) % 32, B!NatM(h % 1024))
Dec32(ws) == F(ws[1] \div 32768, (ws[1] \div 128) % 256,
               B!NatM((ws[1] % 128) * 65536 + ws[2]))
Dec64(ws) == F(ws[1] \div 32768, (ws[1] \div 16) % 2048,
               B!FromWords16(<<ws[1] % 16, ws[2], ws[3], ws[4]>>).m)

\* words of a decoded half / float (for reporting and for bit-level specs)
Enc16(x) == x.sign * 32768 + x.ef * 1024 + B!ToNatM(x.fm)
Enc32(x) == LET f == B!ToNatM(x.fm)
            IN  <<x.sign * 32768 + x.ef * 128 + f \div 65536, f % 65536>>

\* decode by format tag as used in traces: "h" | "f" | "d"
Dec(tag, ws) == IF tag = "h" THEN Dec16(ws[1])
                ELSE IF tag = "f" THEN Dec32(ws) ELSE Dec64(ws)
FmtOf(tag) == IF tag = "h" THEN Fmt16 ELSE IF tag = "f" THEN Fmt32 ELSE Fmt64

----------------------------------------------------------------------------
\* classification

IsNaN(fmt, x)  == x.ef = fmt.efmax /\ x.fm # <<>>
IsInf(fmt, x)  == x.ef = fmt.efmax /\ x.fm = <<>>
IsZero(fmt, x) == x.ef = 0 /\ x.fm = <<>>
IsSub(fmt, x)  == x.ef = 0 /\ x.fm # <<>>
IsNorm(fmt, x) == x.ef > 0 /\ x.ef < fmt.efmax
IsFinite(fmt, x) == x.ef < fmt.efmax
Class(fmt, x) == IF x.ef = fmt.efmax THEN (IF x.fm = <<>> THEN "inf" ELSE "nan")
                 ELSE IF x.ef = 0 THEN (IF x.fm = <<>> THEN "zero" ELSE "sub")
                 ELSE "norm"

Sgn(x) == IF x.sign = 1 THEN -1 ELSE 1

\* significand as a magnitude, and exponent of its unit
SigM(fmt, x) == IF x.ef = 0 THEN x.fm ELSE B!AddM(HiddenM(fmt), x.fm)
QExp(fmt, x) == (IF x.ef = 0 THEN 1 ELSE x.ef) - fmt.bias - (fmt.p - 1)

\* exact value; for ef = efmax, fm = <<>> this is +-2^(emax+1), the value
\* "infinity" takes when it participates in rounding
Val(fmt, x) == D!Dy(B!Mk(Sgn(x), SigM(fmt, x)), QExp(fmt, x))
AbsVal(fmt, x) == D!Dy(B!Mk(1, SigM(fmt, x)), QExp(fmt, x))
Ulp(fmt, x) == D!Pow2(QExp(fmt, x))                  \* spacing above |x|
MaxFinite(fmt) == F(0, fmt.efmax - 1, B!SubM(HiddenM(fmt), <<1>>))
MinNormal(fmt) == F(0, 1, <<>>)
MinSub(fmt) == F(0, 0, <<1>>)
Inf(fmt, sign) == F(sign, fmt.efmax, <<>>)
QNaN(fmt) == F(0, fmt.efmax, B!ShiftLM(<<1>>, fmt.p - 2))
Zero(sign) == F(sign, 0, <<>>)
FracEven(x) == x.fm = <<>> \/ x.fm[1] % 2 = 0

\* successor / predecessor of the magnitude (same sign); defined for finite x
SuccMag(fmt, x) ==
    LET f1 == B!AddM(x.fm, <<1>>)
    IN  IF f1 = HiddenM(fmt) THEN F(x.sign, x.ef + 1, <<>>) ELSE F(x.sign, x.ef, f1)
PredMag(fmt, x) ==   \* x not zero
    IF x.fm = <<>> THEN F(x.sign, x.ef - 1, B!SubM(HiddenM(fmt), <<1>>))
    ELSE F(x.sign, x.ef, B!SubM(x.fm, <<1>>))
\* next representable value towards +infinity / -infinity (finite x)
Succ(fmt, x) == IF x.sign = 0 THEN SuccMag(fmt, x)
                ELSE IF IsZero(fmt, x) THEN MinSub(fmt)
                ELSE PredMag(fmt, x)
Pred(fmt, x) == IF x.sign = 1 THEN SuccMag(fmt, x)
                ELSE IF IsZero(fmt, x) THEN F(1, 0, <<1>>)
                ELSE PredMag(fmt, x)

----------------------------------------------------------------------------
\* The rounding relation.  C(t) is sign(|exact| - t) for a non-negative
\* dyadic t; r is a candidate magnitude (sign handled by the caller).
\* "r is nearest; on a tie its significand is even":
\*     upper:  2|x| <= 2v + u          (equality only if even)
\*     lower:  2|x| >= 2v - d          (equality only if even)
\* where u is the spacing above v and d the spacing below (u/2 at the bottom
\* of a binade).  Infinity stands for 2^(emax+1) and has no upper condition;
\* zero has no lower condition.

IsRNEc(fmt, C(_), r) ==
    LET v == AbsVal(fmt, r)
        u == Ulp(fmt, r)
        d == IF r.fm = <<>> /\ r.ef > 1 THEN D!DScale(u, -1) ELSE u
        even == FracEven(r)
        up == C(D!DAdd(v, D!DScale(u, -1)))      \* sign(|x| - (v + u/2))
        lo == C(D!DSub(v, D!DScale(d, -1)))      \* sign(|x| - (v - d/2))
    IN  /\ ~IsNaN(fmt, r)
        /\ (IsInf(fmt, r) \/ up < 0 \/ (up = 0 /\ even))
        /\ (IsZero(fmt, r) \/ lo > 0 \/ (lo = 0 /\ even))

\* r is the RNE image of the dyadic x (x # 0, or r is a zero)
IsRNE(fmt, x, r) ==
    LET ax == D!DAbs(x)
        C(t) == D!DCmp(ax, t)
    IN  /\ IsRNEc(fmt, C, r)
        /\ (D!DSign(x) # 0 => Sgn(r) = D!DSign(x))

\* r is the RNE image of the rational q
IsRNERat(fmt, q, r) ==
    LET aq == D!RAbs(q)
        C(t) == D!RCmpD(aq, t)
    IN  /\ IsRNEc(fmt, C, r)
        /\ (D!RSign(q) # 0 => Sgn(r) = D!RSign(q))

----------------------------------------------------------------------------
\* The rounding algorithm: |x| = (N / Dn) * 2^e with N, Dn magnitudes.

\* floor(a / b) for magnitudes, b # <<>>, by restoring division
RECURSIVE DivMR(_, _, _, _)
DivMR(r, b, k, q) ==
    IF k < 0 THEN <<q, r>>
    ELSE LET t == B!ShiftLM(b, k)
         IN  IF B!CmpM(t, r) <= 0
             THEN DivMR(B!SubM(r, t), b, k - 1, B!AddM(q, B!ShiftLM(<<1>>, k)))
             ELSE DivMR(r, b, k - 1, q)
DivModM(a, b) == IF B!CmpM(a, b) < 0 THEN <<(<<>>), a>>
                 ELSE DivMR(a, b, B!BitLenM(a) - B!BitLenM(b), <<>>)

\* n = round-half-even(N * 2^sh / Dn)
RoundQuot(N, Dn, sh) ==
    LET num == IF sh >= 0 THEN B!ShiftLM(N, sh) ELSE N
        den == IF sh >= 0 THEN Dn ELSE B!ShiftLM(Dn, -sh)
        qr  == DivModM(num, den)
        q   == qr[1]
        c   == B!CmpM(B!ShiftLM(qr[2], 1), den)
    IN  IF c > 0 \/ (c = 0 /\ q # <<>> /\ q[1] % 2 = 1) THEN B!AddM(q, <<1>>) ELSE q

RoundMagAt(fmt, N, Dn, e, E) ==   \* quantum 2^(E-p+1)
    RoundQuot(N, Dn, e - (E - fmt.p + 1))

RoundMag(fmt, sign, N, Dn, e) ==
    IF N = <<>> THEN Zero(sign)
    ELSE
    LET T0 == B!BitLenM(N) + e - B!BitLenM(Dn)       \* T in {T0-1, T0}
        E0 == IF T0 > Emin(fmt) THEN T0 ELSE Emin(fmt)
        \* |x| < 2^T0 exactly?  (then the leading bit is at T0-1)
        low == /\ E0 > Emin(fmt)
               /\ B!CmpM(IF e >= T0 THEN B!ShiftLM(N, e - T0) ELSE N,
                         IF e >= T0 THEN Dn ELSE B!ShiftLM(Dn, T0 - e)) < 0
        E  == IF low THEN E0 - 1 ELSE E0
        n  == RoundMagAt(fmt, N, Dn, e, E)
        top == B!ShiftLM(<<1>>, fmt.p)
        ef0 == IF B!CmpM(n, HiddenM(fmt)) < 0 THEN 0
               ELSE IF n = top THEN E + fmt.bias + 1 ELSE E + fmt.bias
        fm0 == IF ef0 = 0 THEN n ELSE IF n = top THEN <<>> ELSE B!SubM(n, HiddenM(fmt))
    IN  IF ef0 >= fmt.efmax THEN Inf(fmt, sign) ELSE F(sign, ef0, fm0)

\* round a dyadic; zsign is the sign given to an exactly-zero result
Round(fmt, x, zsign) ==
    IF D!DSign(x) = 0 THEN Zero(zsign)
    ELSE RoundMag(fmt, IF D!DSign(x) < 0 THEN 1 ELSE 0, x.m.m, <<1>>, x.e)

RoundRat(fmt, q, zsign) ==
    IF D!RSign(q) = 0 THEN Zero(zsign)
    ELSE RoundMag(fmt, IF D!RSign(q) < 0 THEN 1 ELSE 0,
                  q.n.m.m, q.d.m.m, q.n.e - q.d.e)

----------------------------------------------------------------------------
\* the four IEEE operations, default rounding, default NaN
\* (a NaN result is returned as QNaN; callers compare NaNs with IsNaN only)

Xor(a, b) == IF a = b THEN 0 ELSE 1

FAdd(fmt, a, b) ==
    IF IsNaN(fmt, a) \/ IsNaN(fmt, b) THEN QNaN(fmt)
    ELSE IF IsInf(fmt, a) THEN (IF IsInf(fmt, b) /\ a.sign # b.sign THEN QNaN(fmt) ELSE a)
    ELSE IF IsInf(fmt, b) THEN b
    ELSE Round(fmt, D!DAdd(Val(fmt, a), Val(fmt, b)),
               IF a.sign = 1 /\ b.sign = 1 THEN 1 ELSE 0)

FNeg(x) == F(1 - x.sign, x.ef, x.fm)
FSub(fmt, a, b) == IF IsNaN(fmt, b) THEN QNaN(fmt) ELSE FAdd(fmt, a, FNeg(b))

FMul(fmt, a, b) ==
    IF IsNaN(fmt, a) \/ IsNaN(fmt, b) THEN QNaN(fmt)
    ELSE IF IsInf(fmt, a) \/ IsInf(fmt, b)
         THEN (IF IsZero(fmt, a) \/ IsZero(fmt, b) THEN QNaN(fmt)
               ELSE Inf(fmt, Xor(a.sign, b.sign)))
    ELSE Round(fmt, D!DMul(Val(fmt, a), Val(fmt, b)), Xor(a.sign, b.sign))

FDiv(fmt, a, b) ==
    IF IsNaN(fmt, a) \/ IsNaN(fmt, b) THEN QNaN(fmt)
    ELSE IF IsInf(fmt, a) THEN (IF IsInf(fmt, b) THEN QNaN(fmt) ELSE Inf(fmt, Xor(a.sign, b.sign)))
    ELSE IF IsInf(fmt, b) THEN Zero(Xor(a.sign, b.sign))
    ELSE IF IsZero(fmt, b) THEN (IF IsZero(fmt, a) THEN QNaN(fmt) ELSE Inf(fmt, Xor(a.sign, b.sign)))
    ELSE RoundRat(fmt, D!RDivD(Val(fmt, a), Val(fmt, b)), Xor(a.sign, b.sign))

FOp(fmt, op, a, b) == CASE op = "add" -> FAdd(fmt, a, b) [] op = "sub" -> FSub(fmt, a, b)
                        [] op = "mul" -> FMul(fmt, a, b) [] op = "div" -> FDiv(fmt, a, b)

\* equality of data as IEEE results: same bits, or both NaN
SameOrNaN(fmt, x, y) == (IsNaN(fmt, x) /\ IsNaN(fmt, y)) \/ x = y

\* conversion between formats (exact widening, RNE narrowing); NaN handling
\* is format-pair specific and lives with the callers
Convert(from, to, x) ==
    IF IsInf(from, x) THEN Inf(to, x.sign)
    ELSE Round(to, Val(from, x), x.sign)

\* distance in units of the last place of the format, on the ordered-integer
\* view: Ord(x) is monotone in the value.  Only for Fmt16/Fmt32 (fits an Int
\* after splitting); for Fmt64 use UlpWithin.
\* |val(a) - val(b)| <= k * ulp(max(|a|,|b|))
UlpWithin(fmt, a, b, k) ==
    LET big == IF D!DCmpAbs(Val(fmt, a), Val(fmt, b)) >= 0 THEN a ELSE b
    IN  D!DWithin(Val(fmt, a), Val(fmt, b), D!DMul(D!DInt(k), Ulp(fmt, big)))

=============================================================================
