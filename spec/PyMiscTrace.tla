----------------------------- MODULE PyMiscTrace -----------------------------
(* Trace specification for PyMisc: every record is one observed call (or short
   episode) of the real imath module, judged against the definitions. *)
EXTENDS PyMisc, TraceIO
VARIABLE l
Rec == TraceLog[l]
Judge(r) == CASE r.e = "mview" -> MviewOK(r) [] r.e = "frombuf" -> FromBufOK(r)
              [] r.e = "get2d" -> Get2DOK(r) [] r.e = "set2d" -> Set2DOK(r) [] r.e = "set2d1" -> Set2D1OK(r) [] r.e = "set2dbad" -> Set2DBadOK(r)
              [] r.e = "mat" -> MatOK(r) [] r.e = "mask2d" -> Mask2DOK(r) [] r.e = "str" -> StrOK(r) [] r.e = "strseq" -> StrSeqOK(r) [] r.e = "conv" -> ConvOK(r) [] r.e = "hugeidx" -> HugeIdxOK(r) [] r.e = "maskcomp" -> MaskCompOK(r) [] r.e = "simplebuf" -> SimpleBufOK(r) [] r.e = "rowview" -> RowViewOK(r) [] r.e = "varr" -> VArrOK(r) [] OTHER -> FALSE
What(r) == CASE r.e = "mview" -> <<r.e, r.cls>> [] r.e = "frombuf" -> <<r.e, r.fn, r.fmt>>
             [] r.e \in {"get2d", "set2d", "set2d1", "mat"} -> <<r.e, r.cls>> [] r.e = "set2dbad" -> <<r.e, r.cls, r.index, r.src>> [] r.e \in {"mask2d", "varr"} -> <<r.e, r.cls, r.op>> [] r.e = "conv" -> <<r.e, r.src, r.dst, r.kind>> [] r.e = "hugeidx" -> <<r.e, r.cls, r.op, r.idx>> [] r.e = "maskcomp" -> <<r.e, r.cls, r.comp>> [] r.e = "simplebuf" -> <<r.e, r.cls, r.comp, r.consumer>> [] r.e = "rowview" -> <<r.e, r.cls, r.how>> [] OTHER -> <<r.e>>
Init == l = 1
Next == \/ /\ l <= TraceLen
           /\ IF Judge(Rec) THEN TRUE ELSE ReportBad(l, What(Rec))
           /\ l' = l + 1
        \/ l = TraceLen + 1 /\ ReportDone(TraceLen) /\ l' = l + 1
=============================================================================
