CONSTANTS N = 4 Threads <- ThreadsA Kind = "relIndex" MinIter = 1
INIT Init
NEXT Next
INVARIANT ResultCorrect
INVARIANT InBounds
CHECK_DEADLOCK FALSE
