CONSTANTS D = 1 Coords <- CoordsA MaxDepth = 3
INIT Init
NEXT Next
INVARIANT Minimal
INVARIANT EmptyIffNoPoints
INVARIANT MembershipIsIn
INVARIANT InfiniteContainsAll
INVARIANT IntersectsSymmetric
INVARIANT IntersectsIsSharing
INVARIANT AlgoIntersectsAgrees
INVARIANT AlgoExtendAgrees
INVARIANT ClosestInIsNearest
CHECK_DEADLOCK FALSE
