CONSTANTS N = 4 Threads <- ThreadsA Kind = "sharedScratch" MinIter = 1
INIT Init
NEXT Next
INVARIANT ResultCorrect
INVARIANT InBounds
CHECK_DEADLOCK FALSE
