----------------------------- MODULE FrustumCore -----------------------------
(***************************************************************************)
(* The viewing frustum of C16 over an abstract exact number type.          *)
(*                                                                         *)
(* State: seven fields  F = [n, f, l, r, t, b, o]  (near, far, left,       *)
(* right, top, bottom, orthographic).  The camera looks down -z; the near  *)
(* window is [l, r] x [b, t] at z = -n.                                    *)
(*                                                                         *)
(* Points are homogeneous 4-tuples <<x, y, z, w>> with w > 0, standing for *)
(* <<x, y, z>> / w, so that far corners of a perspective frustum and every *)
(* projected coordinate stay in the number type (no division anywhere:     *)
(* quotients are numerator / denominator pairs, compared cross-multiplied).*)
(*                                                                         *)
(* Instantiated with TLC integers (FrustumInt: the bounded model MCFrustum *)
(* checks the theorems below on every reachable state) and with exact      *)
(* dyadics (Frustum: the same definitions judge recorded executions).      *)
(***************************************************************************)
EXTENDS Integers, Sequences, FiniteSets, TLC
CONSTANTS NZero, NOne, NMul(_, _), NAdd(_, _), NSub(_, _), NNeg(_), NSgn(_)
NLe(a, b) == NSgn(NSub(a, b)) <= 0
NLt(a, b) == NSgn(NSub(a, b)) < 0
NEq(a, b) == NSgn(NSub(a, b)) = 0
NTwo == NAdd(NOne, NOne)
NSignOf(k) == IF k < 0 THEN NNeg(NOne) ELSE NOne          \* -1 / +1 as numbers

Dot3(a, b) == NAdd(NMul(a[1], b[1]), NAdd(NMul(a[2], b[2]), NMul(a[3], b[3])))
Cross(a, b) == << NSub(NMul(a[2], b[3]), NMul(a[3], b[2])), NSub(NMul(a[3], b[1]), NMul(a[1], b[3])), NSub(NMul(a[1], b[2]), NMul(a[2], b[1])) >>
Sub3(a, b) == << NSub(a[1], b[1]), NSub(a[2], b[2]), NSub(a[3], b[3]) >>
Scale3(a, k) == << NMul(a[1], k), NMul(a[2], k), NMul(a[3], k) >>

----------------------------------------------------------------------------
\* state and transitions
Fr(n, f, l, r, t, b, o) == [n |-> n, f |-> f, l |-> l, r |-> r, t |-> t, b |-> b, o |-> o]
NonDegenerate(F) == ~NEq(F.n, F.f) /\ ~NEq(F.l, F.r) /\ ~NEq(F.t, F.b)
\* a perspective frustum needs its near plane in front of the eye; an orthographic volume may start anywhere
WellFormed(F) == (F.o \/ NSgn(F.n) > 0) /\ NLt(F.n, F.f) /\ NLt(F.l, F.r) /\ NLt(F.b, F.t)
Dx(F) == NSub(F.r, F.l)
Dy(F) == NSub(F.t, F.b)
Dz(F) == NSub(F.f, F.n)

SetOrtho(F, o) == [F EXCEPT !.o = o]
\* modifyNearAndFar: an orthographic frustum keeps its window; a perspective one keeps its
\* slopes, as a relation (the new window is the old one scaled by n2 / n)
ModifyRel(F, n2, f2, G) ==
    /\ NEq(G.n, n2) /\ NEq(G.f, f2) /\ G.o = F.o
    /\ IF F.o THEN NEq(G.l, F.l) /\ NEq(G.r, F.r) /\ NEq(G.t, F.t) /\ NEq(G.b, F.b)
       ELSE /\ NEq(NMul(G.l, F.n), NMul(F.l, n2)) /\ NEq(NMul(G.r, F.n), NMul(F.r, n2))
            /\ NEq(NMul(G.t, F.n), NMul(F.t, n2)) /\ NEq(NMul(G.b, F.n), NMul(F.b, n2))
\* screenToLocal(s) = l + (r - l)(1 + s)/2, twice its value to stay division free
Local2X(F, sx) == NAdd(NMul(NTwo, F.l), NMul(Dx(F), NAdd(NOne, sx)))
Local2Y(F, sy) == NAdd(NMul(NTwo, F.b), NMul(Dy(F), NAdd(NOne, sy)))
\* window(wl, wr, wt, wb): same near, far and kind; the window becomes the local image of the screen rectangle
WindowRel(F, wl, wr, wt, wb, G) ==
    /\ NEq(G.n, F.n) /\ NEq(G.f, F.f) /\ G.o = F.o
    /\ NEq(NMul(NTwo, G.l), Local2X(F, wl)) /\ NEq(NMul(NTwo, G.r), Local2X(F, wr))
    /\ NEq(NMul(NTwo, G.t), Local2Y(F, wt)) /\ NEq(NMul(NTwo, G.b), Local2Y(F, wb))
\* localToScreen(p) = <<num / den>> per axis:  (l - 2 p + r) / (l - r)
ScreenNumX(F, px) == NAdd(NSub(F.l, NMul(NTwo, px)), F.r)
ScreenDenX(F) == NSub(F.l, F.r)
ScreenNumY(F, py) == NAdd(NSub(F.b, NMul(NTwo, py)), F.t)
ScreenDenY(F) == NSub(F.b, F.t)

----------------------------------------------------------------------------
\* corners:  sx, sy, sz in {-1, 1}  (left/right, bottom/top, near/far)
CornerXY(F, sx, sy) == << IF sx < 0 THEN F.l ELSE F.r, IF sy < 0 THEN F.b ELSE F.t >>
Corner(F, sx, sy, sz) ==
    LET c == CornerXY(F, sx, sy) IN
    IF sz < 0 \/ F.o THEN << c[1], c[2], NNeg(IF sz < 0 THEN F.n ELSE F.f), NOne >>
    ELSE << NMul(c[1], F.f), NMul(c[2], F.f), NNeg(NMul(F.f, F.n)), F.n >>          \* (c f / n, -f)
Signs == {-1, 1}

----------------------------------------------------------------------------
\* projection: clip coordinates of a homogeneous point, each as numerator over Den = <<dx, dy, dz>>;
\* the normalised device coordinate i is  ClipNum[i] / (ClipDen[i] * ClipW)
ClipDen(F) == << Dx(F), Dy(F), Dz(F) >>
ClipNum(F, p) ==
    IF F.o
    THEN << NSub(NMul(NTwo, p[1]), NMul(NAdd(F.r, F.l), p[4])),
            NSub(NMul(NTwo, p[2]), NMul(NAdd(F.t, F.b), p[4])),
            NNeg(NAdd(NMul(NTwo, p[3]), NMul(NAdd(F.f, F.n), p[4]))) >>
    ELSE << NAdd(NMul(NMul(NTwo, F.n), p[1]), NMul(NAdd(F.r, F.l), p[3])),
            NAdd(NMul(NMul(NTwo, F.n), p[2]), NMul(NAdd(F.t, F.b), p[3])),
            NNeg(NAdd(NMul(NAdd(F.f, F.n), p[3]), NMul(NMul(NTwo, NMul(F.f, F.n)), p[4]))) >>
ClipW(F, p) == IF F.o THEN p[4] ELSE NNeg(p[3])
\* the matrix, entry by entry, as <<numerator, denominator>> (row-vector convention, rows 1..4)
Q(n, d) == <<n, d>>
ProjEntry(F, i, j) ==
    LET z == Q(NZero, NOne)  dx == Dx(F)  dy == Dy(F)  dz == Dz(F) IN
    IF F.o
    THEN CASE i = 1 /\ j = 1 -> Q(NTwo, dx) [] i = 2 /\ j = 2 -> Q(NTwo, dy) [] i = 3 /\ j = 3 -> Q(NNeg(NTwo), dz)
           [] i = 4 /\ j = 1 -> Q(NNeg(NAdd(F.r, F.l)), dx) [] i = 4 /\ j = 2 -> Q(NNeg(NAdd(F.t, F.b)), dy)
           [] i = 4 /\ j = 3 -> Q(NNeg(NAdd(F.f, F.n)), dz) [] i = 4 /\ j = 4 -> Q(NOne, NOne) [] OTHER -> z
    ELSE CASE i = 1 /\ j = 1 -> Q(NMul(NTwo, F.n), dx) [] i = 2 /\ j = 2 -> Q(NMul(NTwo, F.n), dy)
           [] i = 3 /\ j = 1 -> Q(NAdd(F.r, F.l), dx) [] i = 3 /\ j = 2 -> Q(NAdd(F.t, F.b), dy)
           [] i = 3 /\ j = 3 -> Q(NNeg(NAdd(F.f, F.n)), dz) [] i = 3 /\ j = 4 -> Q(NNeg(NOne), NOne)
           [] i = 4 /\ j = 3 -> Q(NNeg(NMul(NTwo, NMul(F.f, F.n))), dz) [] OTHER -> z
\* Theorem (checked by MCFrustum): the eight corners go to the corners of the cube [-1, 1]^3
CornersToCube(F) == \A sx \in Signs, sy \in Signs, sz \in Signs :
    LET p == Corner(F, sx, sy, sz)  num == ClipNum(F, p)  den == ClipDen(F)  w == ClipW(F, p)
        s == <<sx, sy, sz>>
    IN  NSgn(w) > 0 /\ \A i \in 1..3 : NEq(num[i], NMul(NSignOf(s[i]), NMul(den[i], w)))
\* Theorem: the matrix entries are the coefficients of ClipNum / ClipDen (so ProjEntry and ClipNum describe one map)
EntriesMatchClip(F, p) == \A j \in 1..3 :
    \* sum_i p_i * entry(i, j) = ClipNum_j / ClipDen_j: all entries of column j share the denominator ClipDen_j
    LET col == [i \in 1..4 |-> ProjEntry(F, i, j)]
        sum == NAdd(NAdd(NMul(p[1], col[1][1]), NMul(p[2], col[2][1])), NAdd(NMul(p[3], col[3][1]), NMul(p[4], col[4][1])))
    IN  /\ \A i \in 1..4 : NSgn(col[i][1]) = 0 \/ NEq(col[i][2], ClipDen(F)[j])
        /\ NEq(sum, ClipNum(F, p)[j])

\* depth: normalizedZToDepth(zn) is the z of the point whose device z is Zp = 2 zn - 1
DepthRel(F, zp, d) == LET p == <<NZero, NZero, d, NOne>> IN NEq(ClipNum(F, p)[3], NMul(zp, NMul(Dz(F), ClipW(F, p))))
\* the code's closed forms, as fractions
AlgoDepth(F, zp) == IF F.o THEN Q(NNeg(NAdd(NMul(zp, Dz(F)), NAdd(F.f, F.n))), NTwo)
                    ELSE Q(NMul(NTwo, NMul(F.f, F.n)), NSub(NSub(NMul(zp, Dz(F)), F.f), F.n))
\* Theorem: the closed form satisfies the defining relation (cross-multiplied by its denominator q)
AlgoDepthOK(F, zp) == LET a == AlgoDepth(F, zp)  p == <<NZero, NZero, a[1], a[2]>> IN
    NSgn(a[2]) # 0 => NEq(ClipNum(F, p)[3], NMul(zp, NMul(Dz(F), ClipW(F, p))))

----------------------------------------------------------------------------
\* planes, in the documented order top, right, bottom, left, near, far; each as <<N, P0>>:
\* the plane through P0 (a homogeneous point) with normal N; outside is  N . (x - P0) > 0
PlaneFrom(p1, p2, p3) == << Cross(Sub3(p2, p1), Sub3(p3, p1)), <<p1[1], p1[2], p1[3], NOne>> >>
PlaneSide(pl, x) == \* sign of  N . (x - P0)  for homogeneous x (w > 0) and P0
    NSgn(NSub(NMul(Dot3(pl[1], x), pl[2][4]), NMul(Dot3(pl[1], pl[2]), x[4])))
Planes(F) ==
    LET a == <<F.l, F.b, NNeg(F.n)>>  b == <<F.l, F.t, NNeg(F.n)>>  c == <<F.r, F.t, NNeg(F.n)>>  d == <<F.r, F.b, NNeg(F.n)>>
        o == <<NZero, NZero, NZero>>
        unit(v, k) == << v, <<NMul(v[1], k), NMul(v[2], k), NMul(v[3], k), NOne>> >>        \* normal v (axis aligned, |v| = 1), offset k
    IN  IF ~F.o
        THEN << PlaneFrom(o, c, b), PlaneFrom(o, d, c), PlaneFrom(o, a, d), PlaneFrom(o, b, a),
                unit(<<NZero, NZero, NOne>>, NNeg(F.n)), unit(<<NZero, NZero, NNeg(NOne)>>, F.f) >>
        ELSE << unit(<<NZero, NOne, NZero>>, F.t), unit(<<NOne, NZero, NZero>>, F.r),
                unit(<<NZero, NNeg(NOne), NZero>>, NNeg(F.b)), unit(<<NNeg(NOne), NZero, NZero>>, NNeg(F.l)),
                unit(<<NZero, NZero, NOne>>, NNeg(F.n)), unit(<<NZero, NZero, NNeg(NOne)>>, F.f) >>
\* which corners lie on plane k
OnPlane(k, sx, sy, sz) == CASE k = 1 -> sy > 0 [] k = 2 -> sx > 0 [] k = 3 -> sy < 0 [] k = 4 -> sx < 0 [] k = 5 -> sz < 0 [] k = 6 -> sz > 0
\* Theorem: every corner is on its three planes and strictly inside the other three (so the six
\* non-positive half-spaces intersect in exactly the hull of the corners), normals point outwards
PlanesBoundFrustum(F) == \A k \in 1..6 : \A sx \in Signs, sy \in Signs, sz \in Signs :
    LET s == PlaneSide(Planes(F)[k], Corner(F, sx, sy, sz)) IN
    IF OnPlane(k, sx, sy, sz) THEN s = 0 ELSE s < 0

----------------------------------------------------------------------------
\* culling: a box (mn, mx) against one plane.  The least and greatest value of the affine function
\* N . (x - P0) over the box are attained at corners; FrustumTest evaluates them as
\* N . centre -+ |N| . extent.  Doubled (c2 = mn + mx, e2 = mx - mn) to stay division free; P0 has weight 1.
NAbsV(a) == IF NSgn(a) < 0 THEN NNeg(a) ELSE a
AbsDot3(a, b) == NAdd(NMul(NAbsV(a[1]), b[1]), NAdd(NMul(NAbsV(a[2]), b[2]), NMul(NAbsV(a[3]), b[3])))
BoxCorners(mn, mx) == {<< IF i = 0 THEN mn[1] ELSE mx[1], IF j = 0 THEN mn[2] ELSE mx[2], IF k = 0 THEN mn[3] ELSE mx[3], NOne >> : i \in {0, 1}, j \in {0, 1}, k \in {0, 1}}
Add3(a, b) == << NAdd(a[1], b[1]), NAdd(a[2], b[2]), NAdd(a[3], b[3]) >>
BoxLeast2(pl, mn, mx) == NSub(NSub(Dot3(pl[1], Add3(mn, mx)), AbsDot3(pl[1], Sub3(mx, mn))), NMul(NTwo, Dot3(pl[1], pl[2])))
BoxMost2(pl, mn, mx) == NSub(NAdd(Dot3(pl[1], Add3(mn, mx)), AbsDot3(pl[1], Sub3(mx, mn))), NMul(NTwo, Dot3(pl[1], pl[2])))
\* Theorem: the centre/extent form decides "all corners outside" and "all corners inside" exactly
BoxTestExact(pl, mn, mx) ==
    /\ (NSgn(BoxLeast2(pl, mn, mx)) >= 0) = (\A x \in BoxCorners(mn, mx) : PlaneSide(pl, x) >= 0)
    /\ (NSgn(BoxMost2(pl, mn, mx)) < 0) = (\A x \in BoxCorners(mn, mx) : PlaneSide(pl, x) < 0)
=============================================================================
