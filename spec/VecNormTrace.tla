---------------------------- MODULE VecNormTrace ----------------------------
(***************************************************************************)
(* Trace specification for C08 and the vector part of C07.  A "vec" record *)
(* carries one input vector and, for it: length(), length2(), dot(self),   *)
(* and the outcome of each of the six normalisation forms (returned value  *)
(* or the exception type thrown).  A "v34" record carries a Vec4 and the   *)
(* outcomes of Vec3(Vec4) and Vec3(Vec4, INF_EXCEPTION).                    *)
(***************************************************************************)
EXTENDS VecNorm, TraceIO
VARIABLES l, skipped
Rec == TraceLog[l]

Form(r, name) == LET S == {k \in 1..Len(r.forms) : r.forms[k].s = name} IN r.forms[CHOOSE k \in S : TRUE]
Threw(f) == f.exc # ""

\* C08 -------------------------------------------------------------------------
C08OK(r) == \E c \in {[xs |-> Nums(r.t, r.x)]} : \E d \in {[zero |-> AllZero(c.xs), scope |-> InScope(r.t, c.xs), normal |-> NormIsNormal(r.t, c.xs)]} :
    LET t == r.t  xs == c.xs IN
    ~d.scope \/
    /\ LenOK(t, xs, r.len)
    /\ r.len2 = r.dot                                              \* length2() is dot(self)
    /\ (FinAll(t, <<r.len2>>) => Within(t, r.len2, Dot(xs, xs)))
    /\ \A k \in 1..Len(r.forms) :
         \* (the bound name must not coincide with a formal parameter of the operators its fields are passed to: TLC evaluates
         \*  arguments lazily, in the callee's context)
         LET frm_ == r.forms[k] IN
         \* never NaN or infinity, whatever the size of the norm (the NonNull forms have the non-null vector as precondition)
         /\ ((~Threw(frm_) /\ ~(d.zero /\ frm_.s \in {"normalizeNonNull", "normalizedNonNull"})) =>
                \A i \in 1..Len(frm_.v) : I!IsFinite(Fm(t), I!Dec(t, frm_.v[i])))
         /\ IF d.zero
            THEN (frm_.s \in {"normalize", "normalized"} => ~Threw(frm_) /\ IsZeroVec(t, frm_.v))    \* zero maps to zero
            ELSE d.normal => (~Threw(frm_) /\ NormOK(t, xs, frm_.v))

\* C07: checked (Exc) vs unchecked -------------------------------------------------
PairOK(r, unchecked, checked) ==
    LET u == Form(r, unchecked)  c == Form(r, checked)
        xs == Nums(r.t, r.x)
    IN  /\ ~Threw(u)
        /\ (~Threw(c) => c.v = u.v)                                      \* bit-identical when it returns
        /\ (Threw(c) => c.exc = "std::domain_error")                     \* the documented type
        /\ (Threw(c) <=> AllZero(xs))                                    \* throws exactly for the null vector
        /\ (AllZero(xs) => IsZeroVec(r.t, u.v))                          \* ... where the unchecked form reports failure
C07VecOK(r) ==
    /\ PairOK(r, "normalize", "normalizeExc")
    /\ PairOK(r, "normalized", "normalizedExc")
    /\ (~AllZero(Nums(r.t, r.x)) =>                                      \* NonNull forms agree on non-null input
           /\ Form(r, "normalizeNonNull").v = Form(r, "normalize").v
           /\ Form(r, "normalizedNonNull").v = Form(r, "normalized").v)
    /\ (~AllZero(Nums(r.t, r.x)) => Form(r, "normalize").v = Form(r, "normalized").v)     \* (for the null vector both are a zero vector; signs of zero may differ)

\* Vec3(Vec4, INF_EXCEPTION): the guard may fire only when some |v_i / w| >= max/4
\* and must fire when the quotient is not finite
V34OK(r) ==
    LET t == r.t  v == Nums(t, r.x)
        w == v[4]
        big(i) == D!DCmpAbs(v[i], D!DMul(D!Pow2(I!Emax(Fm(t)) - 2), w)) >= 0      \* |v_i| >= (max/4) |w|
        over(i) == D!DCmpAbs(v[i], D!DMul(D!Pow2(I!Emax(Fm(t)) + 1), w)) >= 0     \* |v_i| >= 2^(emax+1) |w|: overflows
        u == r.unchecked  c == r.checked
    IN  /\ (~Threw(c) => c.v = u.v)
        /\ (Threw(c) => c.exc = "std::domain_error" /\ \E i \in 1..3 : big(i))
        /\ ((\E i \in 1..3 : over(i) /\ ~D!DIsZero(v[i])) => Threw(c))
        /\ ((\A i \in 1..3 : ~big(i)) => ~Threw(c) /\ FinAll(t, c.v))

Judge(r) == CASE r.e = "vec" -> C08OK(r) /\ C07VecOK(r)
              [] r.e = "v34" -> V34OK(r)
              [] OTHER -> FALSE
Why(r) == IF r.e = "vec" THEN (IF ~C08OK(r) THEN "C08" ELSE "C07") ELSE "C07"

Init == l = 1 /\ skipped = 0
Next == \/ /\ l <= TraceLen
           /\ IF Judge(Rec) THEN TRUE ELSE ReportBad(l, <<Rec.e, Rec.t, Rec.n, Why(Rec)>>)
           /\ skipped' = IF Rec.e = "vec" /\ ~InScope(Rec.t, Nums(Rec.t, Rec.x)) THEN skipped + 1 ELSE skipped
           /\ l' = l + 1
        \/ /\ l = TraceLen + 1 /\ ReportDone(TraceLen) /\ PrintT(<<"INFO", "skipped", skipped>>)
           /\ l' = l + 1 /\ UNCHANGED skipped
=============================================================================
