------------------------------ MODULE Aggregate ------------------------------
(***************************************************************************)
(* N-slot aggregates (Vec2/3/4, Color3/4, Shear6, Quat, Matrix22/33/44)    *)
(* as a register machine (C04): the accumulator is an N-tuple of element   *)
(* values and every operator, in every spelling, is defined SLOT-WISE:     *)
(*        acc'[i] = SOp(T, op, acc[i], operand[i])                         *)
(* with SOp the scalar operation of the element type T:                    *)
(*   i32/i64  integer arithmetic, division truncating towards zero         *)
(*   i16/u8   the same in int, then wrapped to the element type            *)
(*   f/d      the single IEEE-754 operation, bit-exact (IEEE754!FOp)       *)
(*   h        widen to float, operate once, narrow (Half)                  *)
(* Element values are plain integers for integer types and decoded IEEE    *)
(* data for floating types.                                                *)
(***************************************************************************)
EXTENDS Integers, Sequences, TLC
I == INSTANCE IEEE754
HF == INSTANCE Half

IsInt(T) == T \in {"i16", "i32", "i64", "u8"}
DivTrunc(a, b) == IF (a >= 0) = (b > 0) THEN (IF a >= 0 THEN a \div b ELSE (-a) \div (-b))
                  ELSE (IF a >= 0 THEN -(a \div (-b)) ELSE -((-a) \div b))
Wrap(T, x) == CASE T = "i16" -> ((x + 32768) % 65536) - 32768
                [] T = "u8" -> x % 256
                [] OTHER -> x
IntOp(op, a, b) == CASE op = "add" -> a + b [] op = "sub" -> a - b [] op = "mul" -> a * b [] op = "div" -> DivTrunc(a, b)

Fmt(T) == IF T = "f" THEN I!Fmt32 ELSE IF T = "d" THEN I!Fmt64 ELSE I!Fmt16
Dec(T, w) == IF IsInt(T) THEN w ELSE I!Dec(T, w)          \* T in {"h","f","d"} are also the IEEE754 tags

\* the scalar operation of the element type, on decoded values
SOp(T, op, a, b) ==
    IF IsInt(T) THEN Wrap(T, IntOp(op, a, b))
    ELSE IF T = "h" THEN LET t == I!FOp(I!Fmt32, op, HF!H2F(a), HF!H2F(b)) IN HF!F2H(t)
    ELSE I!FOp(Fmt(T), op, a, b)
SNeg(T, a) == IF IsInt(T) THEN Wrap(T, -a) ELSE I!FNeg(a)
Same(T, x, y) == IF IsInt(T) THEN x = y ELSE I!SameOrNaN(Fmt(T), x, y)

\* value equality of the element type (what operator== of the element says)
ElemEq(T, x, y) == IF IsInt(T) THEN x = y
                   ELSE /\ ~I!IsNaN(Fmt(T), x) /\ ~I!IsNaN(Fmt(T), y)
                        /\ (x = y \/ (I!IsZero(Fmt(T), x) /\ I!IsZero(Fmt(T), y)))

OpKind(op) == IF op \in {"add", "sub", "mul", "div"} THEN "vec" ELSE IF op = "smul" THEN "mul" ELSE IF op = "sdiv" THEN "div" ELSE op
\* the register machine step, slot by slot
StepSlot(T, op, accI, operand, i) ==
    CASE op = "set" -> operand[i]
      [] op \in {"add", "sub", "mul", "div"} -> SOp(T, op, accI, operand[i])
      [] op = "smul" -> SOp(T, "mul", accI, operand[1])
      [] op = "sdiv" -> SOp(T, "div", accI, operand[1])
      [] op = "neg" -> SNeg(T, accI)
ElemSize(T) == CASE T = "u8" -> 1 [] T \in {"i16", "h"} -> 2 [] T \in {"i32", "f"} -> 4 [] OTHER -> 8
=============================================================================
