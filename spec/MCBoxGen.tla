------------------------------ MODULE MCBoxGen ------------------------------
(* Behaviour generation for replay: the MCBox state machine with a history
   variable; TLC (-simulate) prints complete histories which rec_box replays on
   real Box/Interval objects of every element type. *)
EXTENDS MCBox, Json, Randomization
VARIABLE hist

GInit == Init /\ hist = <<>>
GNext == /\ depth < MaxDepth
         /\ depth' = depth + 1
         /\ \/ MakeEmpty /\ hist' = Append(hist, [act |-> "makeEmpty"])
            \/ MakeInfinite /\ hist' = Append(hist, [act |-> "makeInfinite"])
            \/ \E p \in RandomSubset(3, PointsFinite) : ExtendByPoint(p) /\ hist' = Append(hist, [act |-> "extendPt", p |-> p])
            \/ \E c \in RandomSubset(2, NonEmptyBoxes) \cup {EmptyBox(D)} : ExtendByBox(c) /\ hist' = Append(hist, [act |-> "extendBox", mn |-> c.mn, mx |-> c.mx])
            \/ \E c \in RandomSubset(1, Boxes) : Assign(c) /\ hist' = Append(hist, [act |-> "assign", mn |-> c.mn, mx |-> c.mx])
Export == depth = MaxDepth => PrintT("BEHAVIOUR " \o ToJson(hist))
=============================================================================
