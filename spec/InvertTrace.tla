----------------------------- MODULE InvertTrace -----------------------------
(* Trace specification for C06: each record is one matrix and the results of the
   non-throwing inversion forms (value-returning and in-place, determinant-based and
   Gauss-Jordan).  "skipped" counts records outside the property's scope
   (not moderately scaled, or between the two overflow thresholds). *)
EXTENDS Invert, TraceIO
VARIABLES l, skipped
Rec == TraceLog[l]

\* forms: inverse / invert (determinant-based except non-affine 4x4), gjInverse / gjInvert
OneOK(r, c, f) ==
    LET t == r.t  A == c.A  n == r.n
        X == Mat(t, f.x, n, n)
        \* Matrix44::inverse/invert delegate to Gauss-Jordan unless the last column is (0,0,0,1)
        gj == f.gj = 1 \/ (n = 4 /\ ~(D!DIsZero(A[1][4]) /\ D!DIsZero(A[2][4]) /\ D!DIsZero(A[3][4]) /\ D!DEq(A[4][4], D!DOne)))
    IN  /\ (WellEnough(t, c) /\ ~D!DIsZero(c.det) => FiniteMat(t, f.x))          \* never inf/NaN when kappa < 1/eps^2
        /\ IF D!DIsZero(c.det)
           THEN (IF gj THEN (ExactPivotZero(A) => IsIdentity(t, f.x, n)) ELSE IsIdentity(t, f.x, n))
           ELSE IF ~gj /\ Overflows(t, c) THEN IsIdentity(t, f.x, n)
           ELSE IF Conditioned(t, c) /\ Representable(t, c) THEN FiniteMat(t, f.x) /\ InvOK(t, c, X)
           ELSE TRUE

Scoped(r) == FiniteMat(r.t, r.m) /\ Moderate(r.t, M_(r))

\* in-place forms leave exactly what the value-returning forms return
PairsOK(r) == \A f \in {r.forms[k] : k \in 1..Len(r.forms)} :
                 \A g \in {r.forms[k] : k \in 1..Len(r.forms)} : (f.pair = g.pair) => f.x = g.x

\* forms with identical results are judged once
Distinct(r) == {k \in 1..Len(r.forms) : \A j \in 1..(k - 1) : r.forms[j].x # r.forms[k].x \/ r.forms[j].gj # r.forms[k].gj}
Judge(r) == ~Scoped(r) \/ (PairsOK(r) /\ LET c == Ctx(r.t, M_(r)) IN \A k \in Distinct(r) : OneOK(r, c, r.forms[k]))
BadForm(r) == IF ~PairsOK(r) THEN "in-place-differs"
              ELSE LET c == Ctx(r.t, M_(r))
                       k == CHOOSE k \in 1..Len(r.forms) : ~OneOK(r, c, r.forms[k]) IN r.forms[k].s

Init == l = 1 /\ skipped = 0
Next == \/ /\ l <= TraceLen
           /\ IF Judge(Rec) THEN TRUE ELSE ReportBad(l, <<"inv", Rec.t, Rec.n, Rec.fam, BadForm(Rec)>>)
           /\ skipped' = IF Scoped(Rec) THEN skipped ELSE skipped + 1
           /\ l' = l + 1
        \/ /\ l = TraceLen + 1 /\ ReportDone(TraceLen) /\ PrintT(<<"INFO", "skipped", skipped>>)
           /\ l' = l + 1 /\ UNCHANGED skipped
=============================================================================
