CONSTANTS N = 4 Threads <- ThreadsA Kind = "wellformed" MinIter = 1
INIT Init
NEXT Next
INVARIANT ResultCorrect
INVARIANT InBounds
CHECK_DEADLOCK FALSE
