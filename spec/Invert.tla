------------------------------- MODULE Invert -------------------------------
(***************************************************************************)
(* Matrix inversion (C06) in exact arithmetic.  For a logged matrix M the  *)
(* specification forms the adjugate and determinant as exact dyadics       *)
(* (LinAlg polynomials), so the exact inverse is Adj/det without any       *)
(* division, and                                                           *)
(*    kappa = ||M||_inf * ||Adj||_inf / |det|      (condition number)      *)
(* A result X is a true inverse when, entry by entry,                      *)
(*    |X_ij - Adj_ij/det| <= K * kappa * eps * max|Adj|/|det|              *)
(* which is evaluated cross-multiplied by |det|^2.  Singular outcomes:     *)
(* det = 0, or a quotient Adj_ij/det beyond the format's maximum, must     *)
(* yield the identity from the non-throwing determinant-based forms;       *)
(* Gauss-Jordan must yield the identity when a pivot column is exactly     *)
(* zero (zero row/column, duplicate rows).                                 *)
(***************************************************************************)
EXTENDS LinAlg

Dim(r) == r.n
M_(r) == Mat(r.t, r.m, r.n, r.n)
X_(r) == Mat(r.t, r.x, r.n, r.n)

AdjPoly(A) == [i \in 1..Len(A) |-> [j \in 1..Len(A) |->
                 IF (i + j) % 2 = 0 THEN MinorPoly(A, j, i) ELSE PNeg(MinorPoly(A, j, i))]]
Adj1(A) == IF Len(A) = 1 THEN <<<<D!DOne>>>> ELSE MatVal(AdjPoly(A))
RECURSIVE MaxSeq(_, _)
MaxSeq(s, k) == IF k > Len(s) THEN D!DZero ELSE D!DMax(s[k], MaxSeq(s, k + 1))
RowAbsSums(A) == [i \in 1..Len(A) |-> D!DSumAbs(A[i])]
NormInf(A) == MaxSeq(RowAbsSums(A), 1)
MaxAbs(A) == MaxSeq([i \in 1..Len(A) |-> MaxSeq([j \in 1..Len(A) |-> D!DAbs(A[i][j])], 1)], 1)

FiniteMat(t, ws) == FinAll(t, ws)
IsIdentity(t, ws, n) == \A i \in 1..n, j \in 1..n :
                          D!DEq(Num(t, ws[(i - 1) * n + j]), IF i = j THEN D!DOne ELSE D!DZero)

\* "moderately scaled": non-zero entries within 2^-(emax/8) .. 2^(emax/8)
Moderate(t, A) ==
    LET lim == I!Emax(Fm(t)) \div 8 IN
    \A i \in 1..Len(A), j \in 1..Len(A) :
       D!DIsZero(A[i][j]) \/ (D!DTop(A[i][j]) >= -lim /\ D!DTop(A[i][j]) <= lim)

KInv(n) == 64 * n
\* everything derived from the matrix is computed once per record
Ctx(t, A) == LET adj == Adj1(A) IN
             [A |-> A, adj |-> adj, det |-> Det(A), nA |-> NormInf(A), nAdj |-> NormInf(adj), mAdj |-> MaxAbs(adj)]
\* |X_ij det - Adj_ij| * |det|  <=  K eps ||M|| ||Adj||_inf max|Adj|   (+ subnormal floor)
InvOK(t, c, X) ==
    LET n == Len(c.A)
        bound == D!DAdd(D!DMul(D!DMul(D!DMul(D!DMul(D!DInt(KInv(n)), Eps(t)), c.nA), c.nAdj), c.mAdj),
                        D!DMul(D!DMul(D!DInt(KInv(n)), Tiny(t)), D!DMul(c.det, c.det)))
    IN  \A i \in 1..n, j \in 1..n :
           D!DCmpAbs(D!DMul(D!DSub(D!DMul(X[i][j], c.det), c.adj[i][j]), c.det), bound) <= 0

\* kappa < 1/eps^2, cross-multiplied: ||M|| ||Adj||_inf eps^2 < |det|
WellEnough(t, c) == D!DCmpAbs(D!DMul(D!DMul(c.nA, c.nAdj), D!DMul(Eps(t), Eps(t))), c.det) < 0
\* kappa <= 1/(4 eps): the accuracy clause applies
Conditioned(t, c) == D!DCmpAbs(D!DMul(D!DMul(D!DMul(c.nA, c.nAdj), Eps(t)), D!DInt(4)), c.det) <= 0
\* the exact inverse is comfortably representable: max|Adj| < (max/4) |det|
Representable(t, c) == D!DCmpAbs(c.mAdj, D!DMul(D!Pow2(I!Emax(Fm(t)) - 2), c.det)) < 0
\* the exact inverse overflows: some |Adj_ij| > 4 max |det|
Overflows(t, c) == D!DCmpAbs(c.mAdj, D!DMul(D!Pow2(I!Emax(Fm(t)) + 2), c.det)) > 0

ZeroRow(A) == \E i \in 1..Len(A) : \A j \in 1..Len(A) : D!DIsZero(A[i][j])
ZeroCol(A) == \E j \in 1..Len(A) : \A i \in 1..Len(A) : D!DIsZero(A[i][j])
DupRow(A) == \E i \in 1..Len(A), k \in 1..Len(A) : i # k /\ \A j \in 1..Len(A) : D!DEq(A[i][j], A[k][j])
ExactPivotZero(A) == ZeroRow(A) \/ ZeroCol(A) \/ DupRow(A)
=============================================================================
