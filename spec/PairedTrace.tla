----------------------------- MODULE PairedTrace -----------------------------
(***************************************************************************)
(* Trace specification for C07: every record holds the outcome of the      *)
(* unchecked form (u) and of the checked form (c) of one operation on one  *)
(* input.  An outcome is [exc |-> exception type or "", ok |-> the boolean *)
(* the function returned (1 where it returns none), v |-> flat results].   *)
(*                                                                         *)
(*   Agree       c returns => its results are bit-identical to u's         *)
(*   Documented  c throws  => the documented standard exception type       *)
(*   pair   (inversion)      c throws <=> u returned the identity for a    *)
(*                           matrix that is not the identity               *)
(*   pairb  (decomposition)  c throws <=> u returned false                 *)
(*   pairf  (frustum)        c throws => some result of u is not finite or *)
(*                           is within a factor 16 of the format's maximum *)
(*                           (so well-conditioned input never throws)      *)
(***************************************************************************)
EXTENDS LinAlg, TraceIO
VARIABLE l
Rec == TraceLog[l]

Threw(o) == o.exc # ""
Agree(r) == ~Threw(r.c) => (~Threw(r.u) /\ r.c.v = r.u.v /\ r.c.ok = r.u.ok)

IsIdent(t, ws, n) == \A i \in 1..n, j \in 1..n : D!DEq(Num(t, ws[(i - 1) * n + j]), IF i = j THEN D!DOne ELSE D!DZero)
PairOK(r) ==
    LET singular == IsIdent(r.t, r.u.v, r.n) /\ ~IsIdent(r.t, r.m, r.n) IN
    /\ Agree(r)
    /\ (Threw(r.c) => r.c.exc = "std::invalid_argument")
    /\ (Threw(r.c) <=> singular)

ValueReturning(op) == op \in {"sansScaling", "sansScalingAndShear"}
PairbOK(r) ==
    /\ Agree(r)
    /\ (Threw(r.c) => r.c.exc = "std::domain_error")
    /\ (~ValueReturning(r.op) => (Threw(r.c) <=> r.u.ok = 0))
    /\ (~Threw(r.c) => r.c.ok = 1)
    /\ (r.fam \in {"regular", "reflection"} => ~Threw(r.c))            \* well-conditioned input never throws

Huge(t, ws) == \E i \in 1..Len(ws) :
                  \/ ~I!IsFinite(Fm(t), I!Dec(t, ws[i]))
                  \/ D!DCmpAbs(Num(t, ws[i]), D!Pow2(I!Emax(Fm(t)) - 4)) >= 0
\* DepthToZ returns a long: an overflowing intermediate shows up as a saturated integer
HugeLong(t, ws) == \E i \in 1..Len(ws) : D!DCmpAbs(Num(t, ws[i]), D!Pow2(60)) >= 0
PairfOK(r) ==
    /\ Agree(r)
    /\ (Threw(r.c) => r.c.exc = "std::domain_error" /\ (IF r.op = "DepthToZ" THEN HugeLong(r.t, r.u.v) ELSE Huge(r.t, r.u.v)))

Judge(r) == CASE r.e = "pair" -> PairOK(r) [] r.e = "pairb" -> PairbOK(r) [] r.e = "pairf" -> PairfOK(r) [] OTHER -> FALSE
Init == l = 1
Next == \/ /\ l <= TraceLen
           /\ IF Judge(Rec) THEN TRUE ELSE ReportBad(l, <<Rec.e, Rec.op, Rec.t, Rec.n, Rec.fam>>)
           /\ l' = l + 1
        \/ l = TraceLen + 1 /\ ReportDone(TraceLen) /\ l' = l + 1
=============================================================================
