CONSTANTS MaxLen = 4 MaxDepth = 7 Sim = TRUE BndLo <- BLoWide BndHi = 6 Steps <- StepsWide
INIT Init
NEXT Next
INVARIANT Export
INVARIANT NoOOB
CHECK_DEADLOCK FALSE
