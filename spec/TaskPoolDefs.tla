---------------------------- MODULE TaskPoolDefs ----------------------------
(* Constant-level definitions shared by TaskPool (the model) and TaskPoolTrace:
   partitions of an index range into sub-ranges, and their orders. *)
EXTENDS Integers, Sequences, FiniteSets, TLC

\* all ways to cut [0,L) into consecutive non-empty ranges, as sets of cut points
Cuts(L) == SUBSET (1..(L - 1))
RangesOf(L, C) == LET pts == {0, L} \cup C
                      S == {<<a, b>> \in pts \X pts : a < b /\ ~\E c \in pts : a < c /\ c < b}
                  IN  S
\* all orders of a finite set as sequences
RECURSIVE Orders(_)
Orders(S) == IF S = {} THEN {<<>>} ELSE UNION {{<<x>> \o o : o \in Orders(S \ {x})} : x \in S}

IsPartition(rs, L) ==      \* a sequence of [s,e) ranges covering [0,L) exactly once
    /\ \A k \in 1..Len(rs) : 0 <= rs[k][1] /\ rs[k][1] < rs[k][2] /\ rs[k][2] <= L
    /\ \A i \in 0..(L - 1) : Cardinality({k \in 1..Len(rs) : rs[k][1] <= i /\ i < rs[k][2]}) = 1

=============================================================================
