CONSTANTS Dim = 3 MaxDepth = 3
INIT Init
NEXT Next
INVARIANT PointsFirstThroughSet
CHECK_DEADLOCK FALSE
