INIT Init
NEXT Next
INVARIANT SignTables
INVARIANT FloorChar
INVARIANT ColourInverse
CHECK_DEADLOCK FALSE
