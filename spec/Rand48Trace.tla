---------------------------- MODULE Rand48Trace ----------------------------
(***************************************************************************)
(* Trace specification for Rand48: validates recorded interleavings of the *)
(* generator entry points.  The hidden static state of srand48/lrand48/    *)
(* drand48 is threaded by the specification (variable static); caller-     *)
(* visible state arrays are logged before and after each call.  Generator  *)
(* objects are judged for range and for determinism: an object created     *)
(* with "twin":1 repeats the seed and call sequence of the object with the *)
(* same id, and must reproduce its outputs (variable hist).                *)
(***************************************************************************)
EXTENDS Rand48, TraceIO

VARIABLES l, static, hist, cnt
vars == <<l, static, hist, cnt>>
Rec == TraceLog[l]

F64 == I!Fmt64
F32 == I!Fmt32
FmtT(t) == IF t = "f" THEN F32 ELSE F64
DecT(t, ws) == IF t = "f" THEN I!Dec32(ws) ELSE I!Dec64(ws)
DecAll(t, wss) == [i \in 1..Len(wss) |-> DecT(t, wss[i])]

UnitRange(fmt, d) == /\ I!IsFinite(fmt, d)
                     /\ (d.sign = 0 \/ I!IsZero(fmt, d))
                     /\ D!DLt(I!Val(fmt, d), D!DOne)

ObjOK(r) ==
    CASE r.op = "init" -> TRUE
      [] r.op = "nextb" -> r.out \in {0, 1}
      [] r.op = "nexti" -> /\ r.out[1] = 0 /\ r.out[2] = 0
                           /\ (r.cls = "Rand48" => r.out[3] < 32768)
      [] r.op = "nextf" -> UnitRange(FmtT(r.t), DecT(r.t, r.out))
      [] r.op = "nextfr" -> InRange1(FmtT(r.t), DecT(r.t, r.a), DecT(r.t, r.b), DecT(r.t, r.out))
      [] r.op = "solid" -> LET v == DecAll(r.t, r.out)
                           IN  /\ AllFinite(FmtT(r.t), v)
                               /\ D!DLe(SumSq(FmtT(r.t), v), D!DAdd(D!DOne, Eps(FmtT(r.t), 4)))
      [] r.op = "hollow" -> LET v == DecAll(r.t, r.out)
                            IN  /\ AllFinite(FmtT(r.t), v)
                                /\ D!DWithin(SumSq(FmtT(r.t), v), D!DOne, Eps(FmtT(r.t), 8))
      [] r.op = "gauss" -> I!IsFinite(F32, I!Dec32(r.out[1]))
      [] r.op = "gsphere" -> AllFinite(FmtT(r.t), DecAll(r.t, r.out))
      [] OTHER -> FALSE

\* solidSphereRand at the resolution of its own rejection test: the squared length, evaluated in the element type exactly as
\* Vec::length2() = dot does (left to right, every product and sum rounded; no fused multiply-add), is at most one
RECURSIVE SumSqF(_, _, _)
SumSqF(fmt, v, k) == IF k = 1 THEN I!FOp(fmt, "mul", v[1], v[1])
                     ELSE I!FOp(fmt, "add", SumSqF(fmt, v, k - 1), I!FOp(fmt, "mul", v[k], v[k]))
BallScanOK(r) == LET v == DecAll(r.t, r.out) IN
                 /\ AllFinite(FmtT(r.t), v)
                 /\ D!DLe(I!Val(FmtT(r.t), SumSqF(FmtT(r.t), v, Len(v))), D!DOne)

Key(r) == r.id
Seen(r) == IF Key(r) \in DOMAIN hist THEN hist[Key(r)] ELSE <<>>
Count(r) == IF Key(r) \in DOMAIN cnt THEN cnt[Key(r)] ELSE 0
\* determinism: the twin's n-th output equals the original's n-th output
TwinOK(r) == r.twin = 0 \/ (Count(r) < Len(Seen(r)) /\ Seen(r)[Count(r) + 1] = <<r.op, r.out>>)

Judge(r) ==
    CASE r.e = "srand48" -> TRUE
      [] r.e = "lrand48" -> r.out = Nrand(Step(static))
      [] r.e = "drand48" -> ErandRel(Step(static), I!Dec64(r.out))
      [] r.e = "nrand48" -> r.post = Step(r.pre) /\ r.out = Nrand(r.post)
      [] r.e = "erand48" -> r.post = Step(r.pre) /\ ErandRel(r.post, I!Dec64(r.out))
      [] r.e = "obj" -> ObjOK(r) /\ TwinOK(r)
      [] r.e = "ballscan" -> BallScanOK(r)
      [] OTHER -> FALSE

Init == l = 1 /\ static = <<0, 0, 0>> /\ hist = <<>> /\ cnt = <<>>

StepRec ==
    /\ l <= TraceLen
    /\ LET r == Rec IN
       /\ IF Judge(r) THEN TRUE ELSE ReportBad(l, <<r.e, IF r.e = "obj" THEN r.op ELSE "">>)
       /\ static' = CASE r.e = "srand48" -> SeedState(r.seed)
                      [] r.e \in {"lrand48", "drand48"} -> Step(static)
                      [] OTHER -> static
       /\ hist' = IF r.e = "obj" /\ r.twin = 0
                  THEN (Key(r) :> Append(Seen(r), <<r.op, r.out>>)) @@ hist ELSE hist
       /\ cnt' = IF r.e = "obj" /\ r.twin = 1
                 THEN (Key(r) :> (Count(r) + 1)) @@ cnt ELSE cnt
    /\ l' = l + 1

Finish == l = TraceLen + 1 /\ ReportDone(TraceLen) /\ l' = l + 1 /\ UNCHANGED <<static, hist, cnt>>
Next == StepRec \/ Finish
Spec == Init /\ [][Next]_vars
=============================================================================
