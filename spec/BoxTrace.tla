------------------------------ MODULE BoxTrace ------------------------------
(***************************************************************************)
(* Trace specification for Box.  Three kinds of recorded execution:        *)
(*  step / q   one transition or query from an explicitly assigned state   *)
(*             (every state x action x argument over the lattice);         *)
(*  hbegin / hstep   a history replayed on one real object without         *)
(*             re-assigning it: the specification threads its own state    *)
(*             (variable cur) through the same actions and compares;       *)
(*  xform      transform / affineTransform in their four overloads.        *)
(***************************************************************************)
EXTENDS Box, TraceIO
I == INSTANCE IEEE754
DY == INSTANCE Dyadic
BI == INSTANCE BigInt

VARIABLES l, cur
vars == <<l, cur>>
Rec == TraceLog[l]

B2(r) == MkBox(r.mn, r.mx)

ActionDef(b, r) ==
    CASE r.act = "makeEmpty" -> EmptyBox(Dim(b))
      [] r.act = "makeInfinite" -> InfBox(Dim(b))
      [] r.act = "ctor0" -> EmptyBox(Dim(b))
      [] r.act = "extendPt" -> ExtendPointDef(b, r.p)
      [] r.act = "extendBox" -> ExtendBoxDef(b, B2(r.c))
      [] r.act = "ctorPt" -> MkBox(r.p, r.p)
      [] r.act = "ctor2" -> B2(r.c)
      [] r.act = "assign" -> B2(r.c)

\* extendBy(box) is specified for arguments that are non-empty or the canonical
\* empty box; other inverted arguments are outside the property (skipped)
ArgInScope(b, r) == r.act # "extendBox" \/ ~IsEmptyDef(B2(r.c)) \/ B2(r.c) = EmptyBox(Dim(b))

ObsOK(r, b) ==
    /\ B2(r.post) = b
    /\ (r.emp = 1) = IsEmptyDef(b)
    /\ (r.vol = 1) = HasVolumeDef(b)
    /\ (r.inf = 1) = IsInfiniteDef(b)
    /\ (r.num = 1 => /\ r.size = SizeDef(b)
                     /\ (IsEmptyDef(b) \/ r.ctr = CenterDef(b))
                     /\ r.maj = MajorAxisDef(b))

StepOK(r) == ~ArgInScope(B2(r.pre), r) \/ ObsOK(r, ActionDef(B2(r.pre), r))

QueryOK(r) ==
    LET b == B2(r.box) IN
    CASE r.q = "inPt" -> (r.out = 1) = In(r.p, b)
      [] r.q = "inBox" -> /\ (r.out = 1) = IntersectsBoxDef(b, B2(r.c))
                          /\ r.rev = r.out                           \* symmetric
      [] r.q = "clip" -> IsEmptyDef(b) \/ (r.out = ClosestInDef(r.p, b) /\ r.cin = ClosestInDef(r.p, b))
      [] r.q = "con" -> ClosestOnRel(r.p, b, r.out)

\* ---- transforms ------------------------------------------------------------
Corners(b) == {<<x, y, z>> : x \in {b.mn[1], b.mx[1]}, y \in {b.mn[2], b.mx[2]}, z \in {b.mn[3], b.mx[3]}}
M(r, i, j) == r.m[(i - 1) * 4 + j]
\* image of corner p: numerator of coordinate j and the common denominator w
Num(r, p, j) == p[1] * M(r, 1, j) + p[2] * M(r, 2, j) + p[3] * M(r, 3, j) + M(r, 4, j)
Wt(r, p) == p[1] * M(r, 1, 4) + p[2] * M(r, 2, 4) + p[3] * M(r, 3, 4) + M(r, 4, 4)
\* exact tight bound: the corner minimising / maximising n/w (w > 0 for every corner)
IsMinCorner(r, c, j, S) == \A q \in S : Num(r, c, j) * Wt(r, q) <= Num(r, q, j) * Wt(r, c)
IsMaxCorner(r, c, j, S) == \A q \in S : Num(r, c, j) * Wt(r, q) >= Num(r, q, j) * Wt(r, c)
\* float result v equals n/w: exactly when w = 1, else within 4 ulp
ValOK(fmt, v, n, w) ==
    /\ I!IsFinite(fmt, v)
    /\ IF w = 1 THEN DY!DEq(I!Val(fmt, v), DY!DInt(n))
       ELSE DY!DCmpAbs(DY!DSub(DY!DMul(I!Val(fmt, v), DY!DInt(w)), DY!DInt(n)),
                       DY!DMul(DY!DInt(4 * w), I!Ulp(fmt, v))) <= 0

XformOK(r) ==
    LET b == B2(r.box)
        fmt == I!FmtOf(r.t)
        S == Corners(b)
    IN  CASE r.kind = "empty" -> r.remp = 1
          [] r.kind = "infinite" -> r.rinf = 1
          [] OTHER ->
             \* every corner has a homogeneous weight of the same sign (the image of the box is bounded); a point n / w with
             \* w < 0 is the point (-n) / (-w), so the comparisons are made on sign-normalised pairs
             LET sg == IF \A p \in S : Wt(r, p) > 0 THEN 1 ELSE -1
                 N2(c, j) == sg * Num(r, c, j)
                 W2(c) == sg * Wt(r, c)
                 isMin(c, j) == \A q \in S : N2(c, j) * W2(q) <= N2(q, j) * W2(c)
                 isMax(c, j) == \A q \in S : N2(c, j) * W2(q) >= N2(q, j) * W2(c)
             IN  /\ \A p \in S : W2(p) > 0
                 /\ \A j \in 1..3 :
                      /\ \E c \in S : isMin(c, j) /\ ValOK(fmt, I!Dec(r.t, r.rmn[j]), N2(c, j), W2(c))
                      /\ \E c \in S : isMax(c, j) /\ ValOK(fmt, I!Dec(r.t, r.rmx[j]), N2(c, j), W2(c))

\* ---- state machine ----------------------------------------------------------
Judge(r) ==
    CASE r.e = "step" -> StepOK(r)
      [] r.e = "q" -> QueryOK(r)
      [] r.e = "hbegin" -> ObsOK(r, EmptyBox(r.D))
      [] r.e = "hstep" -> ~ArgInScope(cur, r) \/ ObsOK(r, ActionDef(cur, r))
      [] r.e = "xform" -> XformOK(r)
      [] OTHER -> FALSE

What(r) == CASE r.e = "step" -> <<r.e, r.impl, r.T, r.act>>
             [] r.e = "hstep" -> <<r.e, r.impl, r.T, r.act>>
             [] r.e = "q" -> <<r.e, r.impl, r.T, r.q>>
             [] r.e = "xform" -> <<r.e, r.fn, r.form, r.kind>>
             [] OTHER -> <<r.e>>

Init == l = 1 /\ cur = EmptyBox(1)
StepRec ==
    /\ l <= TraceLen
    /\ LET r == Rec IN
       /\ IF Judge(r) THEN TRUE ELSE ReportBad(l, What(r))
       \* the real object is the source of truth for resynchronisation after a mismatch
       /\ cur' = IF r.e \in {"hbegin", "hstep"} THEN B2(r.post) ELSE cur
    /\ l' = l + 1
Finish == l = TraceLen + 1 /\ ReportDone(TraceLen) /\ l' = l + 1 /\ UNCHANGED cur
Next == StepRec \/ Finish
Spec == Init /\ [][Next]_vars
=============================================================================
