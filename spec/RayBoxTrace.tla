---------------------------- MODULE RayBoxTrace ----------------------------
(* Trace specification for RayBox: every recorded call of intersects(box,ray),
   intersects(box,ray,ip) and findEntryAndExitPoints is judged against the exact
   definition.  All inputs are decoded from raw float/double words. *)
EXTENDS RayBox, TraceIO
I == INSTANCE IEEE754
RI == INSTANCE RayBoxInt          \* the same definitions on native integers (lattice records)

VARIABLES l, skipped
vars == <<l, skipped>>
Rec == TraceLog[l]

Vals(t, ws) == [i \in 1..3 |-> I!Val(I!FmtOf(t), I!Dec(t, ws[i]))]
FiniteAll(t, ws) == \A i \in 1..3 : I!IsFinite(I!FmtOf(t), I!Dec(t, ws[i]))

\* Scope for extreme inputs.  A plane-crossing parameter whose magnitude is not
\* comfortably representable (>= max/4) belongs to an axis the code may legitimately
\* treat as parallel; this changes no decision as long as the parameter that *decides*
\* (first contact, entry, exit) is representable.  So: an exact miss must be a miss;
\* an exact hit must be a hit when its deciding parameter is below max/4; the
\* proximity clause additionally needs every product t*dir_i below max/4.
Limit(t) == D!Pow2(I!Emax(I!FmtOf(t)) - 2)
ParOK(t, c) == D!DCmpAbs(c[1], D!DMul(Limit(t), c[2])) < 0
\* Judged scope for extreme inputs: decisions that are STABLE.  A hit is required when the ray also hits the box shrunk by a
\* relative 2^-20 on every side (and the first-contact parameter is representable); a miss is required when it also misses
\* the box grown by the same amount.  In between - grazing a face, edge or corner within that margin, flat boxes - the exact
\* answer flips under a perturbation far below anything the inputs can express for directions with denormal or huge
\* components, and the code's answer is not judged (the integer-lattice records judge grazing contact exactly).
Margin(bx, pos, i) == D!DScale(D!DAdd(D!DOne, D!DAdd(D!DAbs(bx.mn[i]), D!DAdd(D!DAbs(bx.mx[i]), D!DAbs(pos[i])))), -20)
Resize(bx, pos, sgn) == [mn |-> [i \in Axes |-> IF sgn > 0 THEN D!DSub(bx.mn[i], Margin(bx, pos, i)) ELSE D!DAdd(bx.mn[i], Margin(bx, pos, i))],
                         mx |-> [i \in Axes |-> IF sgn > 0 THEN D!DAdd(bx.mx[i], Margin(bx, pos, i)) ELSE D!DSub(bx.mx[i], Margin(bx, pos, i))]]
ProdOK(t, c, dir) == \A i \in Axes : D!DCmpAbs(D!DMul(c[1], dir[i]), D!DMul(Limit(t), c[2])) < 0

UBits(t) == I!FmtOf(t).p - 1
PointOK(t, bx, pos, dir, par, q, originInside) ==
    /\ InBox(bx, q)
    /\ IF originInside THEN \A i \in Axes : D!DEq(q[i], pos[i])
       ELSE OnSurface(bx, q) /\ (ProdOK(t, par, dir) => NearPoint(pos, dir, par, q, UBits(t), 16, I!Val(I!FmtOf(t), I!MinSub(I!FmtOf(t)))))

\* integer-lattice records carry the coordinates as plain integers as well; they must
\* denote the same values as the float words, and are then judged with RayBoxInt
SameInts(t, ws, ks) == \A i \in 1..3 : D!DEq(I!Val(I!FmtOf(t), I!Dec(t, ws[i])), D!DInt(ks[i]))
IntsOK(r) == /\ SameInts(r.t, r.mn, r.I.mn) /\ SameInts(r.t, r.mx, r.I.mx)
             /\ SameInts(r.t, r.pos, r.I.pos) /\ SameInts(r.t, r.dir, r.I.dir)
DT(t) == <<D!DInt(t[1]), D!DInt(t[2])>>
DV3(v) == <<D!DInt(v[1]), D!DInt(v[2]), D!DInt(v[3])>>

RayCtxInt(r) ==
    LET bi == [mn |-> r.I.mn, mx |-> r.I.mx]
        hit == RI!Hit(bi, r.I.pos, r.I.dir)
        lhit == RI!LineHit(bi, r.I.pos, r.I.dir)
        none == <<0, 1>>
    IN  [hit |-> hit, lhit |-> lhit,
         fc |-> IF hit THEN DT(RI!FirstContact(bi, r.I.pos, r.I.dir)) ELSE DT(none),
         en |-> IF lhit THEN DT(RI!Entry(bi, r.I.pos, r.I.dir)) ELSE DT(none),
         ex |-> IF lhit THEN DT(RI!Exit(bi, r.I.pos, r.I.dir)) ELSE DT(none),
         inside |-> RI!OriginInside(bi, r.I.pos, r.I.dir),
         bx |-> [mn |-> DV3(r.I.mn), mx |-> DV3(r.I.mx)], pos |-> DV3(r.I.pos), dir |-> DV3(r.I.dir)]
RayOKInt(r) == \E c \in {RayCtxInt(r)} :
        /\ IntsOK(r)
        /\ (r.hit = 1) = c.hit
        /\ (r.hit3 = 1) = c.hit
        /\ (r.ee = 1) = c.lhit
        /\ (c.hit /\ r.hit3 = 1 =>
              /\ FiniteAll(r.t, r.ip)
              /\ PointOK(r.t, c.bx, c.pos, c.dir, c.fc, Vals(r.t, r.ip), c.inside))
        /\ (c.lhit /\ r.ee = 1 =>
              /\ FiniteAll(r.t, r.entry) /\ FiniteAll(r.t, r.exit)
              /\ PointOK(r.t, c.bx, c.pos, c.dir, c.en, Vals(r.t, r.entry), FALSE)
              /\ PointOK(r.t, c.bx, c.pos, c.dir, c.ex, Vals(r.t, r.exit), FALSE))

\* everything derived from one float record, evaluated once (TLC re-evaluates LET definitions at every reference)
RayCtx(r) ==
    LET bx == [mn |-> Vals(r.t, r.mn), mx |-> Vals(r.t, r.mx)]
        pos == Vals(r.t, r.pos)
        dir == Vals(r.t, r.dir)
        inner == Resize(bx, pos, -1)
        outer == Resize(bx, pos, 1)
        hit == Hit(bx, pos, dir)
        lhit == LineHit(bx, pos, dir)
        none == <<D!DZero, D!DOne>>
    IN  [bx |-> bx, pos |-> pos, dir |-> dir, hit |-> hit, lhit |-> lhit, empty |-> IsEmpty(bx),
         hitIn |-> hit /\ Hit(inner, pos, dir), hitOut |-> Hit(outer, pos, dir),
         lhitIn |-> lhit /\ LineHit(inner, pos, dir), lhitOut |-> LineHit(outer, pos, dir),
         fc |-> IF hit THEN FirstContact(bx, pos, dir) ELSE none,
         en |-> IF lhit THEN Entry(bx, pos, dir) ELSE none,
         ex |-> IF lhit THEN Exit(bx, pos, dir) ELSE none,
         inside |-> OriginInside(bx, pos, dir)]
RayOKc(r, c) ==
    LET hitScoped == c.hitIn /\ ParOK(r.t, c.fc)
        lhitScoped == c.lhitIn /\ ParOK(r.t, c.en) /\ ParOK(r.t, c.ex)
    IN  /\ (c.empty => r.hit = 0 /\ r.hit3 = 0 /\ r.ee = 0)      \* emptiness is an exact comparison of the given corners: no margin applies
        /\ (~c.hitOut => r.hit = 0 /\ r.hit3 = 0)
        /\ (hitScoped => r.hit = 1 /\ r.hit3 = 1)
        /\ (~c.lhitOut => r.ee = 0)
        /\ (lhitScoped => r.ee = 1)
        /\ (hitScoped /\ r.hit3 = 1 =>
              /\ FiniteAll(r.t, r.ip)
              /\ PointOK(r.t, c.bx, c.pos, c.dir, c.fc, Vals(r.t, r.ip), c.inside))
        /\ (lhitScoped /\ r.ee = 1 =>
              /\ FiniteAll(r.t, r.entry) /\ FiniteAll(r.t, r.exit)
              /\ PointOK(r.t, c.bx, c.pos, c.dir, c.en, Vals(r.t, r.entry), FALSE)
              /\ PointOK(r.t, c.bx, c.pos, c.dir, c.ex, Vals(r.t, r.exit), FALSE))
\* a record is counted as skipped when an exact hit could not be judged
Unjudgedc(r, c) == (c.hitOut /\ ~c.hitIn) \/ (c.hit /\ ~ParOK(r.t, c.fc))

Init == l = 1 /\ skipped = 0
StepRec ==
    /\ l <= TraceLen
    /\ LET r == Rec
       IN  IF Has(r, "I")
           THEN /\ (IF RayOKInt(r) THEN TRUE ELSE ReportBad(l, <<r.e, r.fam, r.t>>))
                /\ skipped' = skipped
           ELSE \E c \in {RayCtx(r)} :
                /\ (IF RayOKc(r, c) THEN TRUE ELSE ReportBad(l, <<r.e, r.fam, r.t>>))
                /\ skipped' = IF Unjudgedc(r, c) THEN skipped + 1 ELSE skipped
    /\ l' = l + 1
Finish == /\ l = TraceLen + 1 /\ ReportDone(TraceLen) /\ PrintT(<<"INFO", "skipped", skipped>>)
          /\ l' = l + 1 /\ UNCHANGED skipped
Next == StepRec \/ Finish
Spec == Init /\ [][Next]_vars
=============================================================================
