------------------------------- MODULE Rand48 -------------------------------
(***************************************************************************)
(* The rand48 family and the Rand32/Rand48 generator classes (C18).        *)
(*                                                                         *)
(* A 48-bit generator state is a triple <<s2, s1, s0>> of 16-bit words     *)
(* (most significant first, i.e. state[2], state[1], state[0] of the       *)
(* caller-visible array).  Definition layer (POSIX):                       *)
(*     X' = (0x5DEECE66D * X + 0xB) mod 2^48          (Step, via BigInt)   *)
(*     nrand48 = X' >> 17        erand48 in [0,1), |d - X'/2^48| < 2^-48   *)
(*     srand48(seed): X = (low 32 bits of seed) * 2^16 + 0x330E            *)
(* Implementation-shaped layer: StepLimbs (the same product written out on *)
(* four 12-bit limbs in native integers) and ErandBits (the code's mantissa*)
(* packing, top nibble replicated).  MCRand48 checks refinement.           *)
(***************************************************************************)
EXTENDS Integers, Sequences, TLC
B == INSTANCE BigInt
D == INSTANCE Dyadic
I == INSTANCE IEEE754

Word == 0..65535
A_ == B!Mk(1, <<1645, 3790, 1502>>)      \* 0x5DEECE66D = 0x5DE 0xECE 0x66D
C_ == B!FromInt(11)

\* words <-> 48-bit value (four 12-bit limbs, little endian)
ToLimbs(s) == <<s[3] % 4096,
                s[3] \div 4096 + (s[2] % 256) * 16,
                s[2] \div 256 + (s[1] % 16) * 256,
                s[1] \div 16>>
Pad4(m) == [i \in 1..4 |-> IF i <= Len(m) THEN m[i] ELSE 0]
FromLimbs(l) == <<l[4] * 16 + l[3] \div 256,
                  (l[3] % 256) * 256 + l[2] \div 16,
                  (l[2] % 16) * 4096 + l[1]>>
ValOf(s) == B!Mk(1, B!TrimM(ToLimbs(s)))

\* definition: multiply, add, keep the low 48 bits (= four limbs)
Step(s) ==
    LET y == B!Add(B!Mul(A_, ValOf(s)), C_)
    IN  FromLimbs(Pad4(SubSeq(y.m, 1, IF Len(y.m) < 4 THEN Len(y.m) ELSE 4)))

\* implementation-shaped: the same product on native integers, limb by limb
StepLimbs(s) ==
    LET x == ToLimbs(s)
        a == <<1645, 3790, 1502>>
        c1 == a[1] * x[1] + 11
        c2 == a[1] * x[2] + a[2] * x[1] + c1 \div 4096
        c3 == a[1] * x[3] + a[2] * x[2] + a[3] * x[1] + c2 \div 4096
        c4 == a[1] * x[4] + a[2] * x[3] + a[3] * x[2] + c3 \div 4096
    IN  FromLimbs(<<c1 % 4096, c2 % 4096, c3 % 4096, c4 % 4096>>)

\* 31-bit output: X >> 17  =  s2 * 2^15 + s1 >> 1
Nrand(s) == s[1] * 32768 + s[2] \div 2

\* erand48 as a relation between the *new* state and a decoded binary64 d
ErandRel(s, d) ==
    LET v == I!Val(I!Fmt64, d)
        x == D!Dy(ValOf(s), -48)                      \* X / 2^48
    IN  /\ I!IsFinite(I!Fmt64, d)
        /\ (d.sign = 0 \/ I!IsZero(I!Fmt64, d))
        /\ D!DLt(v, D!DOne)
        /\ D!DCmpAbs(D!DSub(v, x), D!Pow2(-48)) < 0

\* the code's packing: 1.0 <= u < 2 with mantissa X*16 + (X >> 44), minus 1
ErandBits(s) == D!DSub(D!Dy(B!Add(B!ShiftL(B!FromInt(1), 52),
                                  B!Add(B!ShiftL(ValOf(s), 4), B!FromInt(s[1] \div 4096))), -52),
                       D!DOne)

SeedState(ws) == <<ws[3], ws[4], 13070>>       \* 0x330E; ws = 64-bit seed, 4 words

\* range clause of nextf(a, b): closed interval between a and b, one rounding
InRange1(fmt, a, b, r) ==
    LET lo == IF D!DLe(I!Val(fmt, a), I!Val(fmt, b)) THEN a ELSE b
        hi == IF D!DLe(I!Val(fmt, a), I!Val(fmt, b)) THEN b ELSE a
    IN  /\ I!IsFinite(fmt, r)
        /\ D!DLe(I!Val(fmt, I!Pred(fmt, lo)), I!Val(fmt, r))
        /\ D!DLe(I!Val(fmt, r), I!Val(fmt, I!Succ(fmt, hi)))

\* sum of squares of a logged vector (exact)
SumSq(fmt, ws) == D!DSum([i \in 1..Len(ws) |-> D!DSq(I!Val(fmt, ws[i]))])
AllFinite(fmt, ws) == \A i \in 1..Len(ws) : I!IsFinite(fmt, ws[i])
Eps(fmt, k) == D!Dy(B!FromInt(k), -(fmt.p - 1))       \* k units of machine epsilon
=============================================================================
