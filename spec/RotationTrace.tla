---------------------------- MODULE RotationTrace ----------------------------
(* Trace specification for C10; one record kind per group of relations. *)
EXTENDS Rotation, TraceIO
VARIABLE l
Rec == TraceLog[l]
E64(t) == D!DMul(D!DInt(64), Eps(t))
E16(t) == D!DMul(D!DInt(16), Eps(t))
M3(t, ws) == Mat(t, ws, 3, 3)
Upper3(t, ws) == [i \in 1..3 |-> [j \in 1..3 |-> Num(t, ws[(i - 1) * 4 + j])]]
NearMat(A, Bm, tol) == \A i \in 1..3, j \in 1..3 : D!DWithin(A[i][j], Bm[i][j], tol)
Affine44(t, ws) == /\ \A i \in 1..3 : D!DIsZero(Num(t, ws[(i - 1) * 4 + 4])) /\ D!DIsZero(Num(t, ws[12 + i]))
                   /\ D!DEq(Num(t, ws[16]), D!DOne)

RotOK(r) ==
    LET t == r.t  q == Nums(t, r.q)  v == Nums(t, r.v)
        A == QM(q)
        e == VM(v, A)
        tv == D!DMul(E64(t), D!DMax(MaxAbs3(v), D!DOne))
        one == <<D!DOne, D!DZero, D!DZero, D!DZero>>
    IN  /\ UnitQ(q, E16(t))
        /\ NearVec(Nums(t, r.rotv), e, tv) /\ NearVec(Nums(t, r.vq), e, tv)          \* rotateVector, v*q
        /\ NearVec(Nums(t, r.vm33), e, tv) /\ NearVec(Nums(t, r.vm44), e, tv)        \* v * toMatrix33/44
        /\ NearMat(M3(t, r.m33), A, E16(t)) /\ NearMat(Upper3(t, r.m44), A, E16(t)) /\ Affine44(t, r.m44)
        /\ \A i \in 1..3, j \in 1..3 : r.m33[(i - 1) * 3 + j] = r.m44[(i - 1) * 4 + j]  \* same rotation, same bits
        /\ NearVec(Nums(t, r.qinv), one, E64(t))                                     \* q * inverse(q) = 1
        /\ r.invert = r.inv /\ r.invself = 1                                          \* invert() is inverse() in place, returning *this
        /\ r.conj[1] = r.q[1] /\ \A i \in 2..4 : Num(t, r.conj[i]) = D!DNeg(q[i]) \/ D!DEq(Num(t, r.conj[i]), D!DNeg(q[i]))
        /\ (D!DLt(D!Dy(B!FromInt(-63), -6), q[1]) => NearVec(Nums(t, r.explog), q, E64(t)))   \* exp(log q) = q unless r near -1
        /\ NearUpToSign(Nums(t, r.axisangle), q, E64(t))
        /\ NearUpToSign(Nums(t, r.extract), q, E64(t))

QmulOK(r) == LET t == r.t IN
    /\ NearMat(M3(t, r.mqp), MM(QM(Nums(t, r.p)), QM(Nums(t, r.q))), E64(t))
    /\ NearMat(M3(t, r.mqp), MM(M3(t, r.mp), M3(t, r.mq)), E64(t))

AxangOK(r) == LET t == r.t  R == Upper3(t, r.m) IN
    /\ NearMat(Upper3(t, r.mq), R, E64(t))
    /\ UnitQ(Nums(t, r.q), E16(t))
    /\ Orthonormal(R, E64(t)) /\ RightHanded(R, E64(t))
    /\ SameDir(VM(Nums(t, r.axis), R), Nums(t, r.axis), D!DSq(E64(t)))                   \* the axis is fixed

\* sin^2 of the angle between w and b, times |w|^2 |b|^2
Sin2(w, b) == Norm2(CrossV(w, b))
SetrotOK(r) ==
    LET t == r.t  f == Nums(t, r.from)  to == Nums(t, r.to)  q == Nums(t, r.q)
        w == VM(f, QM(q))
        c == D!DDot(f, to)
        ft2 == D!DMul(Norm2(f), Norm2(to))
        x2 == Sin2(f, to)                            \* |f x t|^2
        lhs == Sin2(w, to)                           \* sin^2(err) |w|^2 |t|^2
        wt2 == D!DMul(Norm2(w), Norm2(to))
        k2 == D!DMul(D!DInt(512), D!DSq(Eps(t)))     \* 2 K^2 eps^2 with K = 16
        opposite == D!DSign(c) < 0 /\ D!DLe(x2, D!DMul(D!DSq(E64(t)), ft2))
    IN  /\ UnitQ(q, E64(t))
        /\ NearMat(Upper3(t, r.m), QM(q), E16(t)) /\ Affine44(t, r.m)                  \* rotationMatrix(from,to) is the same rotation
        /\ D!DSign(D!DDot(w, to)) > 0
        /\ IF D!DSign(c) >= 0 \/ opposite THEN D!DLe(lhs, D!DMul(D!DSq(D!DMul(D!DInt(4), E64(t))), wt2))
           ELSE \* accuracy degrades like eps / |f0 + t0| as the vectors approach opposite directions
                D!DLe(D!DMul(lhs, x2), D!DMul(D!DMul(k2, wt2), D!DAdd(x2, ft2)))

SlerpOK(r) ==
    LET t == r.t  a == Nums(t, r.a)  b == Nums(t, r.b)
        S == [i \in 1..Len(r.s) |-> Nums(t, r.s[i])]
        SS == [i \in 1..Len(r.ssa) |-> Nums(t, r.ssa[i])]
        ts == Nums(t, r.ts)
        dab == Dot4(a, b)
        tame == D!DLt(D!Dy(B!FromInt(-63), -6), dab)                 \* the 4-D angle is not close to pi
        dd(i, j) == Dot4(S[i], S[j])
        \* equally spaced parameters (0.1 .. 1.5, and -0.3, -0.1, 0.1): equal 4-D angle steps
        pairs == <<dd(7, 8), dd(8, 9), dd(9, 10), dd(10, 11), dd(11, 12), dd(12, 13), dd(13, 14), dd(15, 7), dd(16, 15)>>
    IN  /\ \A i \in 1..Len(S) : tame => UnitQ(S[i], E16(t))
        /\ (tame => NearVec(S[1], a, E16(t)) /\ NearVec(S[2], b, E16(t)))         \* endpoints at t = 0, 1
        /\ (tame => NearVec(S[4], Nums(t, r.quarter2), E64(t)))                      \* slerp(a,b,1/4) = slerp(a, slerp(a,b,1/2), 1/2)
        /\ (tame => \A i \in 1..Len(pairs), j \in 1..Len(pairs) : D!DWithin(pairs[i], pairs[j], E64(t)))
        \* shortest arc: the same as slerp when a.b is clearly positive; never the long way round
        /\ (D!DLt(D!Pow2(-10), dab) => r.ssa = r.s)
        /\ \A i \in 1..Len(SS) : UnitQ(SS[i], E16(t))
        /\ \A i \in 1..Len(SS) : (D!DSign(ts[i]) >= 0 /\ D!DLe(ts[i], D!DOne)) => D!DLe(D!DNeg(E64(t)), Dot4(SS[i], a))
        /\ NearVec(SS[1], a, E16(t)) /\ NearUpToSign(SS[2], b, E16(t))
        \* euclideanInnerProduct is the 4-D dot product (symmetric); angle4D is the angle between a and b as 4-D unit vectors:
        \* in [0, pi], with cosine a.b
        /\ D!DWithin(Num(t, r.eip), dab, E16(t)) /\ r.eipba = r.eip
        /\ D!DSign(Num(t, r.a4d)) >= 0 /\ D!DLe(D!DNeg(E64(t)), Num(t, r.s4d))       \* (the float nearest pi is above pi)
        /\ D!DWithin(Num(t, r.c4d), dab, E64(t))

SplineOK(r) ==
    LET t == r.t  q1 == Nums(t, r.q1)  q2 == Nums(t, r.q2)
        keys == <<Nums(t, r.q0), q1, q2, Nums(t, r.q3), Nums(t, r.q4)>>
        \* successive keys less than 60 degrees (4-D) apart
        tameKeys == \A i \in 1..4 : D!DLt(D!Dy(B!FromInt(1), -1), Dot4(keys[i], keys[i + 1]))
        h == Num(t, r.h)
        left == Nums(t, r.left)  right == Nums(t, r.right)  e1 == Nums(t, r.spline1)  n0 == Nums(t, r.next0)
        dl == [i \in 1..4 |-> D!DSub(e1[i], left[i])]          \* h * one-sided derivatives
        dr == [i \in 1..4 |-> D!DSub(right[i], n0[i])]
        diff == [i \in 1..4 |-> D!DSub(dl[i], dr[i])]
    IN  /\ NearVec(Nums(t, r.squad0), q1, E64(t)) /\ NearVec(Nums(t, r.squad1), q2, E64(t))
        /\ NearVec(Nums(t, r.spline0), q1, E64(t)) /\ NearVec(e1, q2, E64(t))
        /\ NearVec(n0, q2, E64(t))                                                   \* consecutive segments join
        \* continuous tangent (double precision, tame keys): the one-sided difference quotients over h agree
        \* to 2^-4 relative plus the O(h) truncation error of a difference quotient:  |dl - dr| <= |dl| / 16 + 8 h^2
        /\ (t = "d" /\ tameKeys => D!DLe(Dot4(diff, diff), D!DAdd(D!DScale(Dot4(dl, dl), -8), D!DSq(D!DMul(D!DInt(8), D!DSq(h))))))

Judge(r) == CASE r.e = "rot" -> RotOK(r) [] r.e = "qmul" -> QmulOK(r) [] r.e = "axang" -> AxangOK(r)
              [] r.e = "setrot" -> SetrotOK(r) [] r.e = "slerp" -> SlerpOK(r) [] r.e = "spline" -> SplineOK(r) [] OTHER -> FALSE
Init == l = 1
Next == \/ /\ l <= TraceLen
           /\ IF Judge(Rec) THEN TRUE ELSE ReportBad(l, <<Rec.e, Rec.t>>)
           /\ l' = l + 1
        \/ l = TraceLen + 1 /\ ReportDone(TraceLen) /\ l' = l + 1
=============================================================================
