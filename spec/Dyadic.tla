------------------------------- MODULE Dyadic -------------------------------
(***************************************************************************)
(* Exact dyadic rationals  m * 2^e  (m a BigInt, e a TLC integer) and      *)
(* exact rationals  n / d  (n, d dyadic, d > 0).  Every finite IEEE value  *)
(* is a dyadic; sums and products of dyadics are dyadics; quotients are    *)
(* rationals compared by cross-multiplication.  Nothing here rounds.       *)
(***************************************************************************)
EXTENDS Integers, Sequences
B == INSTANCE BigInt

Dy(m, e) == [m |-> m, e |-> e]
DZero == Dy(B!Zero, 0)
DOne  == Dy(B!FromInt(1), 0)
DInt(n) == Dy(B!FromInt(n), 0)
Pow2(k) == Dy(B!FromInt(1), k)              \* 2^k, any integer k

DSign(a) == a.m.s
DIsZero(a) == a.m.s = 0
DNeg(a) == Dy(B!Neg(a.m), a.e)
DAbs(a) == Dy(B!Abs(a.m), a.e)
DScale(a, k) == IF a.m.s = 0 THEN a ELSE Dy(a.m, a.e + k)   \* a * 2^k
DMul(a, b) == IF a.m.s = 0 \/ b.m.s = 0 THEN DZero ELSE Dy(B!Mul(a.m, b.m), a.e + b.e)
DSq(a) == DMul(a, a)

\* position of the leading bit: |a| in [2^Top, 2^(Top+1))
DTop(a) == B!BitLen(a.m) + a.e - 1

DAdd(a, b) ==
    IF a.m.s = 0 THEN b
    ELSE IF b.m.s = 0 THEN a
    ELSE IF a.e = b.e THEN Dy(B!Add(a.m, b.m), a.e)
    ELSE IF a.e < b.e THEN Dy(B!Add(a.m, B!ShiftL(b.m, b.e - a.e)), a.e)
    ELSE Dy(B!Add(B!ShiftL(a.m, a.e - b.e), b.m), b.e)

DSub(a, b) == DAdd(a, DNeg(b))

\* comparison of magnitudes, looking at leading-bit positions first so that
\* values of very different size are never aligned
DCmpAbs(a, b) ==
    IF a.m.s = 0 THEN (IF b.m.s = 0 THEN 0 ELSE -1)
    ELSE IF b.m.s = 0 THEN 1
    ELSE LET ta == DTop(a)  tb == DTop(b)
         IN  IF ta < tb THEN -1 ELSE IF ta > tb THEN 1
             ELSE IF a.e = b.e THEN B!CmpM(a.m.m, b.m.m)
             ELSE IF a.e < b.e THEN B!CmpM(a.m.m, B!ShiftLM(b.m.m, b.e - a.e))
             ELSE B!CmpM(B!ShiftLM(a.m.m, a.e - b.e), b.m.m)

DCmp(a, b) ==
    IF a.m.s # b.m.s THEN (IF a.m.s < b.m.s THEN -1 ELSE 1)
    ELSE IF a.m.s = 0 THEN 0
    ELSE a.m.s * DCmpAbs(a, b)

DLt(a, b) == DCmp(a, b) < 0
DLe(a, b) == DCmp(a, b) <= 0
DEq(a, b) == DCmp(a, b) = 0
DMax(a, b) == IF DCmp(a, b) >= 0 THEN a ELSE b
DMin(a, b) == IF DCmp(a, b) <= 0 THEN a ELSE b

\* |a - b| <= t
DWithin(a, b, t) == DCmpAbs(DSub(a, b), t) <= 0

\* sums over sequences of dyadics
RECURSIVE DSumR(_, _, _)
DSumR(s, i, acc) == IF i > Len(s) THEN acc ELSE DSumR(s, i + 1, DAdd(acc, s[i]))
DSum(s) == DSumR(s, 1, DZero)
DSumAbs(s) == DSum([i \in 1..Len(s) |-> DAbs(s[i])])
DDot(x, y) == DSum([i \in 1..Len(x) |-> DMul(x[i], y[i])])
DDotAbs(x, y) == DSum([i \in 1..Len(x) |-> DAbs(DMul(x[i], y[i]))])

\* canonical form: odd mantissa (or zero); makes structural equality = value equality
RECURSIVE TzM(_, _)
TzM(m, i) == IF m[i] = 0 THEN 12 + TzM(m, i + 1) ELSE B!LimbTz(m[i])
\* (only used for reporting; comparisons use DCmp)

----------------------------------------------------------------------------
\* rationals n/d with d > 0

Rat(n, d) == [n |-> n, d |-> d]
RFromD(a) == Rat(a, DOne)
RZero == RFromD(DZero)
RSign(x) == DSign(x.n)
RNeg(x) == Rat(DNeg(x.n), x.d)
RAbs(x) == Rat(DAbs(x.n), x.d)
RAdd(x, y) == IF x.d = y.d THEN Rat(DAdd(x.n, y.n), x.d)
              ELSE Rat(DAdd(DMul(x.n, y.d), DMul(y.n, x.d)), DMul(x.d, y.d))
RSub(x, y) == RAdd(x, RNeg(y))
RMul(x, y) == Rat(DMul(x.n, y.n), DMul(x.d, y.d))
\* x / y, y # 0
RDiv(x, y) == IF DSign(y.n) > 0 THEN Rat(DMul(x.n, y.d), DMul(x.d, y.n))
              ELSE Rat(DNeg(DMul(x.n, y.d)), DNeg(DMul(x.d, y.n)))
RDivD(a, b) == RDiv(RFromD(a), RFromD(b))        \* a/b for dyadics, b # 0
RCmp(x, y) == DCmp(DMul(x.n, y.d), DMul(y.n, x.d))
RCmpD(x, a) == DCmp(x.n, DMul(a, x.d))            \* compare rational with dyadic
RLe(x, y) == RCmp(x, y) <= 0
RLt(x, y) == RCmp(x, y) < 0
REq(x, y) == RCmp(x, y) = 0
RMax(x, y) == IF RCmp(x, y) >= 0 THEN x ELSE y
RMin(x, y) == IF RCmp(x, y) <= 0 THEN x ELSE y
\* |x - a| <= t  for rational x, dyadic a, dyadic t >= 0
RWithinD(x, a, t) == DCmpAbs(DSub(x.n, DMul(a, x.d)), DMul(t, x.d)) <= 0

=============================================================================
