------------------------------ MODULE MCFrustum ------------------------------
(* Bounded model of the Frustum state machine on integer lattices (exact), the theorems of
   FrustumCore as invariants of every reachable state, and the generator of operation
   sequences replayed on Frustum<float> / Frustum<double> of the real library.
   Operations: set (all seven fields), setOrthographic, modifyNearAndFar, window (a new
   frustum replaces the current one).  Screen coordinates of window() are halves, k/2. *)
EXTENDS FrustumInt, Json, Randomization
CONSTANTS MaxDepth
VARIABLES F, hist, depth, prev

Nears == {1, 2, 4}
Fars == {2, 4, 8, 16}
Coords == -4..4
Sets == {[op |-> "set", a |-> <<n, f, l, r, t, b, o>>] : n \in Nears, f \in Fars, l \in {-4, -2, -1, 0}, r \in {1, 2, 4}, t \in {1, 2, 3}, b \in {-4, -1, 0}, o \in {0, 1}}
Starts == {Fr(0, 4, -2, 2, 1, -1, TRUE), Fr(-2, 2, -1, 1, 2, 0, TRUE), Fr(1, 4, -2, 2, 1, -1, FALSE), Fr(2, 8, -4, 0, 4, 0, FALSE), Fr(1, 2, -1, 3, 2, -2, TRUE), Fr(4, 16, 0, 4, 4, -4, TRUE)}
Halves == -2..2                                                \* screen coordinate k/2
Ops(G) == RandomSubset(3, {x \in Sets : x.a[1] < x.a[2]})
          \cup {[op |-> "ortho", a |-> <<o>>] : o \in {0, 1}}
          \cup {[op |-> "modnf", a |-> nf] : nf \in {x \in Nears \X Fars : x[2] > x[1]}}
          \cup {[op |-> "window", a |-> <<wl, wr, wt, wb>>] : wl \in {-2, -1, 0}, wr \in {1, 2}, wt \in {1, 2}, wb \in {-2, 0}}
Divides(d, x) == x % d = 0
Apply(G, o) ==          \* the set of successor frusta (empty when the lattice cannot represent the result)
    CASE o.op = "set" -> {Fr(o.a[1], o.a[2], o.a[3], o.a[4], o.a[5], o.a[6], o.a[7] = 1)}
      [] o.op = "ortho" -> IF o.a[1] = 0 /\ G.n <= 0 THEN {} ELSE {SetOrtho(G, o.a[1] = 1)}
      [] o.op = "modnf" ->
           IF G.o THEN {[G EXCEPT !.n = o.a[1], !.f = o.a[2]]}          \* (new near values are positive)
           ELSE IF \A x \in {G.l, G.r, G.t, G.b} : Divides(G.n, x * o.a[1])
                THEN {Fr(o.a[1], o.a[2], (G.l * o.a[1]) \div G.n, (G.r * o.a[1]) \div G.n, (G.t * o.a[1]) \div G.n, (G.b * o.a[1]) \div G.n, FALSE)}
                ELSE {}
      [] o.op = "window" ->
           LET lx(k) == 4 * G.l + (G.r - G.l) * (2 + k)          \* 4 * screenToLocal(k/2)
               ly(k) == 4 * G.b + (G.t - G.b) * (2 + k)
           IN  IF (\A k \in {o.a[1], o.a[2]} : Divides(4, lx(k))) /\ (\A k2 \in {o.a[3], o.a[4]} : Divides(4, ly(k2)))
               THEN {Fr(G.n, G.f, lx(o.a[1]) \div 4, lx(o.a[2]) \div 4, ly(o.a[3]) \div 4, ly(o.a[4]) \div 4, G.o)}
               ELSE {}
Flat(G) == <<G.n, G.f, G.l, G.r, G.t, G.b, IF G.o THEN 1 ELSE 0>>
Init == F \in Starts /\ hist = <<[op |-> "start", a |-> Flat(F)]>> /\ depth = 0 /\ prev = F
Next == /\ depth < MaxDepth
        /\ \E o \in Ops(F) : \E G \in Apply(F, o) :
              /\ F' = G
              /\ hist' = Append(hist, [op |-> o.op, a |-> [i \in 1..Len(o.a) |-> o.a[i]]])
        /\ depth' = depth + 1 /\ prev' = F

\* --- invariants: the transition relations and theorems of FrustumCore ------------------------------
Last == hist[Len(hist)]
StaysWellFormed == WellFormed(F)
StepRelations ==
    depth > 0 =>
      CASE Last.op = "modnf" -> ModifyRel(prev, Last.a[1], Last.a[2], F)
        [] Last.op = "window" -> \* screen coordinates are k/2: WindowRel with doubled arguments
                                 /\ 4 * F.l = 4 * prev.l + (prev.r - prev.l) * (2 + Last.a[1]) /\ 4 * F.r = 4 * prev.l + (prev.r - prev.l) * (2 + Last.a[2])
                                 /\ 4 * F.t = 4 * prev.b + (prev.t - prev.b) * (2 + Last.a[3]) /\ 4 * F.b = 4 * prev.b + (prev.t - prev.b) * (2 + Last.a[4])
                                 \* a window inside the screen stays inside the old window
                                 /\ prev.l <= F.l /\ F.r <= prev.r /\ prev.b <= F.b /\ F.t <= prev.t
        [] Last.op = "ortho" -> F = [prev EXCEPT !.o = (Last.a[1] = 1)]
        [] OTHER -> TRUE
\* modifyNearAndFar keeps the field of view (slopes) of a perspective frustum and the aspect ratio of any
KeepsView == (depth > 0 /\ Last.op = "modnf") =>
                /\ (F.r - F.l) * (prev.t - prev.b) = (prev.r - prev.l) * (F.t - F.b)
                /\ ~F.o => F.r * prev.n = prev.r * F.n /\ F.t * prev.n = prev.t * F.n
ProjectionTheorems == /\ CornersToCube(F)
                      /\ \A p \in {<<1, 2, -3, 1>>, <<-2, 1, -5, 2>>, <<0, 0, -1, 1>>} : EntriesMatchClip(F, p)
DepthTheorems == \A zp \in {-1, 0, 1} : AlgoDepthOK(F, zp) /\
                   (zp = -1 => DepthRel(F, zp, -F.n)) /\ (zp = 1 => DepthRel(F, zp, -F.f))
PlaneTheorems == PlanesBoundFrustum(F)
\* localToScreen inverts screenToLocal:  with p = screenToLocal(k/2),  (l - 2p + r) / (l - r) = k/2
ScreenRoundTrip == \A k \in Halves :
    /\ LET p4 == 4 * F.l + (F.r - F.l) * (2 + k) IN 2 * (2 * F.l - p4 + 2 * F.r) = k * 2 * (F.l - F.r)
    /\ LET p4 == 4 * F.b + (F.t - F.b) * (2 + k) IN 2 * (2 * F.b - p4 + 2 * F.t) = k * 2 * (F.b - F.t)
CullingTheorems == \A pl \in {Planes(F)[k] : k \in 1..6} :
    \A bx \in {<< <<-1, -1, -3>>, <<1, 1, -2>> >>, << <<0, 0, -20>>, <<3, 5, -1>> >>, << <<-6, 2, -2>>, <<-5, 3, -1>> >>, << <<-1, -1, 1>>, <<1, 1, 2>> >>} :
        BoxTestExact(pl, bx[1], bx[2])
Export == depth = MaxDepth => PrintT("BEHAVIOUR " \o ToJson(hist))
=============================================================================
