CONSTANTS MaxDepth = 3
INIT Init
NEXT Next
INVARIANT StaysWellFormed
INVARIANT StepRelations
INVARIANT KeepsView
INVARIANT ProjectionTheorems
INVARIANT DepthTheorems
INVARIANT PlaneTheorems
INVARIANT ScreenRoundTrip
INVARIANT CullingTheorems
CHECK_DEADLOCK FALSE
