CONSTANTS D = 2 Coords <- CoordsB MaxDepth = 5
INIT GInit
NEXT GNext
INVARIANT Export
INVARIANT Minimal
CHECK_DEADLOCK FALSE
