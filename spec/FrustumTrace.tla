----------------------------- MODULE FrustumTrace -----------------------------
(* Trace specification for C16.
   step     one operation of the Frustum state machine (set, ortho, modnf, window), random or from a
            TLC-generated sequence (then chained: a step starts in the state the previous one ended in)
   proj     projectionMatrix entries, fovx/fovy/aspect, degenerate(), planes()
   pt       projectPointToScreen / projectScreenToRay / screenToLocal / localToScreen / screenRadius / worldRadius
   depth    normalizedZToDepth / DepthToZ / ZToDepth
   setfov   set(near, far, fovx, fovy, aspect)
   planesM  planes(p, M) against the images of the frustum's corners, and against planes(p)[k] * M
   cull     FrustumTest::isVisible / completelyContains for points, boxes and spheres *)
EXTENDS Frustum, TraceIO
VARIABLES l, cur
Rec == TraceLog[l]

E(t) == D!DMul(D!DInt(64), Eps(t))
S(t, w) == Num(t, w)
V(t, ws) == Nums(t, ws)
One == D!DOne
Two == D!DInt(2)
Mul(a, b) == D!DMul(a, b)
Add(a, b) == D!DAdd(a, b)
Sb(a, b) == D!DSub(a, b)
Le(a, b) == D!DLe(a, b)
Lt(a, b) == D!DLt(a, b)
Unit(t, n) == D!DWithin(Norm2(n), One, E(t))
Near(a, b, tol) == \A i \in 1..Len(a) : D!DWithin(a[i], b[i], tol)
AbsLe(x, bound) == D!DCmpAbs(x, bound) <= 0
\* a quotient q = num / den, within tol relative to |num| (exactly zero when num is)
QuotIs(q, nd, tol) == AbsLe(Sb(Mul(q, nd[2]), nd[1]), Mul(tol, Abs(nd[1])))

StepOK(r) == \E c \in {[F |-> St(r.t, r.st0, r.o0), G |-> St(r.t, r.st1, r.o1), a |-> V(r.t, r.a)]} :
    LET t == r.t  F == c.F  G == c.G  a == c.a
        chained == (r.prog >= 0 /\ r.step > 1 /\ cur[1] = <<r.prog, r.t>>) => (r.st0 = cur[2] /\ r.o0 = cur[3])
        near(x, y, sc) == D!DWithin(x, y, Mul(E(t), sc))
    IN  /\ chained
        /\ CASE r.op = "set" -> /\ \A i \in 1..6 : D!DEq(S(t, r.st1[i]), a[i])
                                /\ r.o1 = (IF D!DIsZero(a[7]) THEN 0 ELSE 1)
             [] r.op = "ortho" -> r.st1 = r.st0 /\ r.o1 = (IF D!DIsZero(a[1]) THEN 0 ELSE 1)
             [] r.op = "modnf" ->
                  /\ D!DEq(G.n, a[1]) /\ D!DEq(G.f, a[2]) /\ r.o1 = r.o0
                  /\ IF F.o THEN \A i \in 3..6 : r.st1[i] = r.st0[i]
                     ELSE \A pr \in {<<G.l, F.l>>, <<G.r, F.r>>, <<G.t, F.t>>, <<G.b, F.b>>} :
                             near(Mul(pr[1], F.n), Mul(pr[2], a[1]), Abs(Mul(pr[2], a[1])))
             [] r.op = "window" ->
                  /\ r.st1[1] = r.st0[1] /\ r.st1[2] = r.st0[2] /\ r.o1 = r.o0
                  /\ near(Mul(Two, G.l), FC!Local2X(F, a[1]), Add(Abs(F.l), Abs(F.r)))
                  /\ near(Mul(Two, G.r), FC!Local2X(F, a[2]), Add(Abs(F.l), Abs(F.r)))
                  /\ near(Mul(Two, G.t), FC!Local2Y(F, a[3]), Add(Abs(F.t), Abs(F.b)))
                  /\ near(Mul(Two, G.b), FC!Local2Y(F, a[4]), Add(Abs(F.t), Abs(F.b)))
             [] OTHER -> FALSE
        /\ (Has(r, "eqcopy") => r.eqcopy = 1 /\ ((r.eqbefore = 1) = ((\A i \in 1..6 : D!DEq(S(t, r.st1[i]), S(t, r.st0[i]))) /\ r.o1 = r.o0)))

\* amplification exponent of a perspective side plane: 1 / sin^2 of the angle subtended by the window
WinAmp(F) == LET m == D!DMin(FC!Dx(F), FC!Dy(F))
                 c2 == Add(D!DSq(F.n), Add(D!DSq(D!DMax(Abs(F.l), Abs(F.r))), D!DSq(D!DMax(Abs(F.t), Abs(F.b)))))
             IN  IF F.o THEN 0 ELSE AmpK(D!DSq(m), c2, 40)
\* a logged plane <<nx, ny, nz, d>>
PN(t, pw) == <<S(t, pw[1]), S(t, pw[2]), S(t, pw[3])>>
PD(t, pw) == S(t, pw[4])

PlanesOK(t, F, pws) == \A k \in 1..6 :
    LET spec == FC!Planes(F)[k]  n == PN(t, pws[k])  d == PD(t, pws[k])
        p0 == <<spec[2][1], spec[2][2], spec[2][3]>>
        tol == D!DScale(E(t), WinAmp(F))
    IN  /\ Unit(t, n) /\ SameDir(n, spec[1], D!DSq(tol))
        /\ D!DWithin(d, DotV(n, p0), Mul(tol, Add(One, MaxAbsRow(p0))))

ProjOK(r) == \E F \in {St(r.t, r.st, r.o)} :
    LET t == r.t  M == Mat(t, r.m, 4, 4)
        tfx == S(t, r.tfx)  tfy == S(t, r.tfy)
        fovrel(tf, hi, lo) ==          \* tan(atan2(hi, n) - atan2(lo, n)) (n^2 + hi lo) = n (hi - lo), judged below 90 degrees
            LET den == Add(D!DSq(F.n), Mul(hi, lo))  big == Add(D!DSq(F.n), Abs(Mul(hi, lo))) IN
            Le(D!DScale(big, -2), den) =>
               AbsLe(Sb(Mul(tf, den), Mul(F.n, Sb(hi, lo))), Mul(D!DScale(E(t), 2), Mul(Add(One, D!DSq(tf)), big)))
    IN  /\ (r.degenerate = 1) = ~FC!NonDegenerate(F)
        /\ r.hy = <<r.st[1], r.st[2]>>                       \* hither / yon are the near / far planes
        \* the checked forms return the same bits wherever they return; a well-formed, non-degenerate frustum never throws
        /\ (Has(r, "mExc") => r.mExc = r.m) /\ (Has(r, "aspectExc") => r.aspectExc = r.aspect)
        /\ (FC!WellFormed(F) /\ FC!NonDegenerate(F) => Has(r, "mExc") /\ Has(r, "aspectExc"))
        /\ FC!WellFormed(F) =>
             /\ \A i \in 1..4, j \in 1..4 : QuotIs(M[i][j], FC!ProjEntry(F, i, j), E(t))
             /\ fovrel(tfx, F.r, F.l) /\ fovrel(tfy, F.t, F.b)
             /\ AbsLe(Sb(Mul(S(t, r.aspect), FC!Dy(F)), FC!Dx(F)), Mul(E(t), FC!Dx(F)))
             /\ PlanesOK(t, F, r.planes)

PtOK(r) == \E c \in {[F |-> St(r.t, r.st, r.o), p |-> V(r.t, r.p), s |-> V(r.t, r.s)]} :
    LET t == r.t  F == c.F  p == c.p  s == c.s
        ph == <<p[1], p[2], p[3], One>>
        num == FC!ClipNum(F, ph)  den == FC!ClipDen(F)  w == FC!ClipW(F, ph)
        kx == AmpK(FC!Dx(F), Add(Add(Abs(F.l), Abs(F.r)), FC!Dx(F)), 30)
        ky == AmpK(FC!Dy(F), Add(Add(Abs(F.t), Abs(F.b)), FC!Dy(F)), 30)
        tolx == D!DScale(E(t), kx)  toly == D!DScale(E(t), ky)  tolm == D!DScale(E(t), IF kx > ky THEN kx ELSE ky)
        pos == V(t, r.pos)  dir == V(t, r.dir)
        rad == S(t, r.rad)  sr == S(t, r.sr)
    IN  FC!WellFormed(F) =>
        \* the screen position is x, y of  point * projectionMatrix
        /\ AbsLe(Sb(Mul(s[1], Mul(den[1], w)), num[1]), Mul(Mul(tolx, Add(One, Abs(s[1]))), Abs(Mul(den[1], w))))
        /\ AbsLe(Sb(Mul(s[2], Mul(den[2], w)), num[2]), Mul(Mul(toly, Add(One, Abs(s[2]))), Abs(Mul(den[2], w))))
        \* the ray through that screen position passes through the point, and its points project back to it
        /\ Unit(t, dir)
        /\ OnLine(p, pos, dir, Mul(tolm, Add(One, MaxAbsRow(p))))
        \* ... as a ray: a point in front of the eye plane is reached at a non-negative parameter
        /\ Le(p[3], D!DZero) => Le(D!DNeg(Mul(tolm, Add(One, MaxAbsRow(p)))), DotV(VSub(p, pos), dir))
        /\ Near(V(t, r.s2), s, Mul(D!DScale(tolm, 2), Add(One, MaxAbsRow(s))))
        /\ Near(V(t, r.back), s, Mul(D!DScale(tolm, 2), Add(One, MaxAbsRow(s))))
        \* screenRadius and worldRadius are inverse, and scale by near / depth
        /\ D!DSign(F.n) > 0 =>
             /\ AbsLe(Sb(Mul(sr, D!DNeg(p[3])), Mul(rad, F.n)), Mul(E(t), Mul(rad, F.n)))
             /\ D!DWithin(S(t, r.wr), rad, Mul(E(t), rad))

DepthOK(r) == \E F \in {St(r.t, r.st, r.o)} :
    LET t == r.t
        zn == S(t, r.zn)  zp == Sb(Mul(Two, zn), One)
        rel(d, zpn, zpd) ==           \* ClipNum_z(0, 0, d, 1) * zpd = zpn * dz * w   (device z = zpn / zpd)
            LET ph == <<D!DZero, D!DZero, d, One>>
                sc == Add(Mul(Add(F.f, F.n), Abs(d)), Mul(Two, Mul(F.f, F.n)))
            IN  AbsLe(Sb(Mul(FC!ClipNum(F, ph)[3], zpd), Mul(zpn, Mul(FC!Dz(F), FC!ClipW(F, ph)))), Mul(D!DScale(E(t), 2), Mul(sc, Abs(zpd))))
        zdiff == Sb(D!DInt(r.zmax), D!DInt(r.zmin))                      \* (the range may be wider than the checker's integers)
        zrel(zq, d) == rel(d, Sb(D!DScale(Sb(D!DInt(zq), D!DInt(r.zmin)), 1), zdiff), zdiff)
    IN  FC!WellFormed(F) =>
        /\ rel(S(t, r.d), zp, One)                                                   \* agrees with the matrix's depth
        /\ AbsLe(Sb(Sb(D!DInt(r.Z), D!DInt(r.zmin)), Mul(zn, zdiff)), Add(One, Mul(E(t), zdiff)))   \* DepthToZ: truncation of zn * (zmax - zmin)
        /\ zrel(r.Z, S(t, r.d2)) /\ zrel(r.Zq, S(t, r.dq))                           \* ZToDepth inverts it

SetFovOK(r) == \E F \in {St(r.t, r.st, r.o)} :
    LET t == r.t  n == S(t, r.n)  th == S(t, r.tanhalf)  asp == S(t, r.asp)  fov == S(t, r.fov)
        near(x, y) == D!DWithin(x, y, Mul(E(t), Abs(y)))
    IN  /\ r.st[1] = r.n /\ r.st[2] = r.f /\ r.o = 0
        /\ D!DEq(F.l, D!DNeg(F.r)) /\ D!DEq(F.b, D!DNeg(F.t))
        /\ IF r.usex = 1
           THEN /\ near(F.r, Mul(n, th)) /\ near(Mul(Mul(F.t, asp), Two), FC!Dx(F))
                /\ D!DWithin(S(t, r.fovx), fov, D!DScale(E(t), 2))
           ELSE /\ near(F.t, Mul(n, th)) /\ near(Mul(F.r, Two), Mul(FC!Dy(F), asp))
                /\ D!DWithin(S(t, r.fovy), fov, D!DScale(E(t), 2))
        /\ near(S(t, r.aspect), asp)

PlanesMOK(r) == \E c \in {[F |-> St(r.t, r.st, r.o), M |-> Mat(r.t, r.cam, 4, 4)]} :
    LET t == r.t  F == c.F  M == c.M
        img(x) == [j \in 1..4 |-> Value(VecMat(x, M)[j])]                  \* exact image of a homogeneous point (M affine: weight unchanged)
        det == Det(Lin(M, 3))
        \* planes(p, M) takes each plane through three transformed corners: the direction of a normal is lost to cancellation in
        \* proportion to (size of the coordinates) / (shortest edge of the transformed near rectangle)
        na == img(FC!Corner(F, -1, -1, -1))  nb == img(FC!Corner(F, -1, 1, -1))  nd == img(FC!Corner(F, 1, -1, -1))
        e1 == Norm2(<<Sb(nb[1], na[1]), Sb(nb[2], na[2]), Sb(nb[3], na[3])>>)
        e2 == Norm2(<<Sb(nd[1], na[1]), Sb(nd[2], na[2]), Sb(nd[3], na[3])>>)
        big2 == D!DSq(Add(One, D!DMax(MaxAbsRow(na), D!DMax(MaxAbsRow(nb), MaxAbsRow(nd)))))
        kM == (AmpK(D!DMin(e1, e2), big2, 60) + 1) \div 2
        k0 == IF WinAmp(F) > kM THEN WinAmp(F) ELSE kM
        tol == D!DScale(E(t), k0 + 4)
        scM == Add(One, MaxAbs(M))
    IN  (FC!WellFormed(F) /\ D!DSign(det) > 0) =>
        \A k \in 1..6 :
          LET n == PN(t, r.planes[k])  d == PD(t, r.planes[k])
              n2 == PN(t, r.mul[k])  d2 == PD(t, r.mul[k])
          IN  /\ Unit(t, n)
              \* the images of the corners of face k lie on plane k, the images of the others strictly inside it
              /\ \A sx \in FC!Signs, sy \in FC!Signs, sz \in FC!Signs :
                   \E h \in {img(FC!Corner(F, sx, sy, sz))} :
                     LET side == Sb(DotV(n, <<h[1], h[2], h[3]>>), Mul(d, h[4]))
                         slack == Mul(tol, Add(MaxAbsRow(<<h[1], h[2], h[3]>>), Mul(Add(Abs(d), One), h[4])))
                     IN  IF FC!OnPlane(k, sx, sy, sz) THEN AbsLe(side, slack) ELSE Lt(side, slack)
              \* and equal planes()[k] * M
              /\ Near(n, n2, tol) /\ D!DWithin(d, d2, Mul(tol, Add(One, Add(Abs(d), scM))))

CullOK(r) == \E c \in {[pl |-> [k \in 1..6 |-> <<PN(r.t, r.planes[k]), PD(r.t, r.planes[k])>>], x |-> V(r.t, r.x),
                        mn |-> V(r.t, r.bmin), mx |-> V(r.t, r.bmax), sc |-> V(r.t, r.sc), sr |-> S(r.t, r.sr)]} :
    LET t == r.t
        sd(k, y) == Sb(DotV(c.pl[k][1], y), c.pl[k][2])
        mg(k, y) == Mul(D!DScale(E(t), 2), Add(MaxAbsRow(y), Add(Abs(c.pl[k][2]), One)))
        inside(y) == \A k \in 1..6 : Lt(sd(k, y), D!DNeg(mg(k, y)))
        outside(y) == \E k \in 1..6 : Lt(mg(k, y), sd(k, y))
        corners == {<< IF i = 0 THEN c.mn[1] ELSE c.mx[1], IF j = 0 THEN c.mn[2] ELSE c.mx[2], IF m = 0 THEN c.mn[3] ELSE c.mx[3] >> : i \in {0, 1}, j \in {0, 1}, m \in {0, 1}}
        xInBox == \A i \in 1..3 : Le(c.mn[i], c.x[i]) /\ Le(c.x[i], c.mx[i])
        xInSphere == LenLe(VSub(c.x, c.sc), c.sr)
    IN  \* the test object reports the camera matrix and frustum it was given (or its defaults)
        /\ (Has(r, "camm") => r.camm = r.cam /\ r.cst = r.st /\ r.co = r.o)
        \* a point: membership in the interior of the region
        /\ inside(c.x) => r.vp = 1
        /\ outside(c.x) => r.vp = 0
        \* a box: never culled when it touches the region; culled when wholly beyond one plane
        /\ (xInBox /\ inside(c.x)) => r.vb = 1
        /\ (\E k \in 1..6 : \A y \in corners : Lt(mg(k, y), sd(k, y))) => r.vb = 0
        /\ r.cb = 1 => \A y \in corners : ~outside(y)
        /\ (\A y \in corners : inside(y)) => r.cb = 1
        \* a sphere
        /\ (xInSphere /\ inside(c.x)) => r.vs = 1
        /\ (\E k \in 1..6 : Lt(Add(mg(k, c.sc), c.sr), sd(k, c.sc))) => r.vs = 0
        /\ r.cs = 1 => \A k \in 1..6 : Lt(Add(sd(k, c.sc), c.sr), mg(k, c.sc))
        /\ (\A k \in 1..6 : Lt(Add(sd(k, c.sc), c.sr), D!DNeg(mg(k, c.sc)))) => r.cs = 1

\* operator== / != : equal to a copy and to an assigned object, different from a frustum that differs in one component
EqOK(r) == /\ r.eq = <<1, 1, 0, 0, 0, 0, 0, 0, 0>>
           /\ r.ne = <<0, 0, 1, 1, 1, 1, 1, 1, 1>>

\* the checked (...Exc) twins of the point and depth queries return the same bits wherever they return
PtTwinsOK(r) == (Has(r, "sExc") => r.sExc = r.s) /\ (Has(r, "srExc") => r.srExc = r.sr) /\ (Has(r, "wrExc") => r.wrExc = r.wr)
DepthTwinsOK(r) == (Has(r, "dExc") => r.dExc = r.d) /\ (Has(r, "ZExc") => r.ZExc = r.Z) /\ (Has(r, "d2Exc") => r.d2Exc = r.d2)

Judge(r) == CASE r.e = "freq" -> EqOK(r) [] r.e = "step" -> StepOK(r) [] r.e = "proj" -> ProjOK(r) [] r.e = "pt" -> PtTwinsOK(r) /\ PtOK(r) [] r.e = "depth" -> DepthTwinsOK(r) /\ DepthOK(r)
              [] r.e = "setfov" -> SetFovOK(r) [] r.e = "planesM" -> PlanesMOK(r) [] r.e = "cull" -> CullOK(r) [] OTHER -> FALSE
What(r) == CASE r.e = "step" -> <<r.e, r.t, r.op, r.prog, r.step>> [] r.e \in {"planesM", "cull"} -> <<r.e, r.t, r.fam>> [] OTHER -> <<r.e, r.t>>
Init == l = 1 /\ cur = <<<<>>, <<>>, 0>>
Next == \/ /\ l <= TraceLen
           /\ LET r == Rec IN
              /\ IF Judge(r) THEN TRUE ELSE ReportBad(l, What(r))
              /\ cur' = IF r.e = "step" THEN << <<r.prog, r.t>>, r.st1, r.o1 >> ELSE cur
           /\ l' = l + 1
        \/ l = TraceLen + 1 /\ ReportDone(TraceLen) /\ l' = l + 1 /\ UNCHANGED cur
=============================================================================
