----------------------------- MODULE RayBoxInt -----------------------------
(* RayBoxCore instantiated with TLC's native integers: the same definitions,
   evaluated on integer-lattice inputs (all intermediate products stay far below 2^31). *)
EXTENDS Integers, Sequences, FiniteSets, TLC
ISgn(a) == IF a > 0 THEN 1 ELSE IF a < 0 THEN -1 ELSE 0
INSTANCE RayBoxCore WITH NZero <- 0, NOne <- 1, NMul <- LAMBDA a, b : a * b, NAdd <- LAMBDA a, b : a + b,
                         NSub <- LAMBDA a, b : a - b, NNeg <- LAMBDA a : -a, NSgn <- ISgn
=============================================================================
