CONSTANTS MaxLen = 2 MaxDepth = 1 Sim = FALSE BndLo <- BLo BndHi = 1 Steps <- StepsSmall
INIT InitRO
NEXT Next
INVARIANT Export
INVARIANT NoOOB
PROPERTY ReadOnlyFrozen
PROPERTY DerivedReadOnly
CHECK_DEADLOCK FALSE
