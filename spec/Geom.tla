-------------------------------- MODULE Geom --------------------------------
(***************************************************************************)
(* Lines, planes, spheres and triangles (C15), stated on exact numbers.    *)
(*                                                                         *)
(* Every relation below is a polynomial (in)equality between logged values *)
(* and exact lattice inputs: no square root, no division.  A length d is   *)
(* compared with a vector v through  (d - tol)^2 <= v.v <= (d + tol)^2;    *)
(* a quotient through cross-multiplication with its (positive) denominator.*)
(***************************************************************************)
EXTENDS Factor

VAdd(a, b) == [i \in 1..Len(a) |-> D!DAdd(a[i], b[i])]
VScale(a, k) == [i \in 1..Len(a) |-> D!DMul(a[i], k)]
DotV(a, b) == D!DDot(a, b)
L1(a) == D!DSumAbs(a)
IsZeroVec(a) == \A i \in 1..Len(a) : D!DIsZero(a[i])

\* | |v| - d | <= tol   (d, tol >= 0)
LenNear(v, d, tol) == /\ D!DLe(Norm2(v), D!DSq(D!DAdd(d, tol)))
                      /\ (D!DLe(d, tol) \/ D!DLe(D!DSq(D!DSub(d, tol)), Norm2(v)))
\* |v| <= bound
LenLe(v, bound) == D!DLe(Norm2(v), D!DSq(bound))
\* p lies on the line (pos, dir) up to tol:  |(p - pos) x dir| <= tol |dir|
OnLine(p, pos, dir, tol) == D!DLe(Norm2(CrossV(VSub(p, pos), dir)), D!DMul(D!DSq(tol), Norm2(dir)))
\* smallest k in 0..kmax with  small * 2^k >= big   (kmax + 1 if none): an amplification exponent
RECURSIVE AmpR(_, _, _, _)
AmpR(small, big, k, kmax) == IF k > kmax \/ D!DLe(big, D!DScale(small, k)) THEN k ELSE AmpR(small, big, k + 1, kmax)
Amp(small, big, kmax) == AmpR(small, big, 0, kmax)

\* --- the division-free definitions of GeomCore (whose theorems MCGeom checks on an integer lattice), on dyadics ------
GC == INSTANCE GeomCore WITH NZero <- D!DZero, NOne <- D!DOne, NMul <- D!DMul, NAdd <- D!DAdd, NSub <- D!DSub,
                             NNeg <- D!DNeg, NSgn <- D!DSign
\* line through p0 with direction u; triangle (v0, v1, v2)
TriNormal(v0, v1, v2) == GC!TriNormal(v0, v1, v2)
\* nd * hit,  with nd = Nn . u
TriHitTimesNd(p0, u, v0, Nn) == GC!TriHitTimesNd(p0, u, v0, Nn)
\* numerators of the barycentric coordinates over the common denominator (Nn.Nn) nd^2
TriBaryNum(H, nd, v0, v1, v2, Nn) == GC!TriBaryNum(H, nd, v0, v1, v2, Nn)
\* the sphere quadratic  f(t) = A t^2 + 2 Bh t + C
QuadAt(A, Bh, C, x) == GC!QuadAt(A, Bh, C, x)
=============================================================================
