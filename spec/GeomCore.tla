------------------------------ MODULE GeomCore ------------------------------
(***************************************************************************)
(* The division-free definitions used to judge C15, over an abstract exact *)
(* number type.  Geom instantiates them with exact dyadics (judging        *)
(* recorded calls); MCGeom instantiates them with TLC integers and checks  *)
(* on a lattice that they mean what they are used for:                     *)
(*   - the triangle hit point lies on the line and on the triangle's       *)
(*     plane, the barycentric numerators sum to the denominator and        *)
(*     recombine the vertices into the hit point;                          *)
(*   - the sphere quadratic is |pos + t dir - c|^2 - r^2;                  *)
(*   - |w . (u x v)| / |u x v| is a lower bound of the distance between    *)
(*     any two points of two lines, attained exactly when the connecting   *)
(*     segment is perpendicular to both.                                   *)
(***************************************************************************)
EXTENDS Integers, Sequences
CONSTANTS NZero, NOne, NMul(_, _), NAdd(_, _), NSub(_, _), NNeg(_), NSgn(_)
NEq(a, b) == NSgn(NSub(a, b)) = 0
NLe(a, b) == NSgn(NSub(a, b)) <= 0
NTwo == NAdd(NOne, NOne)
GDot(a, b) == NAdd(NMul(a[1], b[1]), NAdd(NMul(a[2], b[2]), NMul(a[3], b[3])))
GCross(a, b) == << NSub(NMul(a[2], b[3]), NMul(a[3], b[2])), NSub(NMul(a[3], b[1]), NMul(a[1], b[3])), NSub(NMul(a[1], b[2]), NMul(a[2], b[1])) >>
GSub(a, b) == << NSub(a[1], b[1]), NSub(a[2], b[2]), NSub(a[3], b[3]) >>
GAdd(a, b) == << NAdd(a[1], b[1]), NAdd(a[2], b[2]), NAdd(a[3], b[3]) >>
GScale(a, k) == << NMul(a[1], k), NMul(a[2], k), NMul(a[3], k) >>
GNorm2(a) == GDot(a, a)
GIsZero(a) == NSgn(a[1]) = 0 /\ NSgn(a[2]) = 0 /\ NSgn(a[3]) = 0
GEqV(a, b) == GIsZero(GSub(a, b))

\* --- triangle (v0, v1, v2) against the line p0 + t u -------------------------------------------
TriNormal(v0, v1, v2) == GCross(GSub(v1, v0), GSub(v2, v0))
\* nd * hit,  with nd = Nn . u
TriHitTimesNd(p0, u, v0, Nn) == GAdd(GScale(p0, GDot(Nn, u)), GScale(u, GDot(Nn, GSub(v0, p0))))
\* numerators of the barycentric coordinates over the common denominator (Nn.Nn) nd^2
TriBaryNum(H, nd, v0, v1, v2, Nn) ==
    LET w0 == GSub(GScale(v0, nd), H)  w1 == GSub(GScale(v1, nd), H)  w2 == GSub(GScale(v2, nd), H)
    IN  << GDot(Nn, GCross(w1, w2)), GDot(Nn, GCross(w2, w0)), GDot(Nn, GCross(w0, w1)) >>
TriTheorems(p0, u, v0, v1, v2) ==
    LET Nn == TriNormal(v0, v1, v2)  nd == GDot(Nn, u)  H == TriHitTimesNd(p0, u, v0, Nn)
        num == TriBaryNum(H, nd, v0, v1, v2, Nn)  den == NMul(GNorm2(Nn), NMul(nd, nd))
    IN  \* the hit point is on the line ...
        /\ GIsZero(GCross(GSub(H, GScale(p0, nd)), u))
        \* ... and in the triangle's plane
        /\ NSgn(GDot(Nn, GSub(H, GScale(v0, nd)))) = 0
        \* barycentric coordinates sum to one ...
        /\ NEq(NAdd(num[1], NAdd(num[2], num[3])), den)
        \* ... and reproduce the hit point:  sum num_i v_i = (Nn.Nn) nd * H
        /\ GEqV(GAdd(GScale(v0, num[1]), GAdd(GScale(v1, num[2]), GScale(v2, num[3]))), GScale(H, NMul(GNorm2(Nn), nd)))
        \* a vertex has barycentric coordinates (1, 0, 0): aim the line at v0
        /\ (NSgn(GDot(Nn, GSub(v0, p0))) # 0 /\ NSgn(GNorm2(Nn)) # 0) =>
             LET u0 == GSub(v0, p0)  nd0 == GDot(Nn, u0)  H0 == TriHitTimesNd(p0, u0, v0, Nn)
                 n0 == TriBaryNum(H0, nd0, v0, v1, v2, Nn)
             IN  NEq(n0[1], NMul(GNorm2(Nn), NMul(nd0, nd0))) /\ NSgn(n0[2]) = 0 /\ NSgn(n0[3]) = 0

\* --- sphere quadratic  f(t) = A t^2 + 2 Bh t + C -------------------------------------------------
QuadAt(A, Bh, C, x) == NAdd(NMul(A, NMul(x, x)), NAdd(NMul(NTwo, NMul(Bh, x)), C))
SphereTheorem(pos, dir, ctr, rad, x) ==
    LET v == GSub(pos, ctr)
        onRay == GSub(GAdd(pos, GScale(dir, x)), ctr)
    IN  NEq(QuadAt(GNorm2(dir), GDot(dir, v), NSub(GNorm2(v), NMul(rad, rad)), x), NSub(GNorm2(onRay), NMul(rad, rad)))

\* --- two lines a0 + t u, b0 + s v ---------------------------------------------------------------
LinesTheorem(a0, u, b0, v, tt, ss) ==
    LET cr == GCross(u, v)  w == GSub(b0, a0)
        seg == GSub(GAdd(b0, GScale(v, ss)), GAdd(a0, GScale(u, tt)))
        wc == GDot(w, cr)
    IN  \* |seg|^2 |cr|^2 >= (w.cr)^2, with equality exactly when seg is perpendicular to both directions (cr # 0)
        /\ NLe(NMul(wc, wc), NMul(GNorm2(seg), GNorm2(cr)))
        /\ ~GIsZero(cr) => (NEq(NMul(wc, wc), NMul(GNorm2(seg), GNorm2(cr))) <=> (NSgn(GDot(seg, u)) = 0 /\ NSgn(GDot(seg, v)) = 0))
        \* parallel lines: the distance |w x u| / |u| does not depend on the points chosen
        /\ (GIsZero(cr) /\ ~GIsZero(u) /\ ~GIsZero(v)) => GEqV(GCross(seg, u), GCross(w, u))
=============================================================================
