--------------------------------- MODULE Fun ---------------------------------
(***************************************************************************)
(* Scalar utilities, root finding and colour conversion (C17), by their    *)
(* mathematical definitions on exact values.                               *)
(***************************************************************************)
EXTENDS LinAlg

\* ---- floor / ceil / trunc of an exact dyadic, as a TLC integer (|x| < 2^31) -----
IntPart(d) ==       \* <<floor(|d|), has a fractional part?>>
    IF D!DSign(d) = 0 THEN <<0, FALSE>>
    ELSE IF d.e >= 0 THEN <<B!ToNatM(B!ShiftLM(d.m.m, d.e)), FALSE>>
    ELSE LET qr == I!DivModM(d.m.m, B!ShiftLM(<<1>>, -d.e)) IN <<B!ToNatM(qr[1]), qr[2] # <<>>>>
FloorD(d) == LET ip == IntPart(d) IN IF D!DSign(d) >= 0 THEN ip[1] ELSE -(ip[1] + (IF ip[2] THEN 1 ELSE 0))
CeilD(d) == -FloorD(D!DNeg(d))
TruncD(d) == LET ip == IntPart(d) IN IF D!DSign(d) >= 0 THEN ip[1] ELSE -ip[1]
FnD(fn, d) == CASE fn = "floor" -> FloorD(d) [] fn = "ceil" -> CeilD(d) [] fn = "trunc" -> TruncD(d)

\* ---- integer division --------------------------------------------------------------
BI(n) == B!FromInt(n)
Recompose(x, y, q, r) == B!Eq(B!Add(B!Mul(BI(y), BI(q)), BI(r)), BI(x))
AbsI(n) == IF n < 0 THEN -n ELSE n
SgnI(n) == IF n > 0 THEN 1 ELSE IF n < 0 THEN -1 ELSE 0
\* truncating division: x = y q + r, |r| < |y|, r has the sign of x (or is 0)
TruncDivOK(x, y, q, r) == Recompose(x, y, q, r) /\ AbsI(r) < AbsI(y) /\ (r = 0 \/ SgnI(r) = SgnI(x))
\* "positive" division: x = y q + r with 0 <= r < |y|
PosDivOK(x, y, q, r) == Recompose(x, y, q, r) /\ r >= 0 /\ r < AbsI(y)
\* the code's four-way sign tables (implementation-shaped), on TLC integers
AlgoDivs(x, y) == IF x >= 0 THEN (IF y >= 0 THEN x \div y ELSE -(x \div (-y)))
                  ELSE (IF y >= 0 THEN -((-x) \div y) ELSE (-x) \div (-y))
AlgoMods(x, y) == IF x >= 0 THEN (IF y >= 0 THEN x % y ELSE x % (-y))
                  ELSE (IF y >= 0 THEN -((-x) % y) ELSE -((-x) % (-y)))
AlgoDivp(x, y) == IF x >= 0 THEN (IF y >= 0 THEN x \div y ELSE -(x \div (-y)))
                  ELSE (IF y >= 0 THEN -1 - ((-1 - x) \div y) ELSE 1 + ((-1 - x) \div (-y)))
AlgoModp(x, y) == IF x >= 0 THEN (IF y >= 0 THEN x % y ELSE x % (-y))
                  ELSE (IF y >= 0 THEN y - 1 - ((-1 - x) % y) ELSE -y - 1 - ((-1 - x) % (-y)))

\* ---- roots ---------------------------------------------------------------------------
\* polynomial with coefficients c (highest degree first) evaluated at a dyadic x (Horner, exact)
RECURSIVE HornerR(_, _, _, _)
HornerR(c, x, k, acc) == IF k > Len(c) THEN acc ELSE HornerR(c, x, k + 1, D!DAdd(D!DMul(acc, x), c[k]))
PolyAt(c, x) == HornerR(c, x, 1, D!DZero)
AbsPolyAt(c, x) == HornerR([k \in 1..Len(c) |-> D!DAbs(c[k])], D!DAbs(x), 1, D!DZero)
Deriv(c) == LET n == Len(c) - 1 IN [k \in 1..n |-> D!DMul(D!DInt(n - k + 1), c[k])]
\* a computed root x approximates the exact simple root r of p:  |x - r| |p'(r)| <= K eps sum|a_k||r|^k  (+ K eps |r| |p'(r)|)
\* scale is the magnitude against which absolute errors are measured: |r| itself for the
\* quadratic (whose stable formula is accurate relative to each root; for the root 0 the
\* largest root), and the largest root magnitude for the cubics (Cardano's formulas carry
\* absolute errors of the size of the largest root)
RootNear(t, c, r, x, K, scale) ==
    LET dp == D!DAbs(PolyAt(Deriv(c), r))
        bound == D!DMul(D!DMul(D!DInt(K), Eps(t)), D!DAdd(AbsPolyAt(c, r), D!DMul(scale, dp)))
    IN  D!DCmpAbs(D!DMul(D!DSub(x, r), dp), bound) <= 0
RECURSIVE MaxAbsSeq(_, _)
MaxAbsSeq(s, k) == IF k > Len(s) THEN D!DZero ELSE D!DMax(D!DAbs(s[k]), MaxAbsSeq(s, k + 1))
\* coefficients of a * prod (x - r_i)
RECURSIVE ExpandR(_, _, _)
ExpandR(rs, k, acc) ==
    IF k > Len(rs) THEN acc
    ELSE ExpandR(rs, k + 1, [i \in 1..(Len(acc) + 1) |->
             D!DSub(IF i <= Len(acc) THEN acc[i] ELSE D!DZero, IF i >= 2 THEN D!DMul(rs[k], acc[i - 1]) ELSE D!DZero)])
Expand(a, rs) == ExpandR(rs, 1, <<a>>)
SameCoefs(c1, c2) == Len(c1) = Len(c2) /\ \A k \in 1..Len(c1) : D!DEq(c1[k], c2[k])
Distinct(rs) == \A i \in 1..Len(rs), j \in 1..Len(rs) : i # j => ~D!DEq(rs[i], rs[j])
\* well separated: |r_i - r_j| >= max(|r_i|, |r_j|, 1) / 64
WellSeparated(rs) == \A i \in 1..Len(rs), j \in 1..Len(rs) :
    i < j => D!DCmpAbs(D!DScale(D!DSub(rs[i], rs[j]), 6), D!DMax(D!DMax(D!DAbs(rs[i]), D!DAbs(rs[j])), D!DOne)) >= 0

\* ---- colour ------------------------------------------------------------------------------
\* hsv -> rgb on exact dyadics (h, s, v in [0,1]): a polynomial per sextant
Hsv2Rgb(h, s, v) ==
    LET H == IF D!DEq(h, D!DOne) THEN D!DZero ELSE D!DMul(D!DInt(6), h)
        i == FloorD(H)
        f == D!DSub(H, D!DInt(i))
        p == D!DMul(v, D!DSub(D!DOne, s))
        q == D!DMul(v, D!DSub(D!DOne, D!DMul(s, f)))
        t == D!DMul(v, D!DSub(D!DOne, D!DMul(s, D!DSub(D!DOne, f))))
    IN  CASE i = 0 -> <<v, t, p>> [] i = 1 -> <<q, v, p>> [] i = 2 -> <<p, v, t>>
          [] i = 3 -> <<p, q, v>> [] i = 4 -> <<t, p, v>> [] OTHER -> <<v, p, q>>
Max3(a) == D!DMax(a[1], D!DMax(a[2], a[3]))
Min3(a) == D!DMin(a[1], D!DMin(a[2], a[3]))
\* rgb -> hsv as rationals: <<Hnum, range>> with hue = Hnum / (6 range) mod 1; sat = range / max; val = max
HueNum(c) == LET mx == Max3(c)  rg == D!DSub(mx, Min3(c)) IN
             IF D!DEq(c[1], mx) THEN D!DSub(c[2], c[3])
             ELSE IF D!DEq(c[2], mx) THEN D!DAdd(D!DMul(D!DInt(2), rg), D!DSub(c[3], c[1]))
             ELSE D!DAdd(D!DMul(D!DInt(4), rg), D!DSub(c[1], c[2]))
=============================================================================
