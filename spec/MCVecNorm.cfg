INIT Init
NEXT Next
INVARIANT ExactAccepted
INVARIANT FarRejected
INVARIANT NormAccepted
INVARIANT NormFlippedRejected
CHECK_DEADLOCK FALSE
