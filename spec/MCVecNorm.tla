------------------------------ MODULE MCVecNorm ------------------------------
(* Sanity of the VecNorm relations themselves (no code): on exactly representable
   Pythagorean tuples scaled by powers of two across the exponent range, the exact
   norm satisfies LenOK, values 16 ulp away do not, and the exactly normalised vector
   of (3,4)-type tuples satisfies NormOK while a vector with one sign flipped, or scaled
   by 1 + 2^-10, does not.  This guards the checks against a vacuous (always true) or
   unsatisfiable (always false) specification. *)
EXTENDS VecNorm
VARIABLES tup, ex
Tuples == { <<3, 4, 5>>, <<5, 12, 13>>, <<8, 15, 17>>, <<1, 2, 2, 3>>, <<2, 3, 6, 7>>, <<1, 4, 8, 9>>, <<2, 4, 5, 6, 9>>, <<1, 1, 3, 5, 6>> }
Exps == {-140, -126, -70, -64, -30, -1, 0, 1, 20, 50, 60}
Init == tup \in Tuples /\ ex \in Exps
Next == UNCHANGED <<tup, ex>>
F32(v) == I!Enc32(I!Round(I!Fmt32, v, 0))
Scaled(k) == D!DScale(D!DInt(k), ex)
Comp == [i \in 1..(Len(tup) - 1) |-> Scaled(tup[i])]
Norm == Scaled(tup[Len(tup)])
Representable == \A i \in 1..Len(tup) : D!DEq(I!Val(I!Fmt32, I!Round(I!Fmt32, Scaled(tup[i]), 0)), Scaled(tup[i]))
ExactAccepted == Representable => LenOK("f", Comp, F32(Norm))
FarRejected == Representable /\ ex > -120 =>
    /\ ~LenOK("f", Comp, F32(D!DMul(Norm, D!DAdd(D!DOne, D!Pow2(-18)))))
    /\ ~LenOK("f", Comp, F32(D!DMul(Norm, D!DSub(D!DOne, D!Pow2(-18)))))
\* 3-4-5 style: x/|x| is exactly representable when the norm is 5 * 2^ex ... only ratios k/5 are not; use
\* power-of-two norms instead: (1,0,..) and (1,1,1,1)/2
Unit4 == <<D!DScale(D!DOne, -1), D!DScale(D!DOne, -1), D!DScale(D!DOne, -1), D!DScale(D!DOne, -1)>>
X4 == [i \in 1..4 |-> Scaled(1)]
W4(v) == [i \in 1..4 |-> F32(v[i])]
NormAccepted == ex > -120 /\ ex < 60 => NormOK("f", X4, W4(Unit4))
NormFlippedRejected == ex > -120 /\ ex < 60 =>
    /\ ~NormOK("f", X4, W4([Unit4 EXCEPT ![2] = D!DNeg(Unit4[2])]))
    /\ ~NormOK("f", X4, W4([i \in 1..4 |-> D!DMul(Unit4[i], D!DAdd(D!DOne, D!Pow2(-10)))]))
    /\ ~NormOK("f", X4, W4([Unit4 EXCEPT ![3] = D!DMul(Unit4[3], D!DAdd(D!DOne, D!Pow2(-12)))]))
=============================================================================
