---------------------------- MODULE AggregateTrace ----------------------------
(* Trace specification for Aggregate.  agg records are the steps of TLC-generated
   programs replayed on a real object: the specification threads the accumulator
   (variable cur: the previous observed state of the same object) and requires the new
   state, read through five routes (operator[], named members, getValue, the object's
   bytes, the raw pointer), to be the slot-wise scalar operation.  aggeq / aggtol /
   agglayout / aggtext / aggconv records cover equality, layout, text and conversion. *)
EXTENDS Aggregate, TraceIO
D == INSTANCE Dyadic
VARIABLES l, cur, key
Rec == TraceLog[l]

DecAll(T, ws) == [i \in 1..Len(ws) |-> Dec(T, ws[i])]
Key(r) == <<r.fam, r.T, r.prog>>
AggOK(r) ==
    LET T == r.T  n == r.n
        acc == DecAll(T, r.acc)
        operand == DecAll(T, r.operand)
        chained == r.op = "set" \/ (key = Key(r) /\ r.step > 1)
    IN  /\ Len(r.acc) = n
        /\ r.named = r.acc /\ r.getv = r.acc /\ r.raw = r.acc /\ r.ptr = r.acc       \* one block, declaration order
        /\ r.size = n * ElemSize(T)
        /\ (chained => \A i \in 1..n : Same(T, acc[i], StepSlot(T, r.op, IF r.op = "set" THEN acc[i] ELSE cur[i], operand, i)))

EqOK(r) == LET T == r.T  a == DecAll(T, r.a)  b == DecAll(T, r.b)
               same == \A i \in 1..r.n : ElemEq(T, a[i], b[i])
           IN  (r.eq = 1) = same /\ (r.ne = 1) = ~same

\* tolerances: all values are small exactly representable numbers; judge by exact arithmetic
Val(T, x) == IF IsInt(T) THEN D!DInt(x) ELSE I!Val(Fmt(T), x)
TolOK(r) == LET T == r.T  a == DecAll(T, r.a)  b == DecAll(T, r.b)
                e == Val(T, Dec(T, r.tol[1]))  re == Val(T, Dec(T, r.reltol[1]))
                absok == \A i \in 1..r.n : D!DCmpAbs(D!DSub(Val(T, a[i]), Val(T, b[i])), e) <= 0
                relok == \A i \in 1..r.n : D!DCmpAbs(D!DSub(Val(T, a[i]), Val(T, b[i])), D!DMul(re, D!DAbs(Val(T, a[i])))) <= 0
            IN  (r.abs = 1) = absok /\ (IsInt(T) \/ (r.rel = 1) = relok)

LayoutOK(r) == r.sizeof = r.n * r.elem /\ r.elem = ElemSize(r.T) /\ r.offsets = [i \in 1..r.n |-> (i - 1) * r.elem]
TextOK(r) == /\ r.opens = 1 /\ r.closes = 1 /\ r.first = "(" /\ r.last = ")"
             /\ r.lines = r.rows
             /\ Len(r.tokens) = r.n                                     \* one token per component, in order
             \* vectors, colours, shears, quaternions: the token is the component's own printed form;
             \* matrices print in a fixed-width scientific format: the token denotes the component's value
             /\ IF r.rows = 1 THEN r.tokens = r.comps
                ELSE \A i \in 1..r.n :
                       LET tv == I!Val(I!Fmt64, I!Dec64(r.tokvals[i]))  cv == I!Val(I!Fmt64, I!Dec64(r.compvals[i]))
                       IN  D!DCmpAbs(D!DSub(tv, cv), D!DScale(D!DAbs(cv), -18)) <= 0
             /\ (Has(r, "text") /\ r.T # "u8" => r.text = r.joined)     \* one line, single spaces
ConvOK(r) == LET a == DecAll(r.from, r.a)  b == DecAll(r.T, r.out)
             IN  Len(a) = Len(b) /\ \A i \in 1..Len(a) : D!DEq(Val(r.from, a[i]), Val(r.T, b[i]))

\* interop traits: a foreign type is admitted as an N-vector by NAME when it has exactly the data members x, y(, z(, w)) of the
\* element type and is exactly N elements big; by SUBSCRIPT when one (two for matrices) level of subscripting yields the element
\* type and it is exactly N elements big.  r.members / r.mt / r.slots / r.sub describe the foreign type, r.T and r.want the query.
HasAll(ms, need) == \A k \in 1..Len(need) : \E j \in 1..Len(ms) : ms[j] = need[k]
TraitOK(r) ==
    LET sized == r.slots = r.want
        typed == r.mt = r.T
        chars(str) == CASE str = "xy" -> <<"x", "y">> [] str = "xyz" -> <<"x", "y", "z">> [] str = "xyzw" -> <<"x", "y", "z", "w">> [] OTHER -> <<>>
        need == CASE r.fam = "has_xy" -> <<"x", "y">> [] r.fam = "has_xyz" -> <<"x", "y", "z">> [] r.fam = "has_xyzw" -> <<"x", "y", "z", "w">> [] OTHER -> <<>>
        expect == CASE r.fam \in {"has_xy", "has_xyz", "has_xyzw"} -> HasAll(chars(r.members), need) /\ typed /\ sized
                    [] r.fam = "has_subscript" -> r.sub >= 1 /\ typed /\ sized
                    [] r.fam = "has_double_subscript" -> r.sub = 2 /\ typed /\ sized
    IN  (r.got = 1) = expect

\* numeric limits of the element type, as every aggregate reports them, and the dimension count
IntLim(T) == CASE T = "u8"  -> <<(<<0, 0, 0, 0>>), (<<0, 0, 0, 255>>)>>
               [] T = "i16" -> <<(<<65535, 65535, 65535, 32768>>), (<<0, 0, 0, 32767>>)>>
               [] T = "i32" -> <<(<<65535, 65535, 32768, 0>>), (<<0, 0, 32767, 65535>>)>>
               [] T = "i64" -> <<(<<32768, 0, 0, 0>>), (<<32767, 65535, 65535, 65535>>)>>
LimOK(r) == /\ r.dims = r.want
            /\ IF IsInt(r.T)
               THEN r.lim[1] = IntLim(r.T)[1] /\ r.lim[2] = IntLim(r.T)[2] /\ r.lim[4] = <<0, 0, 0, 0>>
               ELSE LET f == Fmt(r.T)  v == DecAll(r.T, r.lim)
                    IN  /\ v[1] = I!FNeg(I!MaxFinite(f)) /\ v[2] = I!MaxFinite(f)
                        /\ v[3] = I!MinNormal(f)
                        /\ D!DEq(I!Val(f, v[4]), D!Pow2(1 - f.p))          \* 1 + e is the successor of 1
\* a default-constructed matrix, and any matrix after makeIdentity(), is the identity; M(a) holds a everywhere
Isqrt(n) == CHOOSE k \in 1..4 : k * k = n
IdentOK(r) == LET T == r.T  v == DecAll(T, r.out)  d == Isqrt(r.n)
              IN  \A i \in 1..r.n : LET want == IF (i - 1) \div d = (i - 1) % d THEN 1 ELSE 0
                                     IN  IF IsInt(T) THEN v[i] = want ELSE D!DEq(I!Val(Fmt(T), v[i]), D!DInt(want)) /\ v[i].sign = 0
FillOK(r) == LET T == r.T  v == DecAll(T, r.out)  a == Dec(T, r.a[1])
             IN  Len(v) = r.n /\ \A i \in 1..r.n : Same(T, v[i], a)

\* scalar * aggregate with a scalar of another type: the product is formed in the common type and converted once
MixOK(r) ==
    LET a == Dec(r.S, r.a[1])  h == DecAll(r.T, r.h)  out == DecAll(r.T, r.out) IN
    \A i \in 1..Len(h) :
      CASE r.S = "d" /\ r.T = "i32" -> D!DEq(D!DInt(out[i]), D!DMul(I!Val(I!Fmt64, a), D!DInt(h[i])))            \* the recorder keeps these products integral
        [] r.S = "d" /\ r.T = "f" -> Same("f", out[i], I!Convert(I!Fmt64, I!Fmt32, I!FOp(I!Fmt64, "mul", a, I!Convert(I!Fmt32, I!Fmt64, h[i]))))
        [] r.S = "f" /\ r.T = "d" -> Same("d", out[i], I!FOp(I!Fmt64, "mul", I!Convert(I!Fmt32, I!Fmt64, a), h[i]))
        [] OTHER -> FALSE

Judge(r) == CASE r.e = "aggmix" -> MixOK(r) [] r.e = "agglim" -> LimOK(r) [] r.e = "aggident" -> IdentOK(r) [] r.e = "aggfill" -> FillOK(r) [] r.e = "agg" -> AggOK(r) [] r.e = "aggeq" -> EqOK(r) [] r.e = "aggtol" -> TolOK(r)
              [] r.e = "agglayout" -> LayoutOK(r) [] r.e = "aggtext" -> TextOK(r) [] r.e = "aggconv" -> ConvOK(r) [] r.e = "aggtrait" -> TraitOK(r) [] OTHER -> FALSE
What(r) == IF r.e = "aggmix" THEN <<r.e, r.fam, r.S, r.T>> ELSE IF r.e = "agg" THEN <<r.e, r.fam, r.T, r.op, r.sp>> ELSE <<r.e, r.fam, r.T>>
Init == l = 1 /\ cur = <<>> /\ key = <<>>
Next == \/ /\ l <= TraceLen
           /\ LET r == Rec IN
              /\ IF Judge(r) THEN TRUE ELSE ReportBad(l, What(r))
              /\ cur' = IF r.e = "agg" THEN DecAll(r.T, r.acc) ELSE cur
              /\ key' = IF r.e = "agg" THEN Key(r) ELSE key
           /\ l' = l + 1
        \/ l = TraceLen + 1 /\ ReportDone(TraceLen) /\ l' = l + 1 /\ UNCHANGED <<cur, key>>
=============================================================================
