-------------------------------- MODULE MCFun --------------------------------
(* Model-level checks of Fun (no code): the four-way sign tables of divs/mods/divp/modp
   refine the definitions on a grid; hsv2rgb and rgb2hsv (as exact rational maps) are
   mutually inverse on the lattice k/8 of the unit cube; floor/ceil/trunc agree with their
   order-theoretic characterisation on a dyadic grid. *)
EXTENDS Fun
VARIABLES x, y
Init == x \in -40..40 /\ y \in -40..40
Next == UNCHANGED <<x, y>>
SignTables == y # 0 =>
    /\ TruncDivOK(x, y, AlgoDivs(x, y), AlgoMods(x, y))
    /\ PosDivOK(x, y, AlgoDivp(x, y), AlgoModp(x, y))
\* floor characterisation: n <= d < n + 1 for d = x / 8 + y / 64
FloorChar == LET d == D!DAdd(D!Dy(B!FromInt(x), -3), D!Dy(B!FromInt(y), -6))
                 n == FloorD(d)
             IN  /\ D!DLe(D!DInt(n), d) /\ D!DLt(d, D!DInt(n + 1))
                 /\ CeilD(d) = -FloorD(D!DNeg(d))
                 /\ TruncD(d) = (IF D!DSign(d) >= 0 THEN FloorD(d) ELSE CeilD(d))
\* colour: for (h,s,v) on the lattice, rgb2hsv(hsv2rgb(h,s,v)) = (h,s,v) as exact rationals
\* (h is arbitrary when s = 0 or v = 0; h = 1 is identified with 0)
L8(k) == D!Dy(B!FromInt(k), -3)
ColourInverse ==
    (x >= 0 /\ x <= 8 /\ y >= 1 /\ y <= 8) =>
      \A k \in 1..8 :
        LET h == L8(x)  s == L8(y)  v == L8(k)
            c == Hsv2Rgb(h, s, v)
            mx == Max3(c)  rg == D!DSub(mx, Min3(c))
            hn == HueNum(c)
            \* hue' * 6 * range = hn (mod 6 range); h = x/8
            lhs == D!DMul(D!DMul(D!DInt(6), rg), IF x = 8 THEN D!DZero ELSE h)
            diff == D!DSub(lhs, hn)
            period == D!DMul(D!DInt(6), rg)
        IN  /\ D!DEq(mx, v)                                   \* value
            /\ D!DEq(rg, D!DMul(s, mx))                       \* saturation = range / max
            /\ (D!DIsZero(diff) \/ D!DEq(diff, period) \/ D!DEq(D!DNeg(diff), period))
=============================================================================
