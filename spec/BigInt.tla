------------------------------- MODULE BigInt -------------------------------
(***************************************************************************)
(* Arbitrary-precision integers in plain TLA+.                             *)
(*                                                                         *)
(* TLC's integers are 32-bit and overflow is an evaluation error, so every *)
(* exact computation in the Imath specification is carried out on values   *)
(* of this module.  A big integer is a record                              *)
(*     [s |-> sign in {-1,0,1}, m |-> magnitude]                           *)
(* where the magnitude is a little-endian sequence of base-4096 limbs      *)
(* without a most-significant zero limb (so zero is [s|->0, m|-> <<>>]).   *)
(* Limb products are < 2^24; a column of a schoolbook product has at most  *)
(* min(Len a, Len b) terms, so with MaxMulLimbs = 120 every intermediate   *)
(* stays below 2^31.                                                       *)
(***************************************************************************)
EXTENDS Integers, Sequences, TLC

Base == 4096
LimbBits == 12
MaxMulLimbs == 120

Zero == [s |-> 0, m |-> <<>>]

----------------------------------------------------------------------------
\* magnitudes

RECURSIVE TrimM(_)
TrimM(m) == IF m = <<>> THEN m
            ELSE IF m[Len(m)] = 0 THEN TrimM(SubSeq(m, 1, Len(m) - 1)) ELSE m

Limb(m, i) == IF i <= Len(m) THEN m[i] ELSE 0

RECURSIVE CmpMR(_, _, _)
CmpMR(a, b, i) == IF i = 0 THEN 0
                  ELSE IF a[i] < b[i] THEN -1
                  ELSE IF a[i] > b[i] THEN 1
                  ELSE CmpMR(a, b, i - 1)

CmpM(a, b) == IF Len(a) < Len(b) THEN -1
              ELSE IF Len(a) > Len(b) THEN 1
              ELSE CmpMR(a, b, Len(a))

RECURSIVE AddMR(_, _, _, _, _)
AddMR(a, b, i, c, acc) ==
    IF i > Len(a) /\ i > Len(b)
    THEN (IF c = 0 THEN acc ELSE Append(acc, c))
    ELSE LET s == Limb(a, i) + Limb(b, i) + c
         IN  AddMR(a, b, i + 1, s \div Base, Append(acc, s % Base))

AddM(a, b) == AddMR(a, b, 1, 0, <<>>)

\* a - b for CmpM(a,b) >= 0
RECURSIVE SubMR(_, _, _, _, _)
SubMR(a, b, i, br, acc) ==
    IF i > Len(a) THEN acc
    ELSE LET d == a[i] - Limb(b, i) - br
         IN  IF d < 0 THEN SubMR(a, b, i + 1, 1, Append(acc, d + Base))
                      ELSE SubMR(a, b, i + 1, 0, Append(acc, d))

SubM(a, b) == TrimM(SubMR(a, b, 1, 0, <<>>))

\* column k (1-based) of the schoolbook product: sum of a[i]*b[k+1-i]
RECURSIVE ColSum(_, _, _, _, _, _)
ColSum(a, b, k, i, hi, acc) ==
    IF i > hi THEN acc
    ELSE ColSum(a, b, k, i + 1, hi, acc + a[i] * b[k + 1 - i])

RECURSIVE MulMR(_, _, _, _, _)
MulMR(a, b, k, c, acc) ==
    IF k > Len(a) + Len(b) THEN acc
    ELSE LET lo == IF k + 1 - Len(b) > 1 THEN k + 1 - Len(b) ELSE 1
             hi == IF k < Len(a) THEN k ELSE Len(a)
             s  == ColSum(a, b, k, lo, hi, c)
         IN  MulMR(a, b, k + 1, s \div Base, Append(acc, s % Base))

MulM(a, b) ==
    IF a = <<>> \/ b = <<>> THEN <<>>
    ELSE IF Len(a) > MaxMulLimbs /\ Len(b) > MaxMulLimbs
         THEN Assert(FALSE, "BigInt: operands too long")
         ELSE TrimM(MulMR(a, b, 1, 0, <<>>))

\* multiply a magnitude by a small non-negative integer k < 2^18
RECURSIVE MulSmallR(_, _, _, _, _)
MulSmallR(a, k, i, c, acc) ==
    IF i > Len(a) THEN (IF c = 0 THEN acc
                        ELSE IF c < Base THEN Append(acc, c)
                        ELSE Append(Append(acc, c % Base), c \div Base))
    ELSE LET s == a[i] * k + c
         IN  MulSmallR(a, k, i + 1, s \div Base, Append(acc, s % Base))

MulSmallM(a, k) == IF k = 0 \/ a = <<>> THEN <<>> ELSE MulSmallR(a, k, 1, 0, <<>>)

Pow2Small(n) == \* 2^n for n in 0..30
    CASE n = 0 -> 1 [] n = 1 -> 2 [] n = 2 -> 4 [] n = 3 -> 8 [] n = 4 -> 16
      [] n = 5 -> 32 [] n = 6 -> 64 [] n = 7 -> 128 [] n = 8 -> 256
      [] n = 9 -> 512 [] n = 10 -> 1024 [] n = 11 -> 2048 [] n = 12 -> 4096
      [] n = 13 -> 8192 [] n = 14 -> 16384 [] n = 15 -> 32768 [] n = 16 -> 65536
      [] n = 17 -> 131072 [] n = 18 -> 262144 [] n = 19 -> 524288
      [] n = 20 -> 1048576 [] n = 21 -> 2097152 [] n = 22 -> 4194304
      [] n = 23 -> 8388608 [] n = 24 -> 16777216 [] n = 25 -> 33554432
      [] n = 26 -> 67108864 [] n = 27 -> 134217728 [] n = 28 -> 268435456
      [] n = 29 -> 536870912 [] n = 30 -> 1073741824

ZeroLimbs(n) == [i \in 1..n |-> 0]

\* a * 2^n, n >= 0
ShiftLM(a, n) ==
    IF a = <<>> THEN a
    ELSE ZeroLimbs(n \div LimbBits) \o MulSmallM(a, Pow2Small(n % LimbBits))

\* number of significant bits of a limb (0..12)
LimbLen(x) ==
    CASE x = 0 -> 0 [] x = 1 -> 1 [] x >= 2 /\ x < 4 -> 2 [] x >= 4 /\ x < 8 -> 3
      [] x >= 8 /\ x < 16 -> 4 [] x >= 16 /\ x < 32 -> 5 [] x >= 32 /\ x < 64 -> 6
      [] x >= 64 /\ x < 128 -> 7 [] x >= 128 /\ x < 256 -> 8 [] x >= 256 /\ x < 512 -> 9
      [] x >= 512 /\ x < 1024 -> 10 [] x >= 1024 /\ x < 2048 -> 11 [] x >= 2048 -> 12

BitLenM(a) == IF a = <<>> THEN 0
              ELSE (Len(a) - 1) * LimbBits + LimbLen(a[Len(a)])

\* magnitude of a non-negative TLC integer
RECURSIVE NatM(_)
NatM(n) == IF n = 0 THEN <<>> ELSE <<n % Base>> \o NatM(n \div Base)

----------------------------------------------------------------------------
\* signed values

Mk(s, m) == IF m = <<>> THEN Zero ELSE [s |-> s, m |-> m]

FromInt(n) == IF n = 0 THEN Zero
              ELSE IF n > 0 THEN [s |-> 1, m |-> NatM(n)]
              ELSE IF n = -2147483647 - 1
                   THEN [s |-> -1, m |-> <<0, 0, 2048>>]
                   ELSE [s |-> -1, m |-> NatM(-n)]

Neg(a) == [s |-> -a.s, m |-> a.m]
Abs(a) == [s |-> IF a.s = 0 THEN 0 ELSE 1, m |-> a.m]
Sign(a) == a.s
IsZero(a) == a.s = 0

Add(a, b) ==
    IF a.s = 0 THEN b
    ELSE IF b.s = 0 THEN a
    ELSE IF a.s = b.s THEN [s |-> a.s, m |-> AddM(a.m, b.m)]
    ELSE LET c == CmpM(a.m, b.m)
         IN  IF c = 0 THEN Zero
             ELSE IF c > 0 THEN [s |-> a.s, m |-> SubM(a.m, b.m)]
             ELSE [s |-> b.s, m |-> SubM(b.m, a.m)]

Sub(a, b) == Add(a, Neg(b))

Mul(a, b) == IF a.s = 0 \/ b.s = 0 THEN Zero
             ELSE [s |-> a.s * b.s, m |-> MulM(a.m, b.m)]

MulInt(a, k) == Mul(a, FromInt(k))

ShiftL(a, n) == IF a.s = 0 THEN Zero ELSE [s |-> a.s, m |-> ShiftLM(a.m, n)]

Cmp(a, b) ==
    IF a.s # b.s THEN (IF a.s < b.s THEN -1 ELSE 1)
    ELSE IF a.s = 0 THEN 0
    ELSE a.s * CmpM(a.m, b.m)

Lt(a, b) == Cmp(a, b) < 0
Le(a, b) == Cmp(a, b) <= 0
Eq(a, b) == Cmp(a, b) = 0

BitLen(a) == BitLenM(a.m)
IsEven(a) == a.s = 0 \/ a.m[1] % 2 = 0

\* number of trailing zero bits of a non-zero value
RECURSIVE LimbTz(_)
LimbTz(x) == IF x % 2 = 1 THEN 0 ELSE 1 + LimbTz(x \div 2)     \* x # 0

\* value as a TLC integer; only for |a| < 2^31
RECURSIVE ToNatM(_)
ToNatM(m) == IF m = <<>> THEN 0 ELSE m[1] + Base * ToNatM(Tail(m))
FitsInt(a) == BitLen(a) <= 30
ToInt(a) == a.s * ToNatM(a.m)

\* value of a sequence of 16-bit words, most significant first (as logged)
RECURSIVE FromWords16R(_, _, _)
FromWords16R(ws, i, acc) ==
    IF i > Len(ws) THEN acc
    ELSE FromWords16R(ws, i + 1,
           AddM(ShiftLM(acc, 16), NatM(ws[i])))
FromWords16(ws) == Mk(1, FromWords16R(ws, 1, <<>>))

=============================================================================
