------------------------------- MODULE LinAlg -------------------------------
(* LinAlgCore on exact dyadics, plus the rounding-bound relation used to judge
   floating-point results: |result - Value(p)| <= K * eps * AbsSum(p) (+ a floor of a
   few subnormal units), with eps the machine epsilon of the working format. *)
EXTENDS Integers, Sequences, FiniteSets, TLC
B == INSTANCE BigInt
D == INSTANCE Dyadic
I == INSTANCE IEEE754
INSTANCE LinAlgCore WITH NZero <- D!DZero, NOne <- D!DOne, NMul <- D!DMul, NAdd <- D!DAdd, NNeg <- D!DNeg, NAbs <- D!DAbs

Fm(t) == I!FmtOf(t)
Num(t, w) == I!Val(Fm(t), I!Dec(t, w))                  \* value of one logged number
Nums(t, ws) == [i \in 1..Len(ws) |-> Num(t, ws[i])]
Mat(t, ws, n, m) == [i \in 1..n |-> [j \in 1..m |-> Num(t, ws[(i - 1) * m + j])]]
FinAll(t, ws) == \A i \in 1..Len(ws) : I!IsFinite(Fm(t), I!Dec(t, ws[i]))
Eps(t) == D!Pow2(-(Fm(t).p - 1))
Tiny(t) == I!Val(Fm(t), I!MinSub(Fm(t)))
\* the bound for a sum-of-products with n terms
KOf(n) == 8 * (n + 2)
Tol(t, pp_) == D!DAdd(D!DMul(D!DMul(D!DInt(KOf(Len(pp_))), Eps(t)), AbsSum(pp_)), D!DMul(D!DInt(KOf(Len(pp_))), Tiny(t)))
\* a logged result word r is within the bound of polynomial p
\* (formal parameters carry unusual names on purpose: TLC evaluates arguments lazily, and an argument
\*  expression such as r.q[j] must not mention an identifier that is also a formal parameter here)
Within(t, rw_, pp_) == I!IsFinite(Fm(t), I!Dec(t, rw_)) /\ D!DWithin(Num(t, rw_), Value(pp_), Tol(t, pp_))
\* quotient N/W: |r*W - N| <= tolN + |r| * tolW   (W # 0)
WithinQuot(t, rw_, pn_, pw_) ==
    /\ I!IsFinite(Fm(t), I!Dec(t, rw_))
    /\ D!DCmpAbs(D!DSub(D!DMul(Num(t, rw_), Value(pw_)), Value(pn_)),
                 D!DAdd(D!DAdd(Tol(t, pn_), D!DMul(D!DAbs(Num(t, rw_)), Tol(t, pw_))),
                        D!DMul(D!DMul(D!DInt(4), Eps(t)), D!DAbs(Value(pn_))))) <= 0
WithinVec(t, rs_, ps_) == Len(rs_) = Len(ps_) /\ \A i \in 1..Len(ps_) : Within(t, rs_[i], ps_[i])
Flatten(P) == LET n == Len(P)  m == Len(P[1]) IN [k \in 1..(n * m) |-> P[((k - 1) \div m) + 1][((k - 1) % m) + 1]]
=============================================================================
