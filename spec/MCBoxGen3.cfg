CONSTANTS D = 3 Coords <- CoordsC MaxDepth = 5
INIT GInit
NEXT GNext
INVARIANT Export
INVARIANT Minimal
CHECK_DEADLOCK FALSE
