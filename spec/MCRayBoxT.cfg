CONSTANTS BoxC = {0, 1, 3} PosC <- PosT DirC <- DirT
GridDen = 2 GridMax = 12
INIT Init
NEXT Next
INVARIANT CandIsEnough
INVARIANT SlabAgrees
INVARIANT FirstIsFirst
CHECK_DEADLOCK FALSE
