------------------------------- MODULE PyMisc -------------------------------
(***************************************************************************)
(* The remaining C19 clauses, as definitions over Python sequence          *)
(* semantics (PyArray!PyIndex / SliceDef):                                 *)
(*  - buffer export: the view describes exactly the array's memory         *)
(*    (len = product(shape) * itemsize, shape = (n) or (n, width), items   *)
(*    in element order, readonly iff the array is read-only, stays valid   *)
(*    after the array object is released);                                 *)
(*  - ...ArrayFromBuffer: accepts exactly the buffers whose element type,  *)
(*    item size and row width match, and then copies exactly the source;   *)
(*  - FixedArray2D / FixedMatrix: index and forward-slice selection per    *)
(*    dimension as nested Python lists;                                    *)
(*  - StringArray: an element reads back the last string stored there.     *)
(***************************************************************************)
EXTENDS PyArray

SizeOf(f) == CASE f \in {"b", "B"} -> 1 [] f \in {"h", "H", "e"} -> 2 [] f \in {"i", "I", "f"} -> 4
               [] f \in {"l", "L", "q", "Q", "d"} -> 8 [] OTHER -> 0
\* element format of each array class that exports a buffer
ClassFmt(c) == CASE c \in {"IntArray", "V2iArray", "V3iArray", "V4iArray"} -> {"i"}
                 [] c \in {"FloatArray", "V2fArray", "V3fArray", "V4fArray"} -> {"f"}
                 [] c \in {"DoubleArray", "V2dArray", "V3dArray", "V4dArray"} -> {"d"}
                 [] c \in {"ShortArray", "V2sArray", "V3sArray", "V4sArray"} -> {"h"}
                 [] c = "UnsignedCharArray" -> {"B"}
                 [] c \in {"V2i64Array", "V3i64Array", "V4i64Array", "Int64Array"} -> {"l", "q"}
                 [] OTHER -> {}
RECURSIVE Prod(_, _)
Prod(s, k) == IF k > Len(s) THEN 1 ELSE s[k] * Prod(s, k + 1)
RECURSIVE Flat(_, _)
Flat(es, k) == IF k > Len(es) THEN <<>> ELSE es[k] \o Flat(es, k + 1)

MviewOK(r) ==
    /\ r.exc = 0
    /\ r.shape = (IF r.w = 1 THEN <<r.n>> ELSE <<r.n, r.w>>)
    /\ r.ndim = Len(r.shape)
    /\ r.format \in ClassFmt(r.cls)
    /\ r.itemsize = SizeOf(r.format)
    /\ r.nbytes = Prod(r.shape, 1) * r.itemsize
    /\ r.vals = Flat(r.elems, 1)
    /\ r.ro = r.madero
    /\ r.stable = 1

FnFmt(fn) == CASE fn = "Int64ArrayFromBuffer" -> "l" [] fn \in {"IntArrayFromBuffer", "V2iArrayFromBuffer", "V3iArrayFromBuffer", "V4iArrayFromBuffer"} -> "i"
               [] fn \in {"FloatArrayFromBuffer", "V2fArrayFromBuffer", "V3fArrayFromBuffer", "V4fArrayFromBuffer"} -> "f"
               [] OTHER -> "d"
FnWidth(fn) == CASE fn \in {"Int64ArrayFromBuffer", "IntArrayFromBuffer", "FloatArrayFromBuffer", "DoubleArrayFromBuffer"} -> 1
                 [] fn \in {"V2iArrayFromBuffer", "V2fArrayFromBuffer", "V2dArrayFromBuffer"} -> 2
                 [] fn \in {"V3iArrayFromBuffer", "V3fArrayFromBuffer", "V3dArrayFromBuffer"} -> 3
                 [] OTHER -> 4
FromBufOK(r) ==
    LET w == FnWidth(r.fn)
        match == /\ r.fmt = FnFmt(r.fn)
                 /\ r.itemsize = SizeOf(FnFmt(r.fn))
                 /\ IF w = 1 THEN r.ndim = 1 ELSE (r.ndim = 2 /\ r.shape[2] = w)
                 /\ r.contig = 1                    \* a strided or reversed view does not describe one block of memory: rejected
        rows == r.shape[1]
    IN  IF match
        THEN r.exc = 0 /\ r.out = [i \in 1..rows |-> [j \in 1..w |-> r.vals[(i - 1) * w + j]]]
        ELSE r.exc = 1

\* one dimension of a 2-D selection: an integer index or a forward slice
Sel(n, key, isint) == IF isint = 1 THEN (IF PyIndex(n, key) >= 0 THEN <<PyIndex(n, key)>> ELSE <<-1>>)
                      ELSE SliceDef(n, key)
Bad(n, key, isint) == isint = 1 /\ PyIndex(n, key) < 0
V2(x, y) == 10 * x + y + 1

Get2DOK(r) ==
    IF Bad(r.nx, r.kx, r.ix) \/ Bad(r.ny, r.ky, r.iy) THEN r.exc = 1
    ELSE LET sx == Sel(r.nx, r.kx, r.ix)  sy == Sel(r.ny, r.ky, r.iy)
         IN  /\ r.exc = 0
             /\ r.size = <<Len(sx), Len(sy)>>
             /\ r.out = [i \in 1..Len(sx) |-> [j \in 1..Len(sy) |-> V2(sx[i], sy[j])]]
InSeq(v, s) == \E k \in 1..Len(s) : s[k] = v
Set2DOK(r) ==
    IF Bad(r.nx, r.kx, r.ix) \/ Bad(r.ny, r.ky, r.iy)
    THEN r.exc = 1 /\ r.full = [x \in 1..r.nx |-> [y \in 1..r.ny |-> V2(x - 1, y - 1)]]
    ELSE LET sx == Sel(r.nx, r.kx, r.ix)  sy == Sel(r.ny, r.ky, r.iy)
         IN  /\ r.exc = 0
             /\ r.full = [x \in 1..r.nx |-> [y \in 1..r.ny |->
                            IF InSeq(x - 1, sx) /\ InSeq(y - 1, sy) THEN r.v ELSE V2(x - 1, y - 1)]]

PosOf(x, sq) == CHOOSE q \in 1..Len(sq) : sq[q] = x
\* a[kx, ky] = <1-D array of srclen values 500, 501, ...>: consumed with x varying fastest over the selected block
Set2D1OK(r) ==
    LET same == [x \in 1..r.nx |-> [y \in 1..r.ny |-> V2(x - 1, y - 1)]] IN
    IF Bad(r.nx, r.kx, r.ix) \/ Bad(r.ny, r.ky, r.iy) THEN r.exc = 1 /\ r.full = same
    ELSE LET sx == Sel(r.nx, r.kx, r.ix)  sy == Sel(r.ny, r.ky, r.iy) IN
         IF r.srclen # Len(sx) * Len(sy) THEN r.exc = 1 /\ r.full = same
         ELSE /\ r.exc = 0
              /\ r.full = [x \in 1..r.nx |-> [y \in 1..r.ny |->
                             IF InSeq(x - 1, sx) /\ InSeq(y - 1, sy)
                             THEN 500 + (PosOf(y - 1, sy) - 1) * Len(sx) + (PosOf(x - 1, sx) - 1)
                             ELSE V2(x - 1, y - 1)]]
\* an index that is not a pair raises, whatever the source, and changes nothing
Set2DBadOK(r) == r.exc = 1 /\ r.full = [x \in 1..2 |-> [y \in 1..2 |-> V2(x - 1, y - 1)]]

\* 2-D operands must have the same shape (not merely the same number of elements);
\* setmask writes v where mask # 0; ifelse keeps a where mask # 0, else the scalar; add is element-wise
Mask2DOK(r) ==
    LET A(x, y) == V2(x - 1, y - 1)
        Bv(x, y) == 100 + 10 * (x - 1) + (y - 1)
    IN  IF r.ax # r.bx \/ r.ay # r.by
        THEN r.exc = 1 /\ r.a = [x \in 1..r.ax |-> [y \in 1..r.ay |-> A(x, y)]]
        ELSE /\ r.exc = 0
             /\ r.out = [x \in 1..r.ax |-> [y \in 1..r.ay |->
                          CASE r.op = "setmask" -> (IF r.mask[x][y] # 0 THEN 7 ELSE A(x, y))
                            [] r.op = "ifelse" -> (IF r.mask[x][y] # 0 THEN A(x, y) ELSE 7)
                            [] OTHER -> A(x, y) + Bv(x, y)]]

MatOK(r) ==
    IF Bad(r.nr, r.key, r.isint) THEN r.exc = 1
    ELSE LET sr == Sel(r.nr, r.key, r.isint)
         IN  r.exc = 0 /\ r.rows = [i \in 1..Len(sr) |-> [c \in 1..r.nc |-> V2(sr[i], c - 1)]]

\* last write wins, per (normalised) index
StrOK(r) ==
    /\ r.len = r.n
    /\ \A i \in 0..(r.n - 1) :
         LET W == {k \in 1..Len(r.ops) : PyIndex(r.n, r.ops[k].i) = i}
         IN  r.final[i + 1] = (IF W = {} THEN "" ELSE r.ops[CHOOSE k \in W : \A j \in W : j <= k].v)

\* sequences of stores into one string array, contents read back after every operation: each store writes exactly the
\* positions the same statement selects on a Python list (the string tables of source and destination never matter);
\* a store whose source has the wrong length raises and changes nothing
StrStep(cur, op) ==
    LET n == Len(cur) IN
    CASE op.k = "set" -> [ok |-> TRUE, v |-> [i \in 1..n |-> IF i - 1 = PyIndex(n, op.i) THEN op.v ELSE cur[i]]]
      [] op.k = "slice" -> LET pos == SliceDef(n, op.key) IN [ok |-> TRUE, v |-> [i \in 1..n |-> IF InSeq(i - 1, pos) THEN op.v ELSE cur[i]]]
      [] op.k = "slicevec" -> LET pos == SliceDef(n, op.key) IN
                              IF Len(pos) # Len(op.src) THEN [ok |-> FALSE, v |-> cur]
                              ELSE [ok |-> TRUE, v |-> [i \in 1..n |-> IF InSeq(i - 1, pos) THEN op.src[PosOf(i - 1, pos)] ELSE cur[i]]]
      [] op.k = "mask" -> [ok |-> TRUE, v |-> [i \in 1..n |-> IF op.m[i] # 0 THEN op.v ELSE cur[i]]]
      [] op.k = "maskvec" -> LET sel == SelIdx(op.m) IN
                             IF Len(op.src) = n THEN [ok |-> TRUE, v |-> [i \in 1..n |-> IF op.m[i] # 0 THEN op.src[i] ELSE cur[i]]]
                             ELSE IF Len(op.src) = Len(sel) THEN [ok |-> TRUE, v |-> [i \in 1..n |-> IF op.m[i] # 0 THEN op.src[PosOf(i - 1, sel)] ELSE cur[i]]]
                             ELSE [ok |-> FALSE, v |-> cur]
StrSeqOK(r) ==
    /\ r.len = r.n /\ Len(r.states) = Len(r.ops) + 1
    /\ \A k \in 1..Len(r.ops) :
         LET st == StrStep(r.states[k], r.ops[k]) IN
         /\ (r.ops[k].exc = 1) = ~st.ok
         /\ r.states[k + 1] = st.v

\* DstArray(src): the selected values (first components; all values are small integers, exact in every element type), in a
\* plain, writable, independent array that survives the release of its source
ConvOK(r) ==
    LET sel == SelectSeq(r.vals, LAMBDA v : TRUE)
        idx == SelIdx(r.mask)
        want == [k \in 1..Len(idx) |-> r.vals[idx[k] + 1]]
    IN  /\ r.exc = 0
        /\ r.len = Len(want) /\ r.out = want
        /\ r.srcafter = r.vals                                        \* writing to the copy does not reach the source
        /\ r.wrote = (IF Len(want) > 0 THEN 1 ELSE 0)                  \* the copy is writable even when the source is not
        /\ r.after = [k \in 1..Len(want) |-> IF k = 1 THEN 60 ELSE want[k]]

\* the component view of a masked reference: the components of the SELECTED elements (as read element by element), and a
\* write to its second entry reaches the second selected element (0-based position SelIdx(mask)[2]); raising is not accepted
\* as an answer here: the accessor exists for masked references too
MaskCompOK(r) == /\ r.exc = 0
                 /\ r.out = r.want_from_elements
                 /\ r.wrote = <<SelIdx(r.mask)[2]>>

\* a view derived from a row still shows the row's elements after the matrix / variable array has been released
RowViewOK(r) == r.got = r.want

\* a consumer of a plain buffer and a strided array: refused, or served with the array's own elements (and a writer leaves
\* the other components alone)
SimpleBufOK(r) == /\ (r.exc = 1 \/ r.got = r.want)
                  /\ ("others_same" \in DOMAIN r => r.others_same = 1)

\* an index beyond the range of the C index type is out of range: raises, nothing changes
HugeIdxOK(r) == r.exc = 1 /\ r.unchanged = 1

\* FixedVArray: a Python list of lists.  Row i of the array built from sizes s is  [V2(i, j) : j < s[i]].
VRow(i, m) == [j \in 1..m |-> V2(i, j - 1)]
VFull(sizes) == [i \in 1..Len(sizes) |-> VRow(i - 1, sizes[i])]
VArrOK(r) ==
    LET n == Len(r.sizes)  old == VFull(r.sizes) IN
    CASE r.op = "size" -> r.len = n /\ r.out = r.sizes /\ r.full = old
      [] r.op = "get" ->
           IF Bad(n, r.key, r.isint) THEN r.exc = 1
           ELSE LET sel == Sel(n, r.key, r.isint) IN r.exc = 0 /\ r.rows = [k \in 1..Len(sel) |-> old[sel[k] + 1]]
      [] r.op = "getmask" ->
           LET picked == SelectSeq([i \in 1..n |-> i], LAMBDA i : r.mask[i] # 0) IN
           r.exc = 0 /\ r.rows = [k \in 1..Len(picked) |-> old[picked[k]]]
      [] r.op = "setrow" ->          \* every selected row := data (100, 101, ...); lengths must agree
           IF Bad(n, r.key, r.isint) THEN r.exc = 1 /\ r.full = old
           ELSE LET sel == Sel(n, r.key, r.isint)
                    data == [j \in 1..r.m |-> 99 + j]
                    allfit == \A k \in 1..Len(sel) : r.sizes[sel[k] + 1] = r.m
                IN  IF allfit
                    THEN r.exc = 0 /\ r.full = [i \in 1..n |-> IF InSeq(i - 1, sel) THEN data ELSE old[i]]
                    ELSE \* raises; rows written before the mismatch was met may already hold the data, nothing else changes
                         /\ r.exc = 1 /\ Len(r.full) = n
                         /\ \A i \in 1..n : r.full[i] = old[i] \/ (InSeq(i - 1, sel) /\ r.sizes[i] = r.m /\ r.full[i] = data)
      [] r.op = "setvec" ->          \* selected rows := rows of another variable array (200 + 10 k + j), one for one
           IF Bad(n, r.key, r.isint) THEN r.exc = 1 /\ r.full = old
           ELSE LET sel == Sel(n, r.key, r.isint)
                    drow(k) == [j \in 1..r.ds[k] |-> 200 + 10 * (k - 1) + (j - 1)]
                    posOf(i) == CHOOSE k \in 1..Len(sel) : sel[k] = i - 1
                IN  IF Len(sel) = Len(r.ds)
                    THEN r.exc = 0 /\ r.full = [i \in 1..n |-> IF InSeq(i - 1, sel) THEN drow(posOf(i)) ELSE old[i]]
                    ELSE r.exc = 1 /\ r.full = old
      [] r.op = "view" ->            \* a row view aliases the array and outlives it
           IF PyIndex(n, r.i) < 0 THEN r.exc = 1
           ELSE LET i == PyIndex(n, r.i) + 1  m == r.sizes[i] IN
                /\ r.exc = 0
                /\ r.row = [j \in 1..m |-> IF j = 1 THEN 55 ELSE old[i][j]]
                /\ r.alias = (IF m > 0 THEN 1 ELSE 0)
      [] r.op = "ro" -> r.raised = r.tried /\ r.writable = 0 /\ r.full = old
      [] OTHER -> FALSE
=============================================================================
