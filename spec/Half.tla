-------------------------------- MODULE Half --------------------------------
(***************************************************************************)
(* The 16-bit `half' type of Imath (properties C01, C02, C03).             *)
(*                                                                         *)
(* Definition layer: conversions as value semantics over IEEE754           *)
(* (H2F, F2HRel, F2H), compound arithmetic as "convert, operate once in    *)
(* float, convert back", classes, limits as extremal elements, round(n),   *)
(* the halfFunction lookup table.                                          *)
(* Implementation-shaped layer: AlgoF2H / AlgoH2F transcribe the branch    *)
(* structure of half.h (threshold compares, add-0xfff-plus-lsb, subnormal  *)
(* shift with sticky test, clz renormalisation).  MCHalf checks that the   *)
(* two layers agree.                                                       *)
(***************************************************************************)
EXTENDS Integers, Sequences, TLC
B == INSTANCE BigInt
D == INSTANCE Dyadic
I == INSTANCE IEEE754

H == I!Fmt16
S == I!Fmt32

P2(n) == B!Pow2Small(n)

----------------------------------------------------------------------------
\* Definition layer: conversions

\* top ten payload bits of a float NaN's 23-bit fraction
Top10(fm) == B!ToNatM(fm) \div 8192

\* half -> float: the binary32 datum denoting the same value; NaN keeps sign
\* and payload (payload moves to the top of the wider fraction)
H2F(h) ==
    IF I!IsNaN(H, h) THEN I!F(h.sign, 255, B!NatM(B!ToNatM(h.fm) * 8192))
    ELSE IF I!IsInf(H, h) THEN I!Inf(S, h.sign)
    ELSE I!Round(S, I!Val(H, h), h.sign)

\* float -> half, as a relation between a float datum x and a half datum h
F2HRelGen(x, h, exactPayload) ==
    IF I!IsNaN(S, x)
    THEN /\ I!IsNaN(H, h)
         /\ h.sign = x.sign
         /\ (exactPayload =>
               B!ToNatM(h.fm) = (IF Top10(x.fm) = 0 THEN 1 ELSE Top10(x.fm)))
    ELSE /\ h.sign = x.sign
         /\ IF I!IsInf(S, x) THEN I!IsInf(H, h)
            ELSE I!IsRNE(H, I!Val(S, x), h)

F2HRel(x, h)     == F2HRelGen(x, h, TRUE)      \* software paths
F2HRelF16C(x, h) == F2HRelGen(x, h, FALSE)     \* hardware path: any payload

\* float -> half as a function (software NaN rule)
F2H(x) ==
    IF I!IsNaN(S, x)
    THEN I!F(x.sign, 31, B!NatM(IF Top10(x.fm) = 0 THEN 1 ELSE Top10(x.fm)))
    ELSE IF I!IsInf(S, x) THEN I!Inf(H, x.sign)
    ELSE I!Round(H, I!Val(S, x), x.sign)

----------------------------------------------------------------------------
\* Implementation-shaped layer: half.h transcribed on (sign, 31-bit magnitude)

\* imath_float_to_half, bit-shift path.  ui is v.i & 0x7fffffff.
AlgoF2H(sign, ui) ==
    LET ret == sign * 32768 IN
    IF ui >= 947912704                                   \* 0x38800000
    THEN IF ui >= 2139095040                             \* 0x7f800000: inf or nan
         THEN IF ui = 2139095040 THEN ret + 31744        \* 0x7c00
              ELSE LET m == (ui % 8388608) \div 8192
                   IN  ret + 31744 + (IF m = 0 THEN 1 ELSE m)
         ELSE IF ui > 1199566847                         \* 0x477fefff: to infinity
         THEN ret + 31744
         ELSE LET u2 == ui - 939524096                   \* 0x38000000
              IN  ret + ((u2 + 4095 + ((u2 \div 8192) % 2)) \div 8192)
    ELSE IF ui < 855638017                               \* 0x33000001: to zero
    THEN ret
    ELSE LET e     == ui \div 8388608                    \* subnormal result
             shift == 126 - e
             m     == 8388608 + (ui % 8388608)
             \* r = m << (32 - shift) keeps the low `shift' bits of m at the
             \* top of the word; compared here scaled down by 2^(32-shift)
             rem   == m % P2(shift)
             half  == P2(shift - 1)
             q     == m \div P2(shift)
         IN  IF rem > half \/ (rem = half /\ q % 2 # 0) THEN ret + q + 1 ELSE ret + q

\* imath_half_to_float, bit-shift path; returns <<sign, 31-bit magnitude>>
BitLen32(x) == B!BitLenM(B!NatM(x))
AlgoH2F(h) ==
    LET hexpmant == (h % 32768) * 8192
        sign == h \div 32768
    IN  IF hexpmant >= 8388608                            \* 0x00800000
        THEN IF hexpmant < 260046848                      \* 0x0f800000: normal
             THEN <<sign, hexpmant + 939524096>>          \* += 0x38000000
             ELSE <<sign, 2139095040 + (hexpmant % 8388608)>>   \* |= 0x7f800000
        ELSE IF hexpmant # 0
        THEN LET lc == 24 - BitLen32(hexpmant)            \* clz - 8
             IN  <<sign, 939524096 + hexpmant * P2(lc) - lc * 8388608>>
        ELSE <<sign, 0>>

Words32(sm) == <<sm[1] * 32768 + sm[2] \div 65536, sm[2] % 65536>>

----------------------------------------------------------------------------
\* C03: arithmetic, classes, limits, round(n), lookup table

\* a op= rhs where rhs has already been widened to float
CompoundRel(op, a, rhs32, r) ==
    LET t == I!FOp(S, op, H2F(a), rhs32)
    IN  IF I!IsNaN(S, t) THEN I!IsNaN(H, r) ELSE r = F2H(t)

NegBits(h) == IF h >= 32768 THEN h - 32768 ELSE h + 32768

\* the five classes as the code names them
ClassName(h) == LET c == I!Class(H, h)
                IN  CASE c = "zero" -> "zero" [] c = "sub" -> "denormalized"
                      [] c = "norm" -> "normalized" [] c = "inf" -> "infinity"
                      [] c = "nan" -> "nan"
\* classification of the float value of a half (what fpclassify must say)
FloatClassOf(h) == LET c == I!Class(H, h)
                   IN  CASE c = "zero" -> "zero" [] c = "sub" -> "normal"
                         [] c = "norm" -> "normal" [] c = "inf" -> "inf"
                         [] c = "nan" -> "nan"

\* limits as extremal elements of the set of half data
AllHalf == 0..65535
PosFinite == {b \in 0..31743 : TRUE}
LimitMax        == 31743                    \* checked extremal in MCHalf
LimitMinNormal  == 1024
LimitDenormMin  == 1
LimitEpsilon    == 5120                     \* Succ(1.0) - 1.0 = 2^-10
One16 == 15360

\* round(n): keep n significand bits.  Relation between h and r (bit words).
\* Stated for finite or infinite h; NaN is left to the code (Deviation_RoundNaN).
RoundRel(h, n, r) ==
    LET x == I!Dec16(h)  y == I!Dec16(r)
    IN  IF n >= 10 THEN r = h
        ELSE
        LET k == 10 - n
            lowmask == P2(k)
            mag  == h % 32768
            rmag == r % 32768
            dn   == mag - (mag % lowmask)              \* truncation
            up   == dn + lowmask                       \* next multiple
        IN  /\ y.sign = x.sign
            /\ (I!IsFinite(H, x) <=> I!IsFinite(H, y))
            /\ rmag % lowmask = 0
            /\ IF I!IsInf(H, x) THEN rmag = 31744
               ELSE \* nearest multiple, ties upward in magnitude, unless that is >= 0x7c00
                    LET rem == mag % lowmask
                        wantUp == 2 * rem >= lowmask
                    IN  IF wantUp /\ up < 31744 THEN rmag = up ELSE rmag = dn

\* within half a unit of n-bit precision (a consequence checked in MCHalf)
RoundWithinHalfUnit(h, n, r) ==
    n >= 10 \/ LET k == 10 - n IN
       LET mag == h % 32768  rmag == r % 32768
           diff == IF mag > rmag THEN mag - rmag ELSE rmag - mag
       IN  2 * diff <= P2(k) \/ (mag + P2(k) \div 2 >= 31744)   \* truncation case

\* halfFunction<T>: a table built from f over all 65536 patterns
\* Build parameters: dmin, dmax (half words), and four designated values.
\* f is the harness' function f(x) = x.bits() (the identity on patterns).
LutValue(p, xw) ==
    LET x == I!Dec16(xw)
    IN  IF I!IsNaN(H, x) THEN p.nan
        ELSE IF I!IsInf(H, x) THEN (IF x.sign = 1 THEN p.ninf ELSE p.pinf)
        ELSE IF /\ D!DLe(I!Val(H, I!Dec16(p.dmin)), I!Val(H, x))
                /\ D!DLe(I!Val(H, x), I!Val(H, I!Dec16(p.dmax)))
             THEN xw ELSE p.dflt

=============================================================================
