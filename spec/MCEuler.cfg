INIT Init
NEXT Next
INVARIANT Bijection
INVARIANT FieldsBinary
INVARIANT Exactly24
INVARIANT PermInverse
INVARIANT ExportTable
CHECK_DEADLOCK FALSE
