CONSTANTS N = 3 MaxDepth = 3
INIT Init
NEXT Next
INVARIANT SlotLocal
CHECK_DEADLOCK FALSE
