----------------------------- MODULE LinAlgCore -----------------------------
(***************************************************************************)
(* Textbook linear algebra over an abstract exact number type (C05, C06,   *)
(* C09-C12).  Every quantity is a *polynomial in the operands*, kept as a  *)
(* sequence of signed terms, each term a sequence of factors, so that both *)
(*     Value(p)  = sum of products            (the algebraic definition)   *)
(*     AbsSum(p) = sum of |products|          (the scale of its rounding   *)
(*                                             error bound)                *)
(* are available.  Instantiated with exact dyadics (LinAlg) for validating *)
(* recorded calls and with TLC integers (MCLinAlg) for checking the        *)
(* algebraic identities of these definitions themselves.                   *)
(* Conventions of the library: vectors are rows, (v*M)_j = sum_i v_i M_ij; *)
(* matrices are sequences of rows.                                         *)
(***************************************************************************)
EXTENDS Integers, Sequences, FiniteSets, TLC
CONSTANTS NZero, NOne, NMul(_, _), NAdd(_, _), NNeg(_), NAbs(_)

RECURSIVE ProdR(_, _)
ProdR(fs, k) == IF k > Len(fs) THEN NOne ELSE NMul(fs[k], ProdR(fs, k + 1))
Prod(fs) == ProdR(fs, 1)
RECURSIVE SumR(_, _)
SumR(xs, k) == IF k > Len(xs) THEN NZero ELSE NAdd(xs[k], SumR(xs, k + 1))
Sum(xs) == SumR(xs, 1)
Value(p) == Sum([k \in 1..Len(p) |-> Prod(p[k])])
AbsSum(p) == Sum([k \in 1..Len(p) |-> NAbs(Prod(p[k]))])

Neg1 == NNeg(NOne)
\* polynomial algebra on term lists
PNeg(p) == [k \in 1..Len(p) |-> <<Neg1>> \o p[k]]
PAdd(p, q) == p \o q
PSub(p, q) == p \o PNeg(q)
PMulTerm(p, t) == [k \in 1..Len(p) |-> p[k] \o t]
RECURSIVE PMulR(_, _, _)
PMulR(p, q, k) == IF k > Len(q) THEN <<>> ELSE PMulTerm(p, q[k]) \o PMulR(p, q, k + 1)
PMul(p, q) == PMulR(p, q, 1)
PConst(x) == <<<<x>>>>
PZero == <<>>

\* vectors / matrices of numbers -> polynomials
Dot(a, b) == [i \in 1..Len(a) |-> <<a[i], b[i]>>]
Cross2(a, b) == <<<<a[1], b[2]>>, <<Neg1, a[2], b[1]>>>>
Cross3(a, b) == << <<<<a[2], b[3]>>, <<Neg1, a[3], b[2]>>>>,
                   <<<<a[3], b[1]>>, <<Neg1, a[1], b[3]>>>>,
                   <<<<a[1], b[2]>>, <<Neg1, a[2], b[1]>>>> >>
\* quaternions <<r, x, y, z>>: (r1 r2 - v1.v2, r1 v2 + r2 v1 + v1 x v2)
QuatMul(p, q) ==
    << <<<<p[1], q[1]>>, <<Neg1, p[2], q[2]>>, <<Neg1, p[3], q[3]>>, <<Neg1, p[4], q[4]>>>>,
       <<<<p[1], q[2]>>, <<p[2], q[1]>>, <<p[3], q[4]>>, <<Neg1, p[4], q[3]>>>>,
       <<<<p[1], q[3]>>, <<p[3], q[1]>>, <<p[4], q[2]>>, <<Neg1, p[2], q[4]>>>>,
       <<<<p[1], q[4]>>, <<p[4], q[1]>>, <<p[2], q[3]>>, <<Neg1, p[3], q[2]>>>> >>
MatMul(A, B) == [i \in 1..Len(A) |-> [j \in 1..Len(B[1]) |-> [k \in 1..Len(B) |-> <<A[i][k], B[k][j]>>]]]
VecMat(v, M) == [j \in 1..Len(M[1]) |-> [i \in 1..Len(v) |-> <<v[i], M[i][j]>>]]
\* homogeneous: append 1 to v (M has Len(v)+1 rows); component j of the numerator row
VecMatH(v, M) == [j \in 1..Len(M[1]) |-> [i \in 1..Len(v) |-> <<v[i], M[i][j]>>] \o <<<<M[Len(v) + 1][j]>>>>]
\* direction: ignore the last row and column
DirMat(v, M) == [j \in 1..Len(v) |-> [i \in 1..Len(v) |-> <<v[i], M[i][j]>>]]
Outer(a, b) == [i \in 1..Len(a) |-> [j \in 1..Len(b) |-> <<<<a[i], b[j]>>>>]]
Transpose(A) == [j \in 1..Len(A[1]) |-> [i \in 1..Len(A) |-> A[i][j]]]
TracePoly(A) == [i \in 1..Len(A) |-> <<A[i][i]>>]

\* submatrix keeping the given rows and columns (sequences of indices)
Sub(A, rs, cs) == [i \in 1..Len(rs) |-> [j \in 1..Len(cs) |-> A[rs[i]][cs[j]]]]
Without(n, k) == [i \in 1..(n - 1) |-> IF i < k THEN i ELSE i + 1]
\* determinant as a polynomial: Laplace expansion along the first row
RECURSIVE DetPoly(_)
DetPoly(A) ==
    IF Len(A) = 1 THEN <<<<A[1][1]>>>>
    ELSE LET n == Len(A)
             term(j) == LET m == DetPoly(Sub(A, Without(n, 1), Without(n, j)))
                        IN  IF j % 2 = 1 THEN PMulTerm(m, <<A[1][j]>>) ELSE PMulTerm(m, <<Neg1, A[1][j]>>)
             RECURSIVE acc(_)
             acc(j) == IF j > n THEN <<>> ELSE term(j) \o acc(j + 1)
         IN  acc(1)
MinorPoly(A, r, c) == DetPoly(Sub(A, Without(Len(A), r), Without(Len(A), c)))
Det(A) == Value(DetPoly(A))
\* cofactor expansion along row r / column c, as numbers
ExpandRow(A, r) == Sum([j \in 1..Len(A) |-> NMul(IF (r + j) % 2 = 0 THEN A[r][j] ELSE NNeg(A[r][j]), Value(MinorPoly(A, r, j)))])
ExpandCol(A, c) == Sum([i \in 1..Len(A) |-> NMul(IF (i + c) % 2 = 0 THEN A[i][c] ELSE NNeg(A[i][c]), Value(MinorPoly(A, i, c)))])
MatVal(P) == [i \in 1..Len(P) |-> [j \in 1..Len(P[i]) |-> Value(P[i][j])]]
Identity(n) == [i \in 1..n |-> [j \in 1..n |-> IF i = j THEN NOne ELSE NZero]]
=============================================================================
