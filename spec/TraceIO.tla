------------------------------ MODULE TraceIO ------------------------------
(***************************************************************************)
(* Reading recorded executions.  The harness writes one JSON object per    *)
(* line; the file name arrives in the environment variable TRACE.  Floats  *)
(* are logged as sequences of 16-bit words (most significant first), so no *)
(* decoding happens outside the specification.                             *)
(***************************************************************************)
EXTENDS Integers, Sequences, TLC, Json, IOUtils

TraceFile == IF "TRACE" \in DOMAIN IOEnv THEN IOEnv.TRACE ELSE "trace.ndjson"
TraceLog == ndJsonDeserialize(TraceFile)
TraceLen == Len(TraceLog)

Has(r, f) == f \in DOMAIN r

\* verdict reporting: the driver (bin/check) parses these lines
ReportBad(l, what) == PrintT(<<"BADREC", l, what>>)
ReportDone(n)      == PrintT(<<"ACCEPTED", n>>)
=============================================================================
