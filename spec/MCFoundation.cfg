INIT Init
NEXT Next
