-------------------------------- MODULE Box --------------------------------
(***************************************************************************)
(* Box<V> / Interval<T> as closed axis-aligned point sets (C13).           *)
(*                                                                         *)
(* A box is a record [mn, mx] of D-tuples over a finite lattice of         *)
(* abstract coordinates; LOW and MAX stand for the element type's lowest   *)
(* and largest value (the harness projects those to "LOW"/"MAX", here they *)
(* are the integers -1000 / 1000).  Definition layer: Pts(b) is the set of *)
(* lattice points p with mn <= p <= mx component-wise, and every observer  *)
(* is defined from Pts.  Implementation-shaped layer: the comparisons the  *)
(* code makes (Algo.. operators).  MCBox checks they agree and that any extendBy      *)
(* history from makeEmpty yields the hull of what was added.               *)
(***************************************************************************)
EXTENDS Integers, Sequences, FiniteSets, TLC

LOW == -1000
MAX == 1000

Dim(b) == Len(b.mn)
MkBox(mn, mx) == [mn |-> mn, mx |-> mx]
Const(D, v) == [i \in 1..D |-> v]
EmptyBox(D) == MkBox(Const(D, MAX), Const(D, LOW))
InfBox(D)   == MkBox(Const(D, LOW), Const(D, MAX))

\* ---- definition layer -----------------------------------------------------
In(p, b) == \A i \in 1..Dim(b) : b.mn[i] <= p[i] /\ p[i] <= b.mx[i]
\* all D-tuples over a coordinate set
RECURSIVE Tuples(_, _)
Tuples(D, Vs) == IF D = 0 THEN {<<>>}
                 ELSE {Append(t, v) : t \in Tuples(D - 1, Vs), v \in Vs}
Pts(b, Vs) == {p \in Tuples(Dim(b), Vs) : In(p, b)}

IsEmptyDef(b) == \E i \in 1..Dim(b) : b.mx[i] < b.mn[i]     \* <=> Pts = {} on any lattice containing mn, mx
HasVolumeDef(b) == \A i \in 1..Dim(b) : b.mn[i] < b.mx[i]
IsInfiniteDef(b) == \A i \in 1..Dim(b) : b.mn[i] = LOW /\ b.mx[i] = MAX
IntersectsBoxDef(a, b) ==            \* the two sets share a point
    /\ ~IsEmptyDef(a) /\ ~IsEmptyDef(b)
    /\ \A i \in 1..Dim(a) : (IF a.mn[i] > b.mn[i] THEN a.mn[i] ELSE b.mn[i])
                              <= (IF a.mx[i] < b.mx[i] THEN a.mx[i] ELSE b.mx[i])
SizeDef(b) == IF IsEmptyDef(b) THEN Const(Dim(b), 0) ELSE [i \in 1..Dim(b) |-> b.mx[i] - b.mn[i]]
\* (max+min)/2, C++ semantics: truncation towards zero for integer element types
DivTrunc(a, n) == IF a >= 0 THEN a \div n ELSE -((-a) \div n)
CenterDef(b) == [i \in 1..Dim(b) |-> DivTrunc(b.mx[i] + b.mn[i], 2)]
MajorAxisDef(b) ==                   \* first axis of maximal size (0-based)
    LET s == SizeDef(b)
    IN  (CHOOSE k \in 1..Dim(b) : /\ \A j \in 1..Dim(b) : s[j] <= s[k]
                                  /\ \A j \in 1..(k - 1) : s[j] < s[k]) - 1

\* smallest box containing the current points and p / the points of c
Min(a, b) == IF a < b THEN a ELSE b
Max(a, b) == IF a > b THEN a ELSE b
ExtendPointDef(b, p) == MkBox([i \in 1..Dim(b) |-> Min(b.mn[i], p[i])], [i \in 1..Dim(b) |-> Max(b.mx[i], p[i])])
ExtendBoxDef(b, c) == IF IsEmptyDef(c) THEN b
                      ELSE MkBox([i \in 1..Dim(b) |-> Min(b.mn[i], c.mn[i])], [i \in 1..Dim(b) |-> Max(b.mx[i], c.mx[i])])
\* hull of a set of points (non-empty set)
Hull(D, S) == IF S = {} THEN EmptyBox(D)
              ELSE MkBox([i \in 1..D |-> CHOOSE v \in {p[i] : p \in S} : \A q \in S : v <= q[i]],
                       [i \in 1..D |-> CHOOSE v \in {p[i] : p \in S} : \A q \in S : v >= q[i]])

Clamp(v, lo, hi) == IF v < lo THEN lo ELSE IF v > hi THEN hi ELSE v
ClosestInDef(p, b) == [i \in 1..Dim(b) |-> Clamp(p[i], b.mn[i], b.mx[i])]    \* non-empty b
OnSurface(q, b) == In(q, b) /\ \E i \in 1..Dim(b) : q[i] = b.mn[i] \/ q[i] = b.mx[i]
RECURSIVE Dist2R(_, _, _)
Dist2R(p, q, i) == IF i > Len(p) THEN 0 ELSE (p[i] - q[i]) * (p[i] - q[i]) + Dist2R(p, q, i + 1)
Dist2(p, q) == Dist2R(p, q, 1)
\* distance from an interior point to the surface = smallest distance to a face
FaceDist(p, b) == LET ds == {p[i] - b.mn[i] : i \in 1..Dim(b)} \cup {b.mx[i] - p[i] : i \in 1..Dim(b)}
                  IN  CHOOSE m \in ds : \A x \in ds : m <= x
ClosestOnRel(p, b, q) ==
    IF IsEmptyDef(b) THEN q = p
    ELSE IF ~In(p, b) THEN q = ClosestInDef(p, b)
    ELSE OnSurface(q, b) /\ Dist2(p, q) = FaceDist(p, b) * FaceDist(p, b)

\* ---- implementation-shaped layer (the comparisons the code makes) ----------
AlgoIntersectsBox(a, b) == \A i \in 1..Dim(a) : ~(b.mx[i] < a.mn[i] \/ b.mn[i] > a.mx[i])
AlgoExtendBox(b, c) == MkBox([i \in 1..Dim(b) |-> IF c.mn[i] < b.mn[i] THEN c.mn[i] ELSE b.mn[i]],
                           [i \in 1..Dim(b) |-> IF c.mx[i] > b.mx[i] THEN c.mx[i] ELSE b.mx[i]])
=============================================================================
