------------------------------- MODULE Factor -------------------------------
(***************************************************************************)
(* Matrix factorisations (C12), stated on exact numbers.                   *)
(*                                                                         *)
(*  Affine   M = S * H * R * T  with S a diagonal scale, H a unit lower    *)
(*           shear, R orthonormal with determinant +1 and T a translation  *)
(*           (row-vector convention: the scale acts first);                *)
(*           "sans scaling" = H * R * T, "sans scaling and shear" = R * T; *)
(*           computeRSMatrix = S' * R' * T with the chosen factors.        *)
(*  SVD      A = U * diag(S) * V^T with U, V orthonormal, S descending and *)
(*           non-negative (forcePositiveDeterminant: det U, det V > 0 and  *)
(*           only the last value may be negative).                         *)
(*  Eigen    A = V * diag(S) * V^T with V orthonormal, for symmetric A.    *)
(*  Procrustes  the result X = [sQ | t] minimises sum w |a X - b|^2 over   *)
(*           rotations Q: first-order condition Q^T N symmetric with       *)
(*           N = sum w (a - abar)^T (b - bbar), second-order condition     *)
(*           tr(P) I - P positive semidefinite for P = Q^T N, centroid     *)
(*           maps to centroid, scale = tr(Q^T N) / sum w |a - abar|^2.     *)
(*                                                                         *)
(* All products are evaluated exactly (Dyadic); a recorded result is       *)
(* admitted when it lies within K machine epsilons of the exact value at   *)
(* the natural scale of the entry.                                         *)
(***************************************************************************)
EXTENDS Transform

MV(A, B2) == MatVal(MatMul(A, B2))                       \* exact product of value matrices
AbsM(A) == [i \in 1..Len(A) |-> [j \in 1..Len(A[i]) |-> D!DAbs(A[i][j])]]
RECURSIVE MaxOfR(_, _)
MaxOfR(xs, k) == IF k > Len(xs) THEN D!DZero ELSE D!DMax(D!DAbs(xs[k]), MaxOfR(xs, k + 1))
MaxAbsRow(r) == MaxOfR(r, 1)
MaxAbs(A) == MaxOfR([i \in 1..Len(A) |-> MaxAbsRow(A[i])], 1)
Diag(s) == [i \in 1..Len(s) |-> [j \in 1..Len(s) |-> IF i = j THEN s[i] ELSE D!DZero]]
Lin(A, n) == [i \in 1..n |-> [j \in 1..n |-> A[i][j]]]   \* upper-left n x n block

\* X is entrywise within tol(i) of Y
CloseRows(X, Y, tol(_)) == \A i \in 1..Len(X) : \A j \in 1..Len(X[i]) : D!DWithin(X[i][j], Y[i][j], tol(i))
Close(X, Y, tl) == \A i \in 1..Len(X) : \A j \in 1..Len(X[i]) : D!DWithin(X[i][j], Y[i][j], tl)
IsRotation(R, tl) == Orthonormal(R, tl) /\ RightHanded(R, tl)
Symmetric(P, tl) == \A i \in 1..Len(P), j \in 1..Len(P) : i < j => D!DWithin(P[i][j], P[j][i], tl)

\* positive semidefinite up to tl (symmetric 3x3): all principal minors >= -tl^k at their scale
Minor2(G, i, j) == D!DSub(D!DMul(G[i][i], G[j][j]), D!DMul(G[i][j], G[j][i]))
PSD3(G, sc, tl) ==           \* sc: scale of the entries, tl: relative tolerance
    /\ \A i \in 1..3 : D!DLe(D!DNeg(D!DMul(tl, sc)), G[i][i])
    /\ \A i \in 1..3, j \in 1..3 : i < j => D!DLe(D!DNeg(D!DMul(tl, D!DSq(sc))), Minor2(G, i, j))
    /\ D!DLe(D!DNeg(D!DMul(tl, D!DMul(sc, D!DSq(sc)))), Det(G))
TraceOf(P) == D!DSum([i \in 1..Len(P) |-> P[i][i]])
=============================================================================
