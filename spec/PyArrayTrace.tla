---------------------------- MODULE PyArrayTrace ----------------------------
(* Trace specification for PyArray: each logged event carries the abstract event
   (inputs only), whether Python raised, the result, and the projected state of every
   live object after the event.  The specification threads its own state through
   Apply and compares.  A reset line starts a new episode (new interpreter objects); after a
   divergence the rest of the episode is not judged (its abstract state is unknown). *)
EXTENDS PyArray, TraceIO

VARIABLES l, st, diverged
vars == <<l, st, diverged>>
Rec == TraceLog[l]

Expected(r) == Apply(st, r.ev)
\* comparing projected states: same live objects, same contents, same writable flags
SameState(s, logged) ==
    /\ DOMAIN Project(s) = DOMAIN logged
    /\ \A o \in DOMAIN logged : /\ logged[o].w = Project(s)[o].w
                                /\ logged[o].vals = Project(s)[o].vals
EvOK(r) ==
    LET x == Expected(r) IN
    /\ (r.exc = 1) = x.exc
    /\ (~x.exc => r.out = x.out)
    /\ SameState(x.st, r.state)

Init == l = 1 /\ st = EmptyState /\ diverged = FALSE
StepRec ==
    /\ l <= TraceLen
    /\ LET r == Rec IN
       IF r.e = "reset" THEN st' = EmptyState /\ diverged' = FALSE
       ELSE IF diverged THEN UNCHANGED <<st, diverged>>       \* only the first divergence of an episode is reported
       ELSE /\ IF EvOK(r) THEN TRUE ELSE ReportBad(l, <<r.ev.op, IF Expected(r).exc THEN "spec:raises" ELSE "spec:returns", r.exc>>)
            /\ diverged' = ~EvOK(r)
            /\ st' = Expected(r).st
    /\ l' = l + 1
Finish == l = TraceLen + 1 /\ ReportDone(TraceLen) /\ l' = l + 1 /\ UNCHANGED <<st, diverged>>
Next == StepRec \/ Finish
Spec == Init /\ [][Next]_vars
=============================================================================
