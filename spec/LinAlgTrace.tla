----------------------------- MODULE LinAlgTrace -----------------------------
(***************************************************************************)
(* Trace specification for C05.  Each record is one call family: the       *)
(* operands and the results of every *spelling* of the operation.  The     *)
(* specification (i) requires all spellings to return identical bits and   *)
(* (ii) requires the result to lie within the rounding bound of the        *)
(* textbook polynomial (LinAlg!Within), component by component.  The       *)
(* identities det(AB) = det A det B, det A^T = det A and cofactor          *)
(* expansion are theorems of the polynomial definitions (MCLinAlg); here   *)
(* every logged determinant / minor / product is tied to its own operands. *)
(***************************************************************************)
EXTENDS LinAlg, TraceIO
VARIABLE l
Rec == TraceLog[l]

Sq(t, ws, n) == Mat(t, ws, n, n)

\* expected polynomials, one per output component, for a record r
Polys(r) ==
    LET t == r.t  n == r.n IN
    CASE r.fn = "dot" -> <<Dot(Nums(t, r.a), Nums(t, r.b))>>
      [] r.fn = "cross2" -> <<Cross2(Nums(t, r.a), Nums(t, r.b))>>
      [] r.fn = "cross3" -> Cross3(Nums(t, r.a), Nums(t, r.b))
      [] r.fn = "quatmul" -> QuatMul(Nums(t, r.a), Nums(t, r.b))
      [] r.fn = "matmul" -> Flatten(MatMul(Sq(t, r.a, n), Sq(t, r.b, n)))
      [] r.fn = "vecmat" -> VecMat(Nums(t, r.a), Sq(t, r.b, n))
      [] r.fn = "dirmat" -> DirMat(Nums(t, r.a), Sq(t, r.b, n + 1))
      [] r.fn = "outer" -> Flatten(Outer(Nums(t, r.a), Nums(t, r.b)))
      [] r.fn = "trace" -> <<TracePoly(Sq(t, r.a, n))>>
      [] r.fn = "det" -> <<DetPoly(Sq(t, r.a, n))>>
      [] r.fn = "minor" -> <<MinorPoly(Sq(t, r.a, n), r.r, r.c)>>
      [] OTHER -> <<>>

AllSame(r) == \A k \in 2..Len(r.outs) : r.outs[k].v = r.outs[1].v

\* homogeneous vector x matrix: numerator polynomials and the weight polynomial
HomogOK(r) ==
    LET t == r.t  n == r.n
        P == VecMatH(Nums(t, r.a), Sq(t, r.b, n + 1))
        w == P[n + 1]
    IN  \/ D!DIsZero(Value(w))                       \* division by an exactly zero weight: not judged
        \/ D!DCmpAbs(Value(w), Tol(t, w)) <= 0       \* ... nor by a weight below its own rounding bound (it may round to zero:
                                                     \* 1.8e-15 + 6 - 6 in float), which is cancellation in the input, not in the code
        \/ \A j \in 1..n : WithinQuot(t, r.outs[1].v[j], P[j], w)

TransposeOK(r) ==
    LET A == Sq(r.t, r.a, r.n)  X == Sq(r.t, r.outs[1].v, r.n)
    IN  \A i \in 1..r.n, j \in 1..r.n : r.outs[1].v[(i - 1) * r.n + j] = r.a[(j - 1) * r.n + i]

\* minorOf and fastMinor are different functions (not spellings of one product): each is
\* judged against the minor polynomial on its own
Judge(r) ==
    /\ r.e = "la"
    /\ IF r.fn = "minor" THEN \A k \in 1..Len(r.outs) : WithinVec(r.t, r.outs[k].v, Polys(r))
       ELSE /\ AllSame(r)
            /\ CASE r.fn = "vecmath" -> HomogOK(r)
                 [] r.fn = "transpose" -> TransposeOK(r)
                 [] OTHER -> WithinVec(r.t, r.outs[1].v, Polys(r))

Init == l = 1
Next == \/ /\ l <= TraceLen
           /\ IF Judge(Rec) THEN TRUE
              ELSE ReportBad(l, <<Rec.fn, Rec.t, Rec.n, IF AllSame(Rec) THEN "value" ELSE "spellings-differ">>)
           /\ l' = l + 1
        \/ l = TraceLen + 1 /\ ReportDone(TraceLen) /\ l' = l + 1
=============================================================================
