------------------------------- MODULE MCEuler -------------------------------
(* The finite part of Euler as a model: one state per order code (legal or not); the
   invariants are the encode/decode bijection on the 24 legal codes, the mutual
   inverseness of angleOrder and angleMapping, and that a static name ABC and the
   rotating name CBAr describe the same axis sequence reversed.  ExportTable prints the
   24 legal codes for replay against the real class. *)
EXTENDS Euler, Json
VARIABLE code
Init == code \in 0..8465
Next == UNCHANGED code
IsLegal == code \in LegalCodes
Bijection == IsLegal => Encode(AxisOf(code), EvenOf(code), RepeatedOf(code), StaticOf(code)) = code
FieldsBinary == IsLegal => AxisOf(code) \in 0..2
Exactly24 == Cardinality(LegalCodes) = 24
PermInverse == IsLegal =>
    LET ao == AngleOrder(code)  am == AngleMapping(code)
    IN  /\ {ao[1], ao[2], ao[3]} = {0, 1, 2}
        /\ \A s \in 1..3 : am[ao[s] + 1] = s - 1            \* mapping undoes order
StaticRelativePairs == IsLegal /\ StaticOf(code) =>
    \E c2 \in LegalCodes : /\ ~StaticOf(c2) /\ RepeatedOf(c2) = RepeatedOf(code)
                           /\ AxisSeq(c2) = AxisSeq(code)       \* the "r" twin shares the decoded sequence; its angles are applied in reverse
ExportTable == code = 0 => PrintT("TABLE " \o ToJson(Codes))
=============================================================================
