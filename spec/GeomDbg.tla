---- MODULE GeomDbg ----
EXTENDS GeomTrace
r == TraceLog[atoi(IOEnv.REC)]
c == LinesCtx(r)
t == r.t
k == Amp(c.cr2, c.uv2, 10) 
sc == Sc(<<c.pos1, c.pos2, c.cp1, c.cp2>>)
tol == D!DScale(D!DMul(E(t), sc), k)
perp(a, b) == /\ D!DWithin(DotV(VSub(a, b), c.dir1), D!DZero, tol) /\ D!DWithin(DotV(VSub(a, b), c.dir2), D!DZero, tol)
tp == D!DMul(E(t), sc)  wu == CrossV(c.w, c.u)
wc == DotV(c.w, c.cr)
ASSUME PrintT(<<"k", k, "par", D!DIsZero(c.cr2), r.fam, r.ok>>)
ASSUME PrintT(<<"P1", OnLine(c.cp1, c.pos1, c.dir1, tp) , OnLine(c.cp2, c.pos2, c.dir2, tp)>>)
ASSUME PrintT(<<"P2", D!DLe(Norm2(wu), D!DMul(D!DSq(D!DAdd(c.dist, tp)), Norm2(c.u))), (D!DLe(c.dist, tp) \/ D!DLe(D!DMul(D!DSq(D!DSub(c.dist, tp)), Norm2(c.u)), Norm2(wu))), r.dist21 = r.dist>>)
ASSUME PrintT(<<"G1", OnLine(c.p1, c.pos1, c.dir1, tol) , OnLine(c.p2, c.pos2, c.dir2, tol), perp(c.p1, c.p2), Near(c.cp1, c.p1, tol) , Near(c.cp2, c.p2, tol)>>)
ASSUME PrintT(<<"G2", D!DLe(D!DSq(wc), D!DMul(D!DSq(D!DAdd(c.dist, tol)), c.cr2)),  (D!DLe(c.dist, tol) \/ D!DLe(D!DMul(D!DSq(D!DSub(c.dist, tol)), c.cr2), D!DSq(wc))), D!DWithin(c.dist21, c.dist, tol), LenNear(VSub(c.p1, c.p2), c.dist, tol)>>)
====
