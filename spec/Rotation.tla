------------------------------- MODULE Rotation -------------------------------
(***************************************************************************)
(* Quaternion / matrix / axis-angle consistency (C10).  Every relation is  *)
(* polynomial in logged values; the rotation matrix of a quaternion        *)
(* q = <<r, x, y, z>> in the library's row-vector convention is            *)
(*   M(q) = [ 1-2(y^2+z^2)   2(xy+zr)     2(zx-yr)   ]                     *)
(*          [ 2(xy-zr)     1-2(z^2+x^2)   2(yz+xr)   ]                     *)
(*          [ 2(zx+yr)       2(yz-xr)   1-2(y^2+x^2) ]                     *)
(* and  M(q * p) = M(p) * M(q).                                            *)
(***************************************************************************)
EXTENDS Transform

Two == D!DInt(2)
QM(q) == LET r == q[1]  x == q[2]  y == q[3]  z == q[4]
             m(a, b) == D!DMul(a, b)
             one2(u, v) == D!DSub(D!DOne, D!DMul(Two, D!DAdd(m(u, u), m(v, v))))
             tw(a, b, c, d, sg) == D!DMul(Two, IF sg > 0 THEN D!DAdd(m(a, b), m(c, d)) ELSE D!DSub(m(a, b), m(c, d)))
         IN  << <<one2(y, z), tw(x, y, z, r, 1), tw(z, x, y, r, -1)>>,
                <<tw(x, y, z, r, -1), one2(z, x), tw(y, z, x, r, 1)>>,
                <<tw(z, x, y, r, 1), tw(y, z, x, r, -1), one2(y, x)>> >>
VM(v, A) == [j \in 1..3 |-> D!DSum([i \in 1..3 |-> D!DMul(v[i], A[i][j])])]
MM(A, Bm) == [i \in 1..3 |-> [j \in 1..3 |-> D!DSum([k \in 1..3 |-> D!DMul(A[i][k], Bm[k][j])])]]
Dot4(a, b) == D!DDot(a, b)
MaxAbs3(v) == D!DMax(D!DAbs(v[1]), D!DMax(D!DAbs(v[2]), D!DAbs(v[3])))
NearVec(a, b, tol) == \A i \in 1..Len(a) : D!DWithin(a[i], b[i], tol)
NearUpToSign(a, b, tol) == NearVec(a, b, tol) \/ NearVec(a, [i \in 1..Len(b) |-> D!DNeg(b[i])], tol)
UnitQ(q, tol) == D!DWithin(Dot4(q, q), D!DOne, tol)
=============================================================================
