----------------------------- MODULE FrustumInt -----------------------------
(* FrustumCore on TLC's native integers. *)
EXTENDS Integers, Sequences, FiniteSets, TLC
ISgn(a) == IF a > 0 THEN 1 ELSE IF a < 0 THEN -1 ELSE 0
INSTANCE FrustumCore WITH NZero <- 0, NOne <- 1, NMul <- LAMBDA a, b : a * b, NAdd <- LAMBDA a, b : a + b,
                          NSub <- LAMBDA a, b : a - b, NNeg <- LAMBDA a : -a, NSgn <- ISgn
=============================================================================
