------------------------------- MODULE MCHalf -------------------------------
(***************************************************************************)
(* Bounded model of Half: no code involved.  Checks that the               *)
(* implementation-shaped layer (AlgoF2H/AlgoH2F) refines the definition    *)
(* (H2F/F2HRel), the corollaries the property lists, the class partition,  *)
(* limits as extremal elements and the round(n) relation.                  *)
(* The state machine walks the 2^16 half patterns in chunks (variable c)   *)
(* so that TLC workers share the work; every invariant is evaluated on     *)
(* every chunk.                                                            *)
(***************************************************************************)
EXTENDS Half

CONSTANT ChunkBits        \* 2^ChunkBits patterns per chunk
VARIABLES c, phase

NChunks == 65536 \div P2(ChunkBits)
Chunk(k) == (k * P2(ChunkBits))..((k + 1) * P2(ChunkBits) - 1)

\* root -> 16 groups -> chunks: the two-level fan-out lets 16 TLC workers
\* evaluate the chunk invariants in parallel
Init == c = -1 /\ phase = "root"
Next == \/ phase = "root" /\ c' \in 0..15 /\ phase' = "group"
        \/ phase = "group" /\ c' \in {k \in 0..(NChunks - 1) : k % 16 = c} /\ phase' = "half"
        \/ phase = "group" /\ c' \in {k \in 0..255 : k % 16 = c} /\ phase' = "float"

vars == <<c, phase>>
Spec == Init /\ [][Next]_vars

----------------------------------------------------------------------------
\* (i) every half pattern: definition vs algorithm, round trip

HalfOK(hw) ==
    LET h == I!Dec16(hw)
        f == H2F(h)
        a == AlgoH2F(hw)
    IN  /\ Words32(a) = I!Enc32(f)                               \* refinement
        /\ I!Dec32(I!Enc32(f)) = f
        /\ (~I!IsNaN(H, h) => F2HRel(f, h) /\ F2H(f) = h)          \* round trip
        /\ (~I!IsNaN(H, h) => D!DEq(I!Val(S, f), I!Val(H, h)) \/ I!IsInf(H, h))
        /\ AlgoF2H(a[1], a[2]) = (IF I!IsNaN(H, h) THEN hw ELSE hw) \* incl. NaN payload
        /\ (I!IsNaN(H, h) => I!IsNaN(S, f) /\ f.sign = h.sign /\ Top10(f.fm) = B!ToNatM(h.fm))

\* class partition, agreement with isFinite/isNegative
ClassOK(hw) ==
    LET h == I!Dec16(hw)
        cs == {k \in {"zero", "sub", "norm", "inf", "nan"} :
                 CASE k = "zero" -> I!IsZero(H, h) [] k = "sub" -> I!IsSub(H, h)
                   [] k = "norm" -> I!IsNorm(H, h) [] k = "inf" -> I!IsInf(H, h)
                   [] k = "nan" -> I!IsNaN(H, h)}
    IN  /\ cs = {I!Class(H, h)}
        /\ (I!IsFinite(H, h) <=> I!Class(H, h) \in {"zero", "sub", "norm"})

\* limits are the true extremes
LimitsOK(hw) ==
    LET h == I!Dec16(hw)
        v == I!Val(H, h)
    IN  (I!IsFinite(H, h) /\ h.sign = 0) =>
          /\ D!DLe(v, I!Val(H, I!Dec16(LimitMax)))
          /\ (I!IsNorm(H, h) => D!DLe(I!Val(H, I!Dec16(LimitMinNormal)), v))
          /\ (~I!IsZero(H, h) => D!DLe(I!Val(H, I!Dec16(LimitDenormMin)), v))
          \* nothing lies strictly between 1 and 1 + epsilon
          /\ ~(/\ D!DLt(D!DOne, v)
               /\ D!DLt(v, D!DAdd(D!DOne, I!Val(H, I!Dec16(LimitEpsilon)))))

RoundOK(hw) ==
    \A n \in 0..12 :
      LET h == I!Dec16(hw) IN
      ~I!IsNaN(H, h) =>
        LET rs == {r \in {hw - (hw % 32768) + m : m \in
                            {(hw % 32768) - ((hw % 32768) % P2(IF n >= 10 THEN 0 ELSE 10 - n)),
                             (hw % 32768) - ((hw % 32768) % P2(IF n >= 10 THEN 0 ELSE 10 - n))
                                + P2(IF n >= 10 THEN 0 ELSE 10 - n)}} :
                      r <= 65535 /\ RoundRel(hw, n, r)}
        IN  /\ \E r \in rs : TRUE                       \* satisfiable
            /\ \A r1 \in rs, r2 \in rs : r1 = r2        \* functional
            /\ \A r \in rs : RoundWithinHalfUnit(hw, n, r)

HalfChunkOK ==
    phase = "half" =>
      \A hw \in Chunk(c) : HalfOK(hw) /\ ClassOK(hw) /\ LimitsOK(hw) /\ RoundOK(hw)

----------------------------------------------------------------------------
\* (ii) AlgoF2H against the rounding relation on a structured set of floats:
\* for binary32 exponent field c, every (low-13-bit pattern x kept-bit
\* pattern x sign) combination, and in the subnormal-result range every
\* (quotient end x remainder around the half-way point) combination.

Low13 == {0, 1, 4095, 4096, 4097, 8191}
Kept  == {0, 1, 2, 341, 682, 1022, 1023}
SubMant(e) ==
    IF e < 102 \/ e > 112 THEN {}
    ELSE IF e = 102 THEN {0, 1, 2, 4194303, 4194304, 4194305, 8388607}   \* shift 24: q = 0
    ELSE LET sh == 126 - e
             qs == {P2(23 - sh), P2(23 - sh) + 1, P2(24 - sh) - 1, P2(24 - sh) - 2}
             rs == {0, 1, P2(sh - 1) - 1, P2(sh - 1), P2(sh - 1) + 1, P2(sh) - 1}
         IN  {q * P2(sh) + r - 8388608 : q \in {qq \in qs : qq >= P2(23 - sh) /\ qq < P2(24 - sh)}, r \in rs}
Mants(e) == {k * 8192 + lo : k \in Kept, lo \in Low13} \cup SubMant(e)
            \cup {8388607, 8388606, 4194304}

FloatOK(sign, e, m) ==
    LET ui == e * 8388608 + m
        x  == I!F(sign, e, B!NatM(m))
        hw == AlgoF2H(sign, ui)
    IN  F2HRel(x, I!Dec16(hw)) /\ F2H(x) = I!Dec16(hw)

FloatChunkOK ==
    phase = "float" =>
      \A m \in Mants(c), sign \in {0, 1} : FloatOK(sign, c, m)

----------------------------------------------------------------------------
\* (iii) the corollaries the property names, as theorems of the definition
F32(e, m) == I!F(0, e, B!NatM(m))
Corollaries ==
    /\ F2H(F32(142, 8384512)) = I!Inf(H, 0)             \* 65520  -> inf
    /\ F2H(F32(142, 8384511)) = I!MaxFinite(H)          \* pred(65520) -> 65504
    /\ F2H(F32(102, 0)) = I!Zero(0)                     \* 2^-25 -> 0 (tie to even)
    /\ F2H(F32(102, 1)) = I!MinSub(H)                   \* succ(2^-25) -> min subnormal
    /\ F2H(I!F(1, 102, <<>>)) = I!Zero(1)               \* -2^-25 -> -0
    /\ F2H(F32(255, 1)).fm = <<1>>                      \* NaN payload 0 -> 1
    /\ F2H(F32(255, 4194304 + 8192)).fm = <<513>>       \* top ten bits kept

CorollariesOK == phase = "root" => Corollaries
=============================================================================
