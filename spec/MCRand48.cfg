CONSTANT Depth = 4
INIT Init
NEXT Next
INVARIANT StepRefines
INVARIANT WordsOK
INVARIANT NrandRange
INVARIANT ErandRefines
CHECK_DEADLOCK FALSE
