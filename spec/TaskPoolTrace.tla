---------------------------- MODULE TaskPoolTrace ----------------------------
(***************************************************************************)
(* Trace specification for TaskPool: validates what the real bindings did  *)
(* under the test WorkerPool.                                              *)
(*   ref     result of a vectorised call with no pool installed (kept as   *)
(*           the reference for the following sched records of the combo)   *)
(*   sched   the same call under an imposed schedule: the pool must have   *)
(*           been asked exactly once, for the whole length; the executed   *)
(*           ranges are the imposed plan and partition [0,len); the result *)
(*           is identical, token for token, to the reference               *)
(*   below   at length <= 200 the pool is not used                          *)
(*   scalar  array result vs the scalar binding applied element by element *)
(*   mismatch  arguments of different length raise (vectorised entry points) *)
(***************************************************************************)
EXTENDS TaskPoolDefs, TraceIO
I == INSTANCE IEEE754
DY == INSTANCE Dyadic

VARIABLES l, ref
tvars == <<l, ref>>
Rec == TraceLog[l]

Threshold == 200

SchedOK(r) ==
    /\ r.exc = 0
    /\ r.len > Threshold
    \* an entry point that is not vectorised never reaches the pool (D empty); one that
    \* is must ask once, for the whole length, and the imposed plan is what was executed
    /\ (r.D = <<>> => r.E = <<>>)
    /\ (r.D # <<>> =>
          /\ \A k \in 1..Len(r.D) : r.D[k] = r.len
          /\ Len(r.E) = Len(r.D) * Len(r.plan)
          /\ \A k \in 1..Len(r.E) : r.E[k] = r.plan[((k - 1) % Len(r.plan)) + 1]
          /\ IsPartition([k \in 1..Len(r.plan) |-> <<r.plan[k][1], r.plan[k][2]>>], r.len))
    /\ ref.combo = r.combo /\ ref.len = r.len
    /\ r.res = ref.res                                  \* bit-for-bit independent of the schedule

BelowOK(r) == r.len <= Threshold => r.D = <<>> /\ r.E = <<>>

\* one component: identical bits, or (floating element types) within a few ulps
CompOK(prec, a, s) ==
    \/ a = s
    \/ /\ prec # "int"
       /\ LET x == I!Dec64(a)  y == I!Dec64(s) IN
          /\ I!IsFinite(I!Fmt64, x) /\ I!IsFinite(I!Fmt64, y)
          /\ LET vx == I!Val(I!Fmt64, x)  vy == I!Val(I!Fmt64, y)
                 big == DY!DMax(DY!DMax(DY!DAbs(vx), DY!DAbs(vy)), DY!DOne)
             IN  DY!DWithin(vx, vy, DY!DScale(big, IF prec = "f" THEN -19 ELSE -48))
ScalarOK(r) ==
    /\ Len(r.arr) = Len(r.sc)
    /\ \A k \in 1..Len(r.arr) :
         /\ Len(r.arr[k]) = Len(r.sc[k])
         /\ \A c \in 1..Len(r.arr[k]) : CompOK(r.prec, r.arr[k][c], r.sc[k][c])

Judge(r) ==
    CASE r.e = "ref" -> TRUE
      [] r.e = "sched" -> SchedOK(r)
      [] r.e = "below" -> BelowOK(r)
      [] r.e = "scalar" -> ScalarOK(r)
      [] r.e = "mismatch" -> (r.vectorised = 1 => r.raised = 1)     \* only entry points that reach the task machinery
      [] OTHER -> FALSE

TInit == l = 1 /\ ref = [combo |-> "", len |-> 0, res |-> <<>>]
TStep == /\ l <= TraceLen
         /\ LET r == Rec IN
            /\ IF Judge(r) THEN TRUE ELSE ReportBad(l, <<r.e, r.combo>>)
            /\ ref' = IF r.e = "ref" THEN [combo |-> r.combo, len |-> r.len, res |-> r.res] ELSE ref
         /\ l' = l + 1
TFinish == l = TraceLen + 1 /\ ReportDone(TraceLen) /\ l' = l + 1 /\ UNCHANGED ref
TNext == TStep \/ TFinish
=============================================================================
