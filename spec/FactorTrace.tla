----------------------------- MODULE FactorTrace -----------------------------
(* Trace specification for C12.
   shrt   one affine matrix through every extract/sans/remove entry point (3-D: n = 4, 2-D: n = 3)
   rs     computeRSMatrix
   svd    jacobiSVD (3x3, 4x4; with and without forcePositiveDeterminant)
   eig    jacobiEigenSolver, minEigenVector, maxEigenVector
   proc   procrustesRotationAndTranslation, unweighted (p1) and weighted (p2) *)
EXTENDS Factor, TraceIO
VARIABLES l
Rec == TraceLog[l]

Sq(t, ws, n) == Mat(t, ws, n, n)
K == 64
KE(t) == D!DMul(D!DInt(K), Eps(t))

\* everything derived from one record, evaluated once (bound through \E below: TLC re-evaluates nested LET definitions)
RowTol(t, X) == [i \in 1..Len(X) |-> D!DMul(KE(t), D!DMax(MaxAbsRow(X[i]), Tiny(t)))]
ShrtCtx(r) ==
    LET t == r.t  n == r.n
        R == Sq(t, r.R, n)
        RT == MV(R, Sq(t, r.T, n))
        HRT == MV(Sq(t, r.H, n), RT)
        SHRT == MV(Sq(t, r.S, n), HRT)
        A == Sq(t, r.m, n)
    IN  [A |-> A, R |-> R, RT |-> RT, HRT |-> HRT, SHRT |-> SHRT, rem |-> Sq(t, r.rem, n), sans |-> Sq(t, r.sans, n),
         tolA |-> RowTol(t, A), tolRT |-> RowTol(t, RT), tolHRT |-> RowTol(t, HRT)]
NearRows(X, Y, tl) == \A i \in 1..Len(X), j \in 1..Len(X) : D!DWithin(X[i][j], Y[i][j], tl[i])

ShrtOK(r) ==
    LET t == r.t  n == r.n  d == n - 1
        s == Nums(t, r.s)  h == Nums(t, r.h)  tr == Nums(t, r.tr)
        allok == r.ok = 1 /\ r.ok2 = 1 /\ r.ok3 = 1 /\ r.ok4 = 1 /\ r.ok5 = 1 /\ r.ok6 = 1
        noneok == r.ok = 0 /\ r.ok2 = 0 /\ r.ok3 = 0 /\ r.ok4 = 0 /\ r.ok5 = 0 /\ r.ok6 = 0
    IN
    IF r.mode = 4
    THEN \* a zero scale is reported, nothing is decomposed, every wrapper hands the input back
         /\ noneok /\ r.thrown = 8
         /\ r.sans = r.m /\ r.removed = r.m /\ r.sans2 = r.m /\ r.removed2 = r.m /\ r.rem = r.m
    ELSE \E c \in {ShrtCtx(r)} :
         /\ allok /\ r.thrown = 0
         \* the logged factor matrices have the documented layouts of the extracted factors
         /\ ExactMat(t, r.S, SetScale(n, s), n)
         /\ ExactMat(t, r.T, SetTranslation(n, tr), n)
         /\ ExactMat(t, r.H, IF n = 4 THEN SetShear44_3(h) ELSE SetShear33_1(h[1]), n)
         \* scale * shear * rotation * translation recomposes the matrix
         /\ NearRows(c.SHRT, c.A, c.tolA)
         /\ \A j \in 1..d : r.tr[j] = r.m[(n - 1) * n + j]
         /\ IsRotation(Lin(c.R, d), KE(t))
         \* the partial extractors agree with extractSHRT
         /\ r.s2 = r.s /\ r.s3 = r.s /\ r.h3 = r.h /\ r.s4 = r.s /\ r.h4 = r.h
         \* removing scaling and shear leaves rotation * translation
         /\ NearRows(c.rem, c.RT, c.tolRT) /\ IsRotation(Lin(c.rem, d), KE(t))
         /\ r.sans2 = r.rem /\ r.removed2 = r.rem
         \* removing scaling leaves shear * rotation * translation
         /\ NearRows(c.sans, c.HRT, c.tolHRT) /\ r.removed = r.sans

\* extractSHRT with an explicit rotation order (angles in x, y, z slots of that order), and with an Euler object of that order
ShrtoOK(r) == \E c \in {[A |-> Sq(r.t, r.m, 4), S |-> Sq(r.t, r.S, 4), H |-> Sq(r.t, r.H, 4), R |-> Sq(r.t, r.R, 4), T |-> Sq(r.t, r.T, 4), Re |-> Sq(r.t, r.Re, 4)]} :
    LET t == r.t
        P1 == MV(c.S, MV(c.H, MV(c.R, c.T)))
        P2 == MV(c.S, MV(c.H, MV(c.Re, c.T)))
        tl == RowTol(t, c.A)
    IN  /\ r.ok = 1 /\ r.oke = 1 /\ r.s5 = r.s /\ r.h5 = r.h
        /\ NearRows(P1, c.A, tl) /\ IsRotation(Lin(c.R, 3), KE(t))
        /\ NearRows(P2, c.A, tl) /\ IsRotation(Lin(c.Re, 3), KE(t))

RsOK(r) ==
    LET t == r.t
        P == MV(Sq(t, r.S, 4), MV(Sq(t, r.R, 4), Sq(t, r.T, 4)))
        Out == Sq(t, r.out, 4)
    IN  \E c \in {[P |-> P, Out |-> Out, tl |-> RowTol(t, P)]} : NearRows(c.Out, c.P, c.tl)

SvdOK(r) ==
    LET t == r.t  n == r.n
        A == Sq(t, r.a, n)  U == Sq(t, r.u, n)  V == Sq(t, r.v, n)  s == Nums(t, r.s)
        P == MV(U, MV(Diag(s), Transpose(V)))
        tl == D!DMul(KE(t), D!DMax(MaxAbs(A), Tiny(t)))
    IN  /\ FinAll(t, r.u) /\ FinAll(t, r.v) /\ FinAll(t, r.s)
        /\ Orthonormal(U, KE(t)) /\ Orthonormal(Transpose(U), KE(t))
        /\ Orthonormal(V, KE(t)) /\ Orthonormal(Transpose(V), KE(t))
        /\ Close(P, A, tl)
        /\ \A i \in 1..(n - 2) : D!DLe(s[i + 1], s[i])
        /\ \A i \in 1..(n - 1) : D!DSign(s[i]) >= 0
        /\ D!DLe(D!DAbs(s[n]), s[n - 1])
        /\ IF r.fp = 1 THEN D!DSign(Det(U)) > 0 /\ D!DSign(Det(V)) > 0
           ELSE D!DSign(s[n]) >= 0

EigOK(r) ==
    LET t == r.t  n == r.n
        A == Sq(t, r.a, n)  V == Sq(t, r.v, n)  s == Nums(t, r.s)
        P == MV(V, MV(Diag(s), Transpose(V)))
        sc == D!DMax(MaxAbs(A), Tiny(t))
        tl == D!DMul(KE(t), sc)
        \* "abs min" / "abs max" eigenvalue, as documented
        isMin(k) == \A i \in 1..n : D!DCmpAbs(s[k], s[i]) <= 0
        isMax(k) == \A i \in 1..n : D!DCmpAbs(s[i], s[k]) <= 0
        \* v is a unit vector with v * A = lam * v
        eigvec(v, lam) == /\ D!DWithin(Norm2(v), D!DOne, KE(t))
                          /\ \A j \in 1..n : D!DWithin(Value(VecMat(v, A)[j]), D!DMul(lam, v[j]), tl)
    IN  /\ FinAll(t, r.v) /\ FinAll(t, r.s)
        /\ Orthonormal(V, KE(t)) /\ Orthonormal(Transpose(V), KE(t))
        /\ Close(P, A, tl)
        /\ \E k \in 1..n : isMin(k) /\ eigvec(Nums(t, r.min), s[k])
        /\ \E k \in 1..n : isMax(k) /\ eigvec(Nums(t, r.max), s[k])

\* one procrustes result X (a 4x4 of doubles) for points a, b with weights w (type t)
ProcCtx(r, xw, w) ==
    LET t == r.t  np == r.npts
        X == Sq("d", xw, 4)
        Q == Lin(X, 3)
        a == [i \in 1..np |-> Nums(t, r.a[i])]
        b == [i \in 1..np |-> Nums(t, r.b[i])]
        W == D!DSum(w)
        sa == [j \in 1..3 |-> D!DSum([i \in 1..np |-> D!DMul(w[i], a[i][j])])]
        sb == [j \in 1..3 |-> D!DSum([i \in 1..np |-> D!DMul(w[i], b[i][j])])]
        \* centred points, scaled by W so that everything stays dyadic
        ac == [i \in 1..np |-> [j \in 1..3 |-> D!DSub(D!DMul(W, a[i][j]), sa[j])]]
        bc == [i \in 1..np |-> [j \in 1..3 |-> D!DSub(D!DMul(W, b[i][j]), sb[j])]]
        N == [j \in 1..3 |-> [k \in 1..3 |-> D!DSum([i \in 1..np |-> D!DMul(w[i], D!DMul(ac[i][j], bc[i][k]))])]]
        NA == [j \in 1..3 |-> [k \in 1..3 |-> D!DSum([i \in 1..np |-> D!DAbs(D!DMul(w[i], D!DMul(ac[i][j], bc[i][k])))])]]
    IN  [X |-> X, Q |-> Q, a |-> a, b |-> b, W |-> W, sa |-> sa, sb |-> sb, P |-> MV(Transpose(Q), N),
         scN |-> D!DMax(MaxAbs(NA), Tiny("d")), scQ |-> D!DMax(MaxAbs(Q), Tiny("d")), s2 |-> Norm2(Q[1]),
         trATA |-> D!DSum([i \in 1..np |-> D!DMul(w[i], Norm2(ac[i]))])]
ProcOne(r, xw, w) == \E c \in {ProcCtx(r, xw, w)} :
    LET t == r.t  np == r.npts
        X == c.X  Q == c.Q  a == c.a  b == c.b  W == c.W  sa == c.sa  sb == c.sb  P == c.P  scN == c.scN  scQ == c.scQ  s2 == c.s2
        trATA == c.trATA
        tlP == D!DMul(D!DMul(KE("d"), D!DInt(8)), D!DMul(scQ, scN))
        et == KE(t)                                                              \* the inputs carry the working type's rounding
        maps(i) == \A j \in 1..3 :
                     D!DWithin(Value(VecMatH(a[i], X)[j]), b[i][j],
                               D!DMul(et, D!DAdd(D!DOne, D!DAdd(D!DAbs(b[i][j]), D!DMul(scQ, MaxAbsRow(a[i]))))))
    IN
    /\ FinAll("d", xw)
    /\ D!DEq(X[4][4], D!DOne) /\ \A i \in 1..3 : D!DIsZero(X[i][4])
    \* the linear part is a (uniformly scaled) rotation
    /\ \A i \in 1..3, j \in 1..3 : D!DWithin(D!DDot(Q[i], Q[j]), IF i = j THEN s2 ELSE D!DZero, D!DMul(KE("d"), D!DMax(s2, Tiny("d"))))
    /\ D!DSign(Det(Q)) > 0
    /\ (r.scaling = 0 \/ np = 1) => D!DWithin(s2, D!DOne, KE("d"))
    /\ D!DSign(W) > 0 =>
         \* the weighted centroid of a maps to the weighted centroid of b
         /\ \A j \in 1..3 : D!DWithin(D!DAdd(D!DDot(sa, [i \in 1..3 |-> Q[i][j]]), D!DMul(W, X[4][j])), sb[j],
                                       D!DMul(KE("d"), D!DAdd(D!DAbs(sb[j]), D!DAdd(D!DMul(scQ, MaxAbsRow(sa)), W))))
         \* first and second order optimality of the rotation
         /\ Symmetric(P, tlP)
         /\ \E G \in {[i \in 1..3 |-> [j \in 1..3 |-> IF i = j THEN D!DSub(TraceOf(P), P[i][j]) ELSE D!DNeg(P[i][j])]]} :
               PSD3(G, D!DMul(scQ, scN), D!DMul(KE("d"), D!DInt(64)))
         \* optimal uniform scale:  s * tr(A^T A) = tr(Q0^T N)  with Q = s Q0, i.e.  s^2 trATA W = tr(Q^T N)   (ac, bc carry a factor W each)
         /\ (r.scaling = 1 /\ np > 1 /\ D!DSign(trATA) > 0) =>
               D!DWithin(D!DMul(s2, trATA), TraceOf(P), D!DMul(D!DMul(KE("d"), D!DInt(8)), D!DAdd(D!DMul(s2, trATA), D!DMul(scQ, D!DMul(D!DInt(9), scN)))))
         \* data related by a rigid (scaled) transform is mapped exactly (points with positive weight)
         /\ r.noisy = 0 => \A i \in 1..np : D!DSign(w[i]) > 0 => maps(i)

ProcOK(r) ==
    LET t == r.t  np == r.npts IN
    /\ ProcOne(r, r.p1, [i \in 1..np |-> D!DOne])
    /\ ProcOne(r, r.p2, Nums(t, r.w))

Judge(r) == CASE r.e = "shrt" -> ShrtOK(r) [] r.e = "shrto" -> ShrtoOK(r) [] r.e = "rs" -> RsOK(r) [] r.e = "svd" -> SvdOK(r)
              [] r.e = "eig" -> EigOK(r) [] r.e = "proc" -> ProcOK(r) [] r.e = "rsdeg" -> r.thrown = 2 [] OTHER -> FALSE
What(r) == CASE r.e = "shrt" -> <<r.e, r.t, r.n, r.mode>> [] r.e = "shrto" -> <<r.e, r.t, r.order>> [] r.e = "svd" -> <<r.e, r.t, r.n, r.fp>>
             [] r.e = "eig" -> <<r.e, r.t, r.n>> [] r.e = "proc" -> <<r.e, r.t, r.npts, r.shape, r.scaling, r.noisy>> [] OTHER -> <<r.e, r.t>>
Init == l = 1
Next == \/ /\ l <= TraceLen
           /\ LET r == Rec IN IF Judge(r) THEN TRUE ELSE ReportBad(l, What(r))
           /\ l' = l + 1
        \/ l = TraceLen + 1 /\ ReportDone(TraceLen) /\ l' = l + 1
=============================================================================
