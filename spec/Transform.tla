------------------------------ MODULE Transform ------------------------------
(***************************************************************************)
(* Transform builders, in-place transforms and frames (C09).               *)
(*                                                                         *)
(*  - set* builders: the documented matrix, entry by entry (exact for      *)
(*    translation/scale/shear; a polynomial in logged libm facts for       *)
(*    rotations, each fact admitted to 2 ulp);                             *)
(*  - in-place translate/scale/shear/rotate of Matrix44/33: defined BY     *)
(*    MULTIPLICATION,  M' = Set(args) * M  (Matrix22/33::rotate:           *)
(*    M' = M * SetRotation), where Set(args) is the set* matrix the code   *)
(*    itself builds from the same arguments (validated separately);        *)
(*  - frames: orthonormal, right-handed, with the documented axes/origin.  *)
(***************************************************************************)
EXTENDS LinAlg

Id(n) == Identity(n)
\* documented layouts, rows are the images of the basis vectors (row-vector convention)
SetTranslation(n, t) == [i \in 1..n |-> [j \in 1..n |-> IF i = n /\ j < n THEN t[j] ELSE IF i = j THEN D!DOne ELSE D!DZero]]
SetScale(n, s) == [i \in 1..n |-> [j \in 1..n |-> IF i # j THEN D!DZero ELSE IF i < n THEN s[i] ELSE D!DOne]]
SetScaleFull(n, s) == [i \in 1..n |-> [j \in 1..n |-> IF i # j THEN D!DZero ELSE s[i]]]        \* Matrix22: no homogeneous row
Z == D!DZero
O == D!DOne
SetShear33_1(xy) == << <<O, Z, Z>>, <<xy, O, Z>>, <<Z, Z, O>> >>
SetShear33_2(h) == << <<O, h[2], Z>>, <<h[1], O, Z>>, <<Z, Z, O>> >>
SetShear44_3(h) == << <<O, Z, Z, Z>>, <<h[1], O, Z, Z>>, <<h[2], h[3], O, Z>>, <<Z, Z, Z, O>> >>
\* Shear6 = <<xy, xz, yz, yx, zx, zy>>
SetShear44_6(h) == << <<O, h[4], h[5], Z>>, <<h[1], O, h[6], Z>>, <<h[2], h[3], O, Z>>, <<Z, Z, Z, O>> >>
SetRotation2(n, c, s) == [i \in 1..n |-> [j \in 1..n |->
     IF i = 1 /\ j = 1 THEN c ELSE IF i = 1 /\ j = 2 THEN s ELSE IF i = 2 /\ j = 1 THEN D!DNeg(s) ELSE IF i = 2 /\ j = 2 THEN c
     ELSE IF i = j THEN O ELSE Z]]
\* setEulerAngles as polynomials in the six facts  f = [cx, sx, cy, sy, cz, sz]
N1 == D!DNeg(D!DOne)
EulerPoly(f) == <<
   << <<<<f.cz, f.cy>>>>, <<<<f.sz, f.cy>>>>, <<<<N1, f.sy>>>>, <<>> >>,
   << <<<<N1, f.sz, f.cx>>, <<f.cz, f.sy, f.sx>>>>, <<<<f.cz, f.cx>>, <<f.sz, f.sy, f.sx>>>>, <<<<f.cy, f.sx>>>>, <<>> >>,
   << <<<<f.sz, f.sx>>, <<f.cz, f.sy, f.cx>>>>, <<<<N1, f.cz, f.sx>>, <<f.sz, f.sy, f.cx>>>>, <<<<f.cy, f.cx>>>>, <<>> >>,
   << <<>>, <<>>, <<>>, <<<<O>>>> >> >>
\* setAxisAngle as polynomials in the unit axis u and facts c, s
AxisAnglePoly(u, c, s) ==
    LET omc == <<<<O>>, <<N1, c>>>>      \* 1 - cos as a polynomial
        uu(i, j) == PMul(<<<<u[i], u[j]>>>>, omc)
    IN  << << PAdd(uu(1, 1), <<<<c>>>>), PAdd(uu(1, 2), <<<<u[3], s>>>>), PAdd(uu(1, 3), <<<<N1, u[2], s>>>>), <<>> >>,
           << PAdd(uu(1, 2), <<<<N1, u[3], s>>>>), PAdd(uu(2, 2), <<<<c>>>>), PAdd(uu(2, 3), <<<<u[1], s>>>>), <<>> >>,
           << PAdd(uu(1, 3), <<<<u[2], s>>>>), PAdd(uu(2, 3), <<<<N1, u[1], s>>>>), PAdd(uu(3, 3), <<<<c>>>>), <<>> >>,
           << <<>>, <<>>, <<>>, <<<<O>>>> >> >>

\* a logged matrix equals an exact matrix entry by entry
ExactMat(t, ws, E, n) == \A i \in 1..n, j \in 1..n : D!DEq(Num(t, ws[(i - 1) * n + j]), E[i][j])
\* a logged matrix is within the rounding bound of a matrix of polynomials (K-fold the standard bound)
WithinK(t, rw_, pp_, K) == I!IsFinite(Fm(t), I!Dec(t, rw_)) /\
    D!DWithin(Num(t, rw_), Value(pp_), D!DAdd(D!DMul(D!DInt(K), Tol(t, pp_)), D!DMul(D!DInt(K), Eps(t))))
PolyMat(t, ws, P, n, K) == \A i \in 1..n, j \in 1..n : WithinK(t, ws[(i - 1) * n + j], P[i][j], K)

\* (c, s) is a plausible cosine/sine pair and matches the libm facts to 2 ulp
TrigOK(t, cw, sw, fc, fs) ==
    /\ I!UlpWithin(Fm(t), I!Dec(t, cw), I!Dec(t, fc), 2) /\ I!UlpWithin(Fm(t), I!Dec(t, sw), I!Dec(t, fs), 2)
    /\ D!DWithin(D!DAdd(D!DSq(Num(t, cw)), D!DSq(Num(t, sw))), D!DOne, D!DMul(D!DInt(8), Eps(t)))

\* orthonormal rows with determinant +1 (upper-left 3x3 of a 4x4, or a whole 3x3 / 2x2)
Rows3(A) == [i \in 1..3 |-> [j \in 1..3 |-> A[i][j]]]
Orthonormal(R, tol) == \A i \in 1..Len(R), j \in 1..Len(R) :
    D!DWithin(D!DDot(R[i], R[j]), IF i = j THEN D!DOne ELSE D!DZero, tol)
RightHanded(R, tol) == D!DWithin(Det(R), D!DOne, tol)
CrossV(a, b) == [i \in 1..3 |-> Value(Cross3(a, b)[i])]
Norm2(a) == D!DDot(a, a)
\* a is parallel to b and points the same way:  |a x b|^2 <= tol^2 |a|^2 |b|^2  and  a.b > 0
SameDir(a, b, tol2) == /\ D!DLe(Norm2(CrossV(a, b)), D!DMul(tol2, D!DMul(Norm2(a), Norm2(b))))
                       /\ D!DSign(D!DDot(a, b)) > 0
\* neither zero nor nearly parallel: |a x b|^2 >= 2^-10 |a|^2 |b|^2 > 0  (angle above about 1.8 degrees)
Generic(a, b) == /\ D!DSign(Norm2(a)) > 0 /\ D!DSign(Norm2(b)) > 0
                 /\ D!DLe(D!DScale(D!DMul(Norm2(a), Norm2(b)), -10), Norm2(CrossV(a, b)))
VSub(a, b) == [i \in 1..Len(a) |-> D!DSub(a[i], b[i])]
=============================================================================
