INIT Init
NEXT Next
INVARIANT Theorems
CHECK_DEADLOCK FALSE
