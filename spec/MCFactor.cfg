INIT Init
NEXT Next
INVARIANT GramSchmidt
INVARIANT SansScaling
INVARIANT Reflection
CHECK_DEADLOCK FALSE
