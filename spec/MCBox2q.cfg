CONSTANTS D = 2 Coords <- CoordsB MaxDepth = 2
INIT Init
NEXT Next
INVARIANT Minimal
INVARIANT EmptyIffNoPoints
INVARIANT MembershipIsIn
INVARIANT InfiniteContainsAll
INVARIANT IntersectsSymmetric
INVARIANT IntersectsIsSharing
INVARIANT AlgoIntersectsAgrees
INVARIANT AlgoExtendAgrees
INVARIANT ClosestInIsNearest
CHECK_DEADLOCK FALSE
