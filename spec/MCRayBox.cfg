CONSTANTS BoxC = {0, 1, 2} PosC = {0, 1, 3} DirC = {0, 1, 2}
GridDen = 2 GridMax = 8
INIT Init
NEXT Next
INVARIANT CandIsEnough
INVARIANT SlabAgrees
INVARIANT FirstIsFirst
CHECK_DEADLOCK FALSE
