------------------------------- MODULE MCGeom -------------------------------
(* GeomCore on TLC integers: the theorems behind the C15 oracle, checked on a lattice.
   One state per (triangle, line) / (sphere, ray) / (line pair) choice; the choice is spread over
   Init so that all workers share the evaluation. *)
EXTENDS Integers, Sequences, FiniteSets, TLC
ISgn(a) == IF a > 0 THEN 1 ELSE IF a < 0 THEN -1 ELSE 0
INSTANCE GeomCore WITH NZero <- 0, NOne <- 1, NMul <- LAMBDA a, b : a * b, NAdd <- LAMBDA a, b : a + b,
                       NSub <- LAMBDA a, b : a - b, NNeg <- LAMBDA a : -a, NSgn <- ISgn
VARIABLES kind, a, b, c, d, e
C3 == {-2, 0, 1}
Pts == {<<x, y, z>> : x \in C3, y \in C3, z \in C3}
Few == {<<0, 0, 0>>, <<1, -2, 0>>, <<-2, 1, 1>>, <<1, 1, -2>>, <<0, 1, 0>>}
Dirs == {<<1, 0, 0>>, <<1, 1, 0>>, <<-2, 1, 1>>, <<0, -1, 2>>, <<2, 2, 2>>}
\* two levels, so that the choice of the remaining operands (and the evaluation of the theorems) is shared by all workers
Init == /\ kind \in {"tri", "sphere", "lines"} /\ b = <<>> /\ c = <<>> /\ d = <<>> /\ e = <<>>
        /\ a \in (IF kind = "lines" THEN Few ELSE Pts)
Next == /\ b = <<>> /\ UNCHANGED <<kind, a>>
        /\ \/ kind = "tri" /\ b' \in Pts /\ c' \in Pts /\ d' \in Few /\ e' \in Dirs
           \/ kind = "sphere" /\ b' \in Dirs /\ c' \in Pts /\ d' \in {<<1>>, <<2>>, <<3>>} /\ e' \in {<<-2>>, <<0>>, <<1>>, <<3>>}
           \/ kind = "lines" /\ b' \in Dirs \cup {<<0, 0, 1>>, <<2, 0, 0>>} /\ c' \in Pts /\ d' \in Dirs \cup {<<-1, -1, 0>>, <<-3, 0, 0>>}
              /\ e' \in {<<tt, ss>> : tt \in {-1, 0, 2}, ss \in {-2, 0, 1}}
Theorems == b = <<>> \/ CASE kind = "tri" -> TriTheorems(d, e, a, b, c)
              [] kind = "sphere" -> SphereTheorem(a, b, c, d[1], e[1])
              [] kind = "lines" -> LinesTheorem(a, b, c, d, e[1], e[2])
=============================================================================
