------------------------------- MODULE RayBoxCore -------------------------------
(***************************************************************************)
(* Ray-box and line-box intersection (C14), in exact arithmetic.           *)
(*                                                                         *)
(* A ray pos + t*dir (t >= 0) meets a closed box iff it does so at its     *)
(* origin or at a slab-plane crossing, so the definition quantifies over   *)
(* the finite candidate set                                                *)
(*     Cand = {0} \cup {(b - pos_i)/dir_i : dir_i # 0, b in {mn_i, mx_i}}  *)
(* (MCRayBox checks this against a literal search over a fine grid of t).  *)
(* Parameters are fractions <<n, d>> of numbers with d > 0; every          *)
(* comparison is cross-multiplied.  AlgoSlab is the textbook slab method   *)
(* (max of entry parameters <= min of exit parameters), the shape of the   *)
(* code; MCRayBox checks AlgoSlab <=> Hit.                                 *)
(***************************************************************************)
EXTENDS Integers, Sequences, FiniteSets, TLC
\* the arithmetic is a parameter: RayBox instantiates it with exact dyadics (any
\* float input), RayBoxInt with TLC's native integers (integer-lattice inputs)
CONSTANTS NZero, NOne, NMul(_, _), NAdd(_, _), NSub(_, _), NNeg(_), NSgn(_)
NLe(a, b) == NSgn(NSub(a, b)) <= 0
NLt(a, b) == NSgn(NSub(a, b)) < 0
NEq(a, b) == NSgn(NSub(a, b)) = 0
NIsZero(a) == NSgn(a) = 0

Axes == 1..3
Frac(n, d) == IF NSgn(d) > 0 THEN <<n, d>> ELSE <<NNeg(n), NNeg(d)>>
TZero == <<NZero, NOne>>
TLe(s, t) == NLe(NMul(s[1], t[2]), NMul(t[1], s[2]))
TLt(s, t) == NLt(NMul(s[1], t[2]), NMul(t[1], s[2]))
TNonNeg(t) == NSgn(t[1]) >= 0

Cand(bx, pos, dir) ==
    {TZero} \cup {Frac(NSub(bx.mn[i], pos[i]), dir[i]) : i \in {a \in Axes : ~NIsZero(dir[a])}}
            \cup {Frac(NSub(bx.mx[i], pos[i]), dir[i]) : i \in {a \in Axes : ~NIsZero(dir[a])}}

\* d * (pos_i + t*dir_i), i.e. the point's coordinate scaled by the denominator
Scaled(pos, dir, t, i) == NAdd(NMul(pos[i], t[2]), NMul(t[1], dir[i]))
PointIn(bx, pos, dir, t) ==
    \A i \in Axes : /\ NLe(NMul(bx.mn[i], t[2]), Scaled(pos, dir, t, i))
                    /\ NLe(Scaled(pos, dir, t, i), NMul(bx.mx[i], t[2]))

IsEmpty(bx) == \E i \in Axes : NLt(bx.mx[i], bx.mn[i])
Hits(bx, pos, dir) == {t \in Cand(bx, pos, dir) : PointIn(bx, pos, dir, t)}
RayHits(bx, pos, dir) == {t \in Hits(bx, pos, dir) : TNonNeg(t)}

Hit(bx, pos, dir) == ~IsEmpty(bx) /\ RayHits(bx, pos, dir) # {}
LineHit(bx, pos, dir) == ~IsEmpty(bx) /\ Hits(bx, pos, dir) # {}
OriginInside(bx, pos, dir) == PointIn(bx, pos, dir, TZero)

Least(S) == CHOOSE t \in S : \A s \in S : TLe(t, s)
Greatest(S) == CHOOSE t \in S : \A s \in S : TLe(s, t)
FirstContact(bx, pos, dir) == Least(RayHits(bx, pos, dir))
Entry(bx, pos, dir) == Least(Hits(bx, pos, dir))
Exit(bx, pos, dir) == Greatest(Hits(bx, pos, dir))

\* ---- textbook slab method --------------------------------------------------
\* per axis: the parameter interval [lo, hi] in which the line is inside the slab
SlabLo(bx, pos, dir, i) == IF NSgn(dir[i]) > 0 THEN Frac(NSub(bx.mn[i], pos[i]), dir[i])
                           ELSE Frac(NSub(bx.mx[i], pos[i]), dir[i])
SlabHi(bx, pos, dir, i) == IF NSgn(dir[i]) > 0 THEN Frac(NSub(bx.mx[i], pos[i]), dir[i])
                           ELSE Frac(NSub(bx.mn[i], pos[i]), dir[i])
AlgoSlab(bx, pos, dir, rayOnly) ==
    LET moving == {i \in Axes : ~NIsZero(dir[i])}
        still  == Axes \ moving
    IN  /\ ~IsEmpty(bx)
        /\ \A i \in still : NLe(bx.mn[i], pos[i]) /\ NLe(pos[i], bx.mx[i])
        /\ \A i \in moving, j \in moving : TLe(SlabLo(bx, pos, dir, i), SlabHi(bx, pos, dir, j))
        /\ (rayOnly => \A j \in moving : TNonNeg(SlabHi(bx, pos, dir, j)))

\* ---- result relations --------------------------------------------------------
\* a reported point q (dyadic triple) against the exact point at parameter t
InBox(bx, q) == \A i \in Axes : NLe(bx.mn[i], q[i]) /\ NLe(q[i], bx.mx[i])
OnSurface(bx, q) == \E i \in Axes : NEq(q[i], bx.mn[i]) \/ NEq(q[i], bx.mx[i])
=============================================================================
