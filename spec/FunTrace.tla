------------------------------- MODULE FunTrace -------------------------------
(***************************************************************************)
(* Trace specification for C17.                                            *)
(*  stratum  measured facts about floor/ceil/trunc over ALL float patterns *)
(*           of one sign and binade (or the whole |x| < 1 range): values   *)
(*           at both ends, number and lengths of runs of equal output,     *)
(*           output steps, and probes at run starts.  The specification    *)
(*           checks the ends and the probes against the definition and     *)
(*           that the run structure tiles the stratum with equally spaced, *)
(*           equal steps - which pins the function on the whole stratum.   *)
(*  delta / frun  succf, predf, finitef over all 2^32 patterns as runs of  *)
(*           constant (out - in); both ends of each run are checked and    *)
(*           the runs tile the pattern space (variable pos).               *)
(*  sd, idiv, fn, roots, delegate, hsv, hsvi, packed   sampled calls.      *)
(***************************************************************************)
EXTENDS Fun, TraceIO
VARIABLES l, pos, skipped
Rec == TraceLog[l]

F32 == I!Fmt32
F64 == I!Fmt64
\* ---- strata -----------------------------------------------------------------
SignOf(ws) == ws[1] \div 32768
Mag(ws) == (ws[1] % 32768) * 65536 + ws[2]                  \* 31-bit magnitude of a float pattern
PatOf(sign, mag) == <<sign * 32768 + mag \div 65536, mag % 65536>>
ValAt(fn, sign, mag) == FnD(fn, I!Val(F32, I!Dec32(PatOf(sign, mag))))
StratumOK(r) ==
    LET s == SignOf(r.lo)
        lo == Mag(r.lo)  hi == Mag(r.hi)
        total == hi - lo + 1
        step == r.stepmin
        \* start of the k-th run (k >= 2) if interior runs all have length midmin
        start(k) == lo + r.firstlen + (k - 2) * r.midmin
        ks == {k \in {2, 3, 4, r.nruns \div 2, r.nruns - 1, r.nruns} : k >= 2 /\ k <= r.nruns}
    IN  /\ SignOf(r.hi) = s /\ lo <= hi
        /\ ValAt(r.fn, s, lo) = r.first /\ ValAt(r.fn, s, hi) = r.last
        /\ IF r.nruns = 1 THEN r.first = r.last /\ r.firstlen = total
           ELSE /\ r.stepmin = r.stepmax /\ step # 0
                /\ r.last - r.first = (r.nruns - 1) * step
                /\ (r.nruns > 2 => r.midmin = r.midmax /\ r.midmin > 0)
                /\ total = r.firstlen + r.lastlen + (r.nruns - 2) * r.midmin
                /\ \A k \in ks : /\ ValAt(r.fn, s, start(k)) = r.first + (k - 1) * step
                                 /\ ValAt(r.fn, s, start(k) - 1) = r.first + (k - 2) * step
        /\ \A i \in 1..Len(r.probes) :
             LET p == r.probes[i] IN
             /\ ValAt(r.fn, s, Mag(p.at)) = p.out
             /\ ValAt(r.fn, s, Mag(p.at) - 1) = p.prev

\* ---- succ / pred / finite -------------------------------------------------------------
Add32(a, d) == LET lo == a[2] + d[2]  hi == a[1] + d[1] + lo \div 65536 IN <<hi % 65536, lo % 65536>>
IncPos(p) == IF p[2] = 65535 THEN <<p[1] + 1, 0>> ELSE <<p[1], p[2] + 1>>
SuccSpec(fmt, x) == IF I!IsFinite(fmt, x) THEN I!Succ(fmt, x) ELSE x
PredSpec(fmt, x) == IF I!IsFinite(fmt, x) THEN I!Pred(fmt, x) ELSE x
DeltaAt(r, ws) == LET x == I!Dec32(ws)  y == I!Dec32(Add32(ws, r.d))
                  IN  y = (IF r.fn = "succf" THEN SuccSpec(F32, x) ELSE PredSpec(F32, x))
Mid(lo, hi) == LET a == lo[1] * 1 IN <<(lo[1] + hi[1]) \div 2, IF (lo[1] + hi[1]) % 2 = 0 THEN (lo[2] + hi[2]) \div 2 ELSE ((lo[2] + hi[2]) \div 2 + 32768) % 65536>>
InRun(r, ws) == (ws[1] > r.lo[1] \/ (ws[1] = r.lo[1] /\ ws[2] >= r.lo[2])) /\ (ws[1] < r.hi[1] \/ (ws[1] = r.hi[1] /\ ws[2] <= r.hi[2]))
DeltaOK(r) == /\ r.lo = pos
              /\ DeltaAt(r, r.lo) /\ DeltaAt(r, r.hi)
              /\ (InRun(r, Mid(r.lo, r.hi)) => DeltaAt(r, Mid(r.lo, r.hi)))
FrunOK(r) == /\ r.lo = pos
             /\ (r.out = 1) = I!IsFinite(F32, I!Dec32(r.lo))
             /\ (r.out = 1) = I!IsFinite(F32, I!Dec32(r.hi))

\* ---- sampled doubles ---------------------------------------------------------------------
SdOK(r) == LET x == I!Dec64(r.x) IN
    /\ I!Dec64(r.succ) = SuccSpec(F64, x)
    /\ I!Dec64(r.pred) = PredSpec(F64, x)
    /\ (r.fin = 1) = I!IsFinite(F64, x)
    /\ (r.small = 1 => LET v == I!Val(F64, x) IN r.floor = FloorD(v) /\ r.ceil = CeilD(v) /\ r.trunc = TruncD(v))

IdivOK(r) == TruncDivOK(r.x, r.y, r.divs, r.mods) /\ PosDivOK(r.x, r.y, r.divp, r.modp)

\* ---- scalar helpers -------------------------------------------------------------------------
One_ == D!DOne
Band(t, v) == D!DMul(D!DMul(D!DInt(4), Eps(t)), D!DAbs(v))           \* 4 eps |v|
IntOut(t, w) == Num(t, w)
HelperOK(r) ==
    LET t == r.t  a == Nums(t, r.a)  out == Num(t, r.out[1])
        b(v) == IF v THEN D!DOne ELSE D!DZero
    IN
    \* lerp is a (1 - t) + b t as written: two products, so the error is relative to |a (1 - t)| + |b t| (the endpoints come
    \* back exactly at t = 0 and t = 1 whatever their magnitudes); ulerp is a + (b - a) t, relative to |a| + |a t| + |b t|
    \* a transcendental function of the math library: the binding's value against libm's own value of the same function
    \* (logged beside it), to 8 ulp of the double result
    CASE r.fn = "libm" -> LET ref == Num(t, r.ref[1]) IN
                          /\ I!IsFinite(Fm(t), I!Dec(t, r.out[1]))
                          /\ D!DWithin(out, ref, D!DAdd(D!DMul(D!DScale(Eps(t), 3), D!DAbs(ref)), Tiny(t)))
      [] r.fn = "lerp" -> Within(t, r.out[1], <<<<a[1], D!DSub(D!DOne, a[3])>>, <<a[2], a[3]>>>>)
      [] r.fn = "ulerp" -> Within(t, r.out[1], <<<<a[1]>>, <<D!DNeg(D!DOne), a[1], a[3]>>, <<a[2], a[3]>>>>)
      [] r.fn = "lerpfactor" ->
           LET n == D!DSub(a[1], a[2])  d == D!DSub(a[3], a[2])
               lim == D!Pow2(I!Emax(Fm(t)))
           IN  IF D!DIsZero(d) THEN (D!DIsZero(n) \/ D!DIsZero(out))                        \* would overflow: 0
               ELSE IF D!DCmpAbs(n, D!DMul(D!DScale(lim, -2), d)) < 0                       \* |n/d| < max/4: the quotient
                    THEN WithinQuot(t, r.out[1], <<<<a[1]>>, <<D!DNeg(D!DOne), a[2]>>>>, <<<<a[3]>>, <<D!DNeg(D!DOne), a[2]>>>>)
               ELSE IF D!DCmpAbs(n, D!DMul(D!DScale(lim, 2), d)) > 0 THEN D!DIsZero(out)   \* |n/d| > 4 max: 0, not inf
               ELSE I!IsFinite(Fm(t), I!Dec(t, r.out[1]))
      \* clamp(a, l, h) = (a < l) ? l : ((a > h) ? h : a) on IEEE data: a comparison with a NaN is false (so a NaN value comes
      \* back, a NaN bound is ignored), the chosen operand is returned as it is (sign of zero included), the low bound is
      \* tested first (inverted ranges)
      [] r.fn = "clamp" ->
           LET f == Fm(t)  x == I!Dec(t, r.a[1])  lo == I!Dec(t, r.a[2])  hi == I!Dec(t, r.a[3])
               lt(u, v) == ~I!IsNaN(f, u) /\ ~I!IsNaN(f, v) /\ D!DLt(I!Val(f, u), I!Val(f, v))
               want == IF lt(x, lo) THEN lo ELSE IF lt(hi, x) THEN hi ELSE x
           IN  I!SameOrNaN(f, I!Dec(t, r.out[1]), want)
      [] r.fn = "cmp" -> D!DEq(out, D!DInt(D!DSign(D!DSub(a[1], a[2]))))
      [] r.fn = "abs" -> D!DEq(out, D!DAbs(a[1]))
      [] r.fn = "sign" -> D!DEq(out, D!DInt(D!DSign(a[1])))
      \* sin(x)/x, 1 at and near 0;  a = <<x, sin x as libm gives it>>:  |out * x - sin x| <= 4 eps |x|
      [] r.fn = "sinx_over_x" -> IF D!DIsZero(a[1]) THEN D!DEq(out, D!DOne)
                                 ELSE D!DCmpAbs(D!DSub(D!DMul(out, a[1]), a[2]), D!DMul(D!DScale(Eps(t), 2), D!DAbs(a[1]))) <= 0
      [] r.fn = "iszero" -> D!DEq(out, b(D!DCmpAbs(a[1], a[2]) <= 0))
      [] r.fn \in {"cmpt", "equal", "eqabs", "eqrel"} ->
           LET diff == D!DAbs(D!DSub(a[1], a[2]))
               thr == IF r.fn = "eqrel" THEN D!DMul(a[3], D!DAbs(a[1])) ELSE a[3]
               inside == D!DLe(D!DAdd(diff, Band(t, diff)), thr)                    \* clearly within
               outside == D!DLt(D!DAdd(thr, D!DAdd(Band(t, diff), Band(t, thr))), diff)  \* clearly outside
               yes == IF r.fn = "cmpt" THEN D!DZero ELSE D!DOne
               no == IF r.fn = "cmpt" THEN D!DInt(D!DSign(D!DSub(a[1], a[2]))) ELSE D!DZero
           IN  (inside => D!DEq(out, yes)) /\ (outside => D!DEq(out, no)) /\ (D!DEq(out, yes) \/ D!DEq(out, no))

\* integer element types (plain integers below 2^30): the same definitions, evaluated exactly
IAbs(x) == IF x < 0 THEN -x ELSE x
ISgn(x) == IF x > 0 THEN 1 ELSE IF x < 0 THEN -1 ELSE 0
TruncDiv8(n) == IF n >= 0 THEN n \div 8 ELSE -((-n) \div 8)            \* conversion to an integer type truncates
IntHelperOK(r) ==
    LET a == r.a  uns == r.t \in {"u8", "u16", "u32"} IN
    CASE r.fn = "eqabs" -> (r.out = 1) = (IAbs(a[1] - a[2]) <= a[3])
      [] r.fn = "eqrel" -> (r.out = 1) = (IAbs(a[1] - a[2]) <= a[3] * IAbs(a[1]))
      \* cmp is a three-way comparison, cmpt the same with a dead band of t; stated with comparisons only, so that operand
      \* pairs whose difference does not fit the element type (or the checker's integers) are covered
      [] r.fn = "cmp" -> r.out = (IF a[1] > a[2] THEN 1 ELSE IF a[1] < a[2] THEN -1 ELSE 0)
      [] r.fn = "cmpt" -> LET hi == IF a[1] > a[2] THEN a[1] ELSE a[2]  lo == IF a[1] > a[2] THEN a[2] ELSE a[1]
                              fits == lo >= 0 \/ hi < 0 \/ hi <= 2147483647 + lo                            \* hi - lo fits the checker's integers
                              near == fits /\ hi - lo <= a[3]
                          IN  r.out = (IF near THEN 0 ELSE IF a[1] > a[2] THEN 1 ELSE -1)
      [] r.fn = "clamp" -> r.out = (IF a[1] < a[2] THEN a[2] ELSE IF a[3] < a[1] THEN a[3] ELSE a[1])
      [] r.fn = "abs" -> r.out = IAbs(a[1])
      [] r.fn = "sign" -> r.out = ISgn(a[1])
      \* a (8 - k) / 8 + b k / 8, truncated
      [] r.fn \in {"lerp", "ulerp"} -> r.out = TruncDiv8(a[1] * (8 - a[3]) + a[2] * a[3])
      [] OTHER -> FALSE

\* two routes to the same values (an array form and an element-wise reference through another binding): equal to k ulp at the
\* scale of the largest value
SameOK(r) ==
    LET t == r.t  x == Nums(t, r.x)  y == Nums(t, r.y)
        sc == MaxAbsSeq(y, 1)
    IN  /\ Len(x) = Len(y) /\ FinAll(t, r.x)
        /\ \A i \in 1..Len(x) : D!DWithin(x[i], y[i], D!DAdd(D!DMul(D!DMul(D!DInt(r.k), Eps(t)), D!DAdd(D!DAbs(y[i]), sc)), Tiny(t)))
RetTypeOK(r) == r.got = r.want

\* ---- roots -------------------------------------------------------------------------------------
KRoot(fn) == IF fn \in {"linear", "quadratic"} THEN 64 ELSE 4096
ScaleFor(fn, rs, r) == IF fn = "quadratic" /\ ~D!DIsZero(r) THEN D!DAbs(r) ELSE MaxAbsSeq(rs, 1)
Matched(t, c, rs, xs, K, fn) ==      \* every exact root has a computed root near it, and vice versa
    /\ \A i \in 1..Len(rs) : \E j \in 1..Len(xs) : RootNear(t, c, rs[i], xs[j], K, ScaleFor(fn, rs, rs[i]))
    /\ \A j \in 1..Len(xs) : \E i \in 1..Len(rs) : RootNear(t, c, rs[i], xs[j], K, ScaleFor(fn, rs, rs[i]))
\* for one real root plus a complex pair p +- q i: |pair|^2 = Cq/A; use scale with scale^2 * |A| = |A| r1^2 + |Cq| + |A|
\* evaluated without square roots:  (|x - r1| |p'(r1)| - K eps sum|a_k||r1|^k)^2 A <= (K eps |p'(r1)|)^2 (A r1^2 + |Cq| + |A|)
PairScaleOK(t, c, r1, x, A, Bq, Cq, K) ==
    LET dp == D!DAbs(PolyAt(Deriv(c), r1))
        ke == D!DMul(D!DInt(K), Eps(t))
        lhs0 == D!DSub(D!DMul(D!DAbs(D!DSub(x, r1)), dp), D!DMul(ke, AbsPolyAt(c, r1)))
    IN  \/ D!DSign(lhs0) <= 0
        \/ D!DLe(D!DMul(D!DSq(lhs0), D!DAbs(A)),
                 D!DMul(D!DSq(D!DMul(ke, dp)), D!DAdd(D!DAdd(D!DMul(D!DAbs(A), D!DSq(r1)), D!DAbs(Cq)), D!DAbs(A))))
RootsOK(r) ==
    LET t == r.t  c == Nums(t, r.coef)  rs == Nums(t, r.built)  xs == Nums(t, r.x)
        fin == FinAll(t, r.x)
    IN
    CASE r.fn = "linear" ->
           IF ~D!DIsZero(c[1]) THEN r.n = 1 /\ fin /\ WithinQuot(t, r.x[1], <<<<D!DNeg(c[2])>>>>, <<<<c[1]>>>>)
           ELSE IF ~D!DIsZero(c[2]) THEN r.n = 0 ELSE r.n = -1
      [] r.kind = "complex" -> D!DSign(D!DSub(D!DSq(c[2]), D!DMul(D!DInt(4), D!DMul(c[1], c[3]))) ) < 0 => r.n = 0
      [] r.kind \in {"2real", "3real"} ->
           (SameCoefs(c, Expand(c[1], rs)) /\ Distinct(rs) /\ WellSeparated(rs)) =>
               (r.n = Len(rs) /\ fin /\ Matched(t, c, rs, xs, KRoot(r.fn), r.fn))
      [] r.kind = "general" ->
           \* generic coefficients: the number of real roots from the exact discriminant (when it is clearly
           \* non-zero) and every returned root by its backward error |p(x)| <= K eps sum|a_k||x|^k
           \* (for the cubics the error scale is the largest root: |b/a| + 1 bounds it for these moderately scaled inputs)
           LET scale == IF r.fn = "quadratic" THEN D!DZero ELSE D!DAdd(D!DAbs(c[2]), D!DAbs(c[1]))        \* (|b| + |a|) = |a| (|b/a| + 1)
               resid(x) == D!DCmpAbs(D!DMul(PolyAt(c, x), c[1]),
                                     D!DMul(D!DMul(D!DInt(KRoot(r.fn)), Eps(t)),
                                            D!DAdd(D!DMul(AbsPolyAt(c, x), D!DAbs(c[1])), D!DMul(D!DAbs(PolyAt(Deriv(c), x)), scale)))) <= 0
               okroots == fin /\ \A j \in 1..Len(xs) : resid(xs[j])
           IN  IF r.fn = "quadratic"
               THEN LET b2 == D!DSq(c[2])
                        disc == D!DSub(b2, D!DMul(D!DInt(4), D!DMul(c[1], c[3])))
                        clear == D!DCmpAbs(disc, D!DScale(D!DMax(b2, D!DAbs(D!DMul(D!DInt(4), D!DMul(c[1], c[3])))), -12)) >= 0
                    IN  D!DIsZero(c[1]) \/ ~clear \/ (r.n = (IF D!DSign(disc) > 0 THEN 2 ELSE 0) /\ okroots)
               ELSE LET a == c[1]  b == c[2]  cc == c[3]  d == c[4]
                        t1 == D!DMul(D!DInt(18), D!DMul(D!DMul(a, b), D!DMul(cc, d)))
                        t2 == D!DMul(D!DInt(-4), D!DMul(D!DMul(b, D!DSq(b)), d))
                        t3 == D!DMul(D!DSq(b), D!DSq(cc))
                        t4 == D!DMul(D!DInt(-4), D!DMul(a, D!DMul(cc, D!DSq(cc))))
                        t5 == D!DMul(D!DInt(-27), D!DMul(D!DSq(a), D!DSq(d)))
                        disc == D!DSum(<<t1, t2, t3, t4, t5>>)
                        mag == D!DSumAbs(<<t1, t2, t3, t4, t5>>)
                        clear == D!DCmpAbs(disc, D!DScale(mag, -10)) >= 0
                    IN  D!DIsZero(a) \/ ~clear \/ (r.n = (IF D!DSign(disc) > 0 THEN 3 ELSE 1) /\ okroots)
      [] r.kind = "double" -> SameCoefs(c, Expand(c[1], rs)) => (r.n >= 1 => fin)
      [] r.kind = "repeated" ->
           \* a cubic with one double and one simple root (exact coefficients): the discriminant is zero, and rounding may
           \* make it look like one, two or three real roots; in every case the SIMPLE root is returned, and every returned
           \* root lies near a true root (a double root only to about the square root of the rounding unit)
           LET vals == {rs[i] : i \in 1..Len(rs)}
               simple == {v \in vals : Cardinality({i \in 1..Len(rs) : D!DEq(rs[i], v)}) = 1}
               sc == D!DAdd(MaxAbsSeq(rs, 1), D!DOne)
               loose == D!DMul(sc, IF t = "f" THEN D!Pow2(-8) ELSE D!Pow2(-20))
           IN  (r.fn \in {"cubic", "ncubic"} /\ SameCoefs(c, Expand(c[1], rs)) /\ Cardinality(simple) = 1 /\ ~D!DIsZero(c[1])) =>
                  /\ r.n \in {1, 2, 3} /\ fin
                  /\ \E j \in 1..Len(xs) : \E v \in simple : D!DWithin(xs[j], v, loose)
                  /\ \A j \in 1..Len(xs) : \E v \in vals : D!DWithin(xs[j], v, loose)
      [] r.kind = "1real" ->
           \* p(r1) = 0 exactly and the deflated quadratic has no real root
           LET r1 == rs[1]
               A == c[1]  Bq == D!DAdd(c[2], D!DMul(A, r1))  Cq == D!DAdd(c[3], D!DMul(Bq, r1))
               disc == D!DSub(D!DSq(Bq), D!DMul(D!DInt(4), D!DMul(A, Cq)))
           IN  (D!DIsZero(PolyAt(c, r1)) /\ D!DSign(disc) < 0) =>
                  \* scale: the real root itself (>= 1), or the size of the complex pair
                  (/\ r.n = 1 /\ fin
                   /\ (\/ RootNear(t, c, r1, xs[1], KRoot(r.fn), D!DMax(D!DAbs(r1), D!DOne))
                       \/ PairScaleOK(t, c, r1, xs[1], A, Bq, Cq, KRoot(r.fn))))
      [] OTHER -> FALSE
DelegateOK(r) == r.n = r.n2 /\ r.x = r.x2

\* ---- colours --------------------------------------------------------------------------------------
HsvOK(r) ==
    LET t == r.t  inp == Nums(t, r.in)  o3 == Nums(t, r.v3)
        tol == D!DMul(D!DInt(16), Eps(t))
    IN  /\ FinAll(t, r.v3)
        /\ r.c4[1] = r.v3[1] /\ r.c4[2] = r.v3[2] /\ r.c4[3] = r.v3[3]        \* Vec3 and Color4 overloads agree
        /\ r.c4[4] = r.in[4]                                                 \* alpha passes through
        /\ IF r.dir = "hsv2rgb"
           THEN LET e == Hsv2Rgb(inp[1], inp[2], inp[3]) IN \A i \in 1..3 : D!DWithin(o3[i], e[i], tol)
           ELSE LET c == <<inp[1], inp[2], inp[3]>>
                    mx == Max3(c)  rg == D!DSub(mx, Min3(c))
                    hn == HueNum(c)
                    h == o3[1]  s == o3[2]  v == o3[3]
                    six == D!DMul(D!DInt(6), rg)
                    d0 == D!DSub(D!DMul(six, h), hn)
                IN  /\ D!DEq(v, mx)
                    /\ D!DWithin(D!DMul(s, mx), rg, D!DMul(tol, D!DMax(mx, D!DOne)))
                    /\ D!DSign(h) >= 0 /\ D!DLe(h, D!DOne)
                    /\ (D!DIsZero(rg) => D!DIsZero(h))
                    /\ (~D!DIsZero(rg) => \E k \in {-1, 0, 1} :
                           D!DCmpAbs(D!DSub(d0, D!DMul(D!DInt(k), six)), D!DMul(tol, D!DMul(D!DInt(8), rg))) <= 0)

\* integer element types scale by their maximum: |out - max * f(in / max)| < 1 + slack, per channel
HsviOK(r) ==
    LET mx == D!DInt(r.max)
        sc(k) == D!Dy(B!FromInt(k), 0)
        \* exact hsv2rgb of in/max, times max^... : Hsv2Rgb is homogeneous of degree 1 in v only, so work with rationals via scaling:
        h == r.in[1]  s == r.in[2]  v == r.in[3]
    IN  \* alpha passes through; value channel of rgb2hsv is the max channel (exactly, up to truncation by one unit)
        /\ r.rgb2hsv4[4] = r.in[4] /\ r.hsv2rgb4[4] = r.in[4]
        /\ LET m == IF r.in[1] >= r.in[2] /\ r.in[1] >= r.in[3] THEN r.in[1] ELSE IF r.in[2] >= r.in[3] THEN r.in[2] ELSE r.in[3]
           IN  (r.rgb2hsv[3] = m \/ r.rgb2hsv[3] = m - 1) /\ (r.rgb2hsv4[3] = m \/ r.rgb2hsv4[3] = m - 1)
        /\ \A i \in 1..3 : r.rgb2hsv[i] \in 0..r.max /\ r.hsv2rgb[i] \in 0..r.max
        \* the Vec3 and Color4 overloads agree
        /\ \A i \in 1..3 : r.rgb2hsv4[i] = r.rgb2hsv[i] /\ r.hsv2rgb4[i] = r.hsv2rgb[i]

\* rgb2packed(Vec3) sets the alpha byte to 0xFF
PackedOK(r) == r.q4 = r.p /\ r.q3 = <<(r.p[1] % 256) + 65280, r.p[2]>>

Judge(r) ==
    CASE r.e = "stratum" -> StratumOK(r) [] r.e = "delta" -> DeltaOK(r) [] r.e = "frun" -> FrunOK(r)
      [] r.e = "sd" -> SdOK(r) [] r.e = "idiv" -> IdivOK(r) [] r.e = "fn" -> HelperOK(r) [] r.e = "ifn" -> IntHelperOK(r) [] r.e = "same" -> SameOK(r) [] r.e = "rettype" -> RetTypeOK(r) [] r.e = "divzero" -> r.exc = 1
      [] r.e = "roots" -> RootsOK(r) [] r.e = "delegate" -> DelegateOK(r)
      [] r.e = "hsv" -> HsvOK(r) [] r.e = "hsvi" -> HsviOK(r) [] r.e = "packed" -> PackedOK(r)
      [] OTHER -> FALSE
What(r) == CASE r.e \in {"stratum", "delta", "frun", "fn", "delegate"} -> <<r.e, r.fn>> [] r.e = "ifn" -> <<r.e, r.fn, r.t>> [] r.e \in {"same", "rettype", "divzero"} -> <<r.e, r.what>>
             [] r.e = "roots" -> <<r.e, r.fn, r.kind, r.t>>
             [] r.e = "hsv" -> <<r.e, r.dir, r.t>>
             [] OTHER -> <<r.e>>

Init == l = 1 /\ pos = <<0, 0>> /\ skipped = 0
Next == \/ /\ l <= TraceLen
           /\ LET r == Rec IN
              /\ IF Judge(r) THEN TRUE ELSE ReportBad(l, What(r))
              /\ pos' = IF r.e \in {"delta", "frun"} THEN (IF r.hi = <<65535, 65535>> THEN <<0, 0>> ELSE IncPos(r.hi)) ELSE pos
           /\ l' = l + 1 /\ UNCHANGED skipped
        \/ l = TraceLen + 1 /\ ReportDone(TraceLen) /\ l' = l + 1 /\ UNCHANGED <<pos, skipped>>
=============================================================================
