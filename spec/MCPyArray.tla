----------------------------- MODULE MCPyArray -----------------------------
(***************************************************************************)
(* Bounded model of PyArray.  Small scope: arrays of length 0..MaxLen,     *)
(* indices and slice bounds over Bnd (and None), all 0/1 masks.            *)
(*  - SliceRefines (checked on the whole scope in the initial state):      *)
(*    the implementation-shaped slice normalisation equals Python's        *)
(*    definition, and every selected index is inside the sequence;         *)
(*  - histories of API calls to depth MaxDepth with invariants NoOOB,      *)
(*    and the action property ReadOnlyFrozen (a buffer all of whose live   *)
(*    references are read-only never changes);                             *)
(*  - Export prints complete histories for replay into the real module.    *)
(* With Sim = TRUE large choice sets are sub-sampled (for -simulate).      *)
(***************************************************************************)
EXTENDS PyArray, Json, Randomization

CONSTANTS MaxLen, MaxDepth, Sim, BndLo, BndHi, Steps
VARIABLES st, depth, hist
vars == <<st, depth, hist>>

BLo == -2
BLoWide == -6
StepsSmall == {-1, 1, 2}
StepsWide == {-3, -2, -1, 1, 2, 3}
Bnd == (BndLo..BndHi) \cup {None}
StepsN == Steps \cup {None}
Slices == {[start |-> a, stop |-> b, step |-> c] : a \in Bnd, b \in Bnd, c \in StepsN}
Idx == BndLo..BndHi
Names == <<"a", "b", "c", "d", "e", "f", "g", "h", "i", "j", "k", "l", "m", "n", "p", "q">>
Fresh(s) == Names[Cardinality(DOMAIN s.objs \cup {h.r : h \in {hist[k] : k \in 1..Len(hist)} \cap {x \in {hist[k] : k \in 1..Len(hist)} : "r" \in DOMAIN x}}) + 1]
Masks(n) == [1..n -> {0, 1}]
Pick(k, S) == IF Sim /\ Cardinality(S) > k THEN RandomSubset(k, S) ELSE S
Live == DOMAIN st.objs
\* masks applied to masked references are outside the property (the code documents them as
\* unsupported); the model never generates them
Plain(o) == ~st.objs[o].masked
Writes == {"setscalar", "setslice", "setvec", "setmaskscalar", "setmaskvec", "iadd", "iadd_v"}

SliceRefines ==
    \A n \in 0..MaxLen : \A sl \in Slices :
        /\ SliceDef(n, sl) = SliceAlgo(n, sl)
        /\ \A k \in 1..Len(SliceDef(n, sl)) : SliceDef(n, sl)[k] \in 0..(n - 1)

Events ==
    LET fresh == Fresh(st) IN
    {[op |-> "new", r |-> fresh, vals |-> [k \in 1..n |-> 10 * k + Cardinality(Live)]] : n \in Pick(2, 0..MaxLen)}
    \cup UNION {
      {[op |-> "getitem", o |-> o, i |-> i] : i \in Pick(3, Idx)}
      \cup {[op |-> "getslice", o |-> o, key |-> k, r |-> fresh] : k \in Pick(3, Slices)}
      \cup {[op |-> "getmask", o |-> o, m |-> m, r |-> fresh] : m \in IF Plain(o) THEN Pick(2, Masks(OLen(st, o)) \cup Masks(1)) ELSE {}}
      \cup {[op |-> "copy", o |-> o, r |-> fresh]}
      \cup {[op |-> "readonly", o |-> o], [op |-> "len", o |-> o], [op |-> "writable", o |-> o], [op |-> "release", o |-> o]}
      \cup {[op |-> "setscalar", o |-> o, i |-> k, v |-> 7] : k \in Pick(2, Idx)}
      \cup {[op |-> "setslice", o |-> o, key |-> k, v |-> 6] : k \in Pick(2, Slices)}
      \cup {[op |-> "setmaskscalar", o |-> o, m |-> m, v |-> 8] : m \in IF Plain(o) THEN Pick(2, Masks(OLen(st, o)) \cup Masks(2)) ELSE {}}
      \cup {[op |-> "iadd", o |-> o, v |-> 1]}
      \cup {[op |-> "ifelse_s", o |-> o, m |-> m, v |-> 9, r |-> fresh] : m \in Pick(1, Masks(OLen(st, o)))}
      \cup UNION {
            {[op |-> "setvec", o |-> o, key |-> k, src |-> s] : k \in Pick(2, Slices)}
            \cup {[op |-> "setmaskvec", o |-> o, m |-> m, src |-> s] : m \in IF Plain(o) THEN Pick(2, Masks(OLen(st, o))) ELSE {}}
            \cup {[op |-> "ifelse_v", o |-> o, m |-> m, src |-> s, r |-> fresh] : m \in Pick(1, Masks(OLen(st, o)))}
            \cup {[op |-> "iadd_v", o |-> o, src |-> s]}
            : s \in {x \in Live : st.objs[x].buf # st.objs[o].buf} }    \* source and destination do not alias
      : o \in Live }

Init == st = EmptyState /\ depth = 0 /\ hist = <<>>

\* directed start: a read-only array with a masked reference, an alias and a slice derived
\* from it (before and after makeReadOnly), plus an unrelated writable array; from here
\* every event is explored exhaustively (PyArrayRO.cfg), so that every write path is
\* tried through every kind of derived view
RECURSIVE Run(_, _, _)
Run(s, evs, k) == IF k > Len(evs) THEN s ELSE Run(Apply(s, evs[k]).st, evs, k + 1)
Prefix == << [op |-> "new", r |-> "a", vals |-> <<10, 20, 30>>],
             [op |-> "getmask", o |-> "a", m |-> <<1, 0, 1>>, r |-> "b"],
             [op |-> "readonly", o |-> "a"],
             [op |-> "getmask", o |-> "a", m |-> <<0, 1, 1>>, r |-> "c"],
             [op |-> "copy", o |-> "a", r |-> "d"],
             [op |-> "new", r |-> "e", vals |-> <<14, 24>>] >>
InitRO == st = Run(EmptyState, Prefix, 1) /\ depth = 0 /\ hist = Prefix
Next == /\ depth < MaxDepth
        /\ \E ev \in Events :
             /\ st' = Apply(st, ev).st
             /\ hist' = Append(hist, ev)
        /\ depth' = depth + 1
Spec == Init /\ [][Next]_vars

\* every live object only ever addresses cells inside its buffer
NoOOB == \A o \in Live : \A k \in 1..Len(st.objs[o].idx) :
            st.objs[o].idx[k] \in 0..(Len(st.heap[st.objs[o].buf]) - 1)
\* a failing call leaves the heap unchanged; a buffer whose live references are all
\* read-only is frozen
ReadOnlyFrozen ==
    [][\A b \in 1..Len(st.heap) :
          (\A o \in Live : st.objs[o].buf = b => ~st.objs[o].w) /\ (\E o \in Live : st.objs[o].buf = b)
             => st'.heap[b] = st.heap[b]]_vars
\* a view derived from a read-only object is read-only
DerivedReadOnly ==
    [][\A o \in DOMAIN st'.objs \ Live :
          LET ev == hist'[Len(hist')] IN
          ("o" \in DOMAIN ev /\ ev.op \in {"getmask", "copy"} /\ ~st.objs[ev.o].w) => ~st'.objs[o].w]_vars
SliceRefinesInit == depth = 0 => SliceRefines
Export == depth = MaxDepth => PrintT("BEHAVIOUR " \o ToJson(hist))
=============================================================================
