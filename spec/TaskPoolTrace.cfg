INIT TInit
NEXT TNext
CHECK_DEADLOCK FALSE
