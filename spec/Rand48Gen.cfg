CONSTANT Depth = 4
INIT Init
NEXT Next
INVARIANT Export
CHECK_DEADLOCK FALSE
