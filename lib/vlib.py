"""Shared driver library for /verif checks.

The Python side only builds, runs, shards and collects.  Every verdict comes
from TLC evaluating the TLA+ specification in /verif/spec: model runs
(MC*.tla) and trace validation (*Trace.tla) of executions recorded from the
code in $VERIF_REPO (default /repo), rebuilt from its current working tree.
"""
import concurrent.futures as cf
import hashlib
import json
import os
import re
import shutil
import subprocess
import sys
import time

VERIF = os.path.dirname(os.path.dirname(os.path.abspath(__file__)))
REPO = os.environ.get("VERIF_REPO", "/repo")
BUILD = os.environ.get("VERIF_BUILD", os.path.join(VERIF, ".build"))
SPEC = os.path.join(VERIF, "spec")
HARNESS = os.path.join(VERIF, "harness")
NCPU = int(os.environ.get("VERIF_JOBS", "0")) or os.cpu_count() or 4
SEED = int(os.environ.get("VERIF_SEED", "1") or "1")
TLC_JAR = "/opt/veriftools/tla/tla2tools.jar:/opt/veriftools/tla/CommunityModules-deps.jar"


class Infra(Exception):
    """Infrastructure failure: exit 2, never reported as a violation."""


def log(*a):
    print(*a, flush=True)


def sh(cmd, timeout=3600, cwd=None, env=None, check=True, quiet=True):
    e = dict(os.environ)
    if env:
        e.update(env)
    p = subprocess.run(cmd, shell=isinstance(cmd, str), cwd=cwd, env=e, timeout=timeout,
                       stdout=subprocess.PIPE, stderr=subprocess.STDOUT, text=True, errors="replace")
    if check and p.returncode != 0:
        raise Infra("command failed (%d): %s\n%s" % (p.returncode, cmd if isinstance(cmd, str) else " ".join(cmd), p.stdout[-4000:]))
    return p


# ---------------------------------------------------------------------------
# building against the current working tree of the repository

def _hash_files(paths, extra=""):
    h = hashlib.sha256(extra.encode())
    for p in sorted(paths):
        h.update(p.encode())
        try:
            with open(p, "rb") as f:
                h.update(f.read())
        except OSError:
            h.update(b"<missing>")
    return h.hexdigest()[:16]


def repo_sources(subdirs=("src/Imath", "config")):
    out = []
    for sd in subdirs:
        root = os.path.join(REPO, sd)
        for dp, dn, fn in os.walk(root):
            for f in fn:
                if f.endswith((".h", ".cpp", ".c", ".in", ".txt", ".cmake")):
                    out.append(os.path.join(dp, f))
    out.append(os.path.join(REPO, "CMakeLists.txt"))
    return out


_cfg_done = {}


def config_dir():
    """cmake-configure the repo (no build) to obtain ImathConfig.h; cached by content hash."""
    if "d" in _cfg_done:
        return _cfg_done["d"]
    key = _hash_files(repo_sources(("config", "cmake")) + [os.path.join(REPO, "CMakeLists.txt"), os.path.join(REPO, "src/Imath/CMakeLists.txt")], REPO)
    d = os.path.join(BUILD, "cfg-" + key)
    if not os.path.exists(os.path.join(d, "config", "ImathConfig.h")):
        os.makedirs(d, exist_ok=True)
        sh(["cmake", "-S", REPO, "-B", d, "-G", "Ninja", "-DBUILD_TESTING=OFF"], timeout=600)
    _cfg_done["d"] = os.path.join(d, "config")
    return _cfg_done["d"]


def src_key():
    if "k" not in _cfg_done:
        _cfg_done["k"] = _hash_files(repo_sources())
    return _cfg_done["k"]


def compile_harness(name, sources, flags=(), cxx="g++", std="-std=c++14", link_half=True, opt="-O2", libs=()):
    """Compile harness TU(s) against the repo headers (and half.cpp).  The binary is
    cached under a key covering every repo source, so any edit to /repo rebuilds."""
    cfg = config_dir()
    srcs = [s if os.path.isabs(s) else os.path.join(HARNESS, s) for s in sources]
    hdrs = [os.path.join(HARNESS, f) for f in os.listdir(HARNESS) if f.endswith(".h")]
    key = _hash_files(srcs + hdrs, src_key() + " ".join(flags) + cxx + std + opt + str(link_half) + " ".join(libs))
    bindir = os.path.join(BUILD, "bin")
    os.makedirs(bindir, exist_ok=True)
    out = os.path.join(bindir, "%s-%s" % (name, key))
    if os.path.exists(out):
        return out
    for old in os.listdir(bindir):
        if old.startswith(name + "-"):
            try:
                os.remove(os.path.join(bindir, old))
            except OSError:
                pass
    inc = ["-I", os.path.join(REPO, "src/Imath"), "-I", cfg, "-I", HARNESS]
    objs = []
    tmp = out + ".o.d"
    os.makedirs(tmp, exist_ok=True)
    jobs = []
    for s in srcs:
        o = os.path.join(tmp, os.path.basename(s) + ".o")
        if s.endswith(".c") and cxx in ("gcc", "clang"):
            cmd = [cxx, opt, "-g0"] + list(flags) + inc + ["-c", s, "-o", o]
        elif s.endswith(".c"):
            cmd = [cxx, "-x", "c++", std, opt, "-g0"] + list(flags) + inc + ["-c", s, "-o", o]
        else:
            cmd = [cxx, std, opt, "-g0"] + list(flags) + inc + ["-c", s, "-o", o]
        jobs.append(cmd)
        objs.append(o)
    if link_half:
        o = os.path.join(tmp, "half.cpp.o")
        cxxl = "g++" if cxx in ("gcc", "g++") else "clang++"
        jobs.append([cxxl, "-std=c++14", opt, "-g0"] + [f for f in flags if f.startswith("-D") or f.startswith("-m")] + inc + ["-c", os.path.join(REPO, "src/Imath/half.cpp"), "-o", o])
        objs.append(o)
    with cf.ThreadPoolExecutor(max_workers=NCPU) as ex:
        for r in ex.map(lambda c: sh(c, timeout=1800, check=False), jobs):
            if r.returncode != 0:
                raise Infra("harness compile failed:\n" + r.stdout[-6000:])
    linker = "g++" if cxx in ("gcc", "g++") else "clang++"
    sh([linker, "-o", out + ".tmp"] + objs + ["-lpthread", "-lm"] + list(libs), timeout=600)
    os.replace(out + ".tmp", out)
    shutil.rmtree(tmp, ignore_errors=True)
    return out


# ---------------------------------------------------------------------------
# TLC

def _tlc_cmd(module, cfg, workers, extra=(), heap="4g", deque=False):
    props = ["-XX:+UseParallelGC", "-Xmx" + heap, "-Xss64m"]
    if deque:
        props.append("-Dtlc2.tool.queue.IStateQueue=StateDeque")
    # -checkpoint 0: no checkpoints (they are never resumed; and TLC's checkpoint code refuses behaviours of 65536 or more
    # states, which a trace file with more records than that is - found when a C14 thorough shard ran past the first
    # 30-minute checkpoint)
    return ["java"] + props + ["-cp", TLC_JAR, "tlc2.TLC", "-noGenerateSpecTE", "-checkpoint", "0", "-workers", str(workers),
                               "-config", cfg] + list(extra) + [module]


_meta_n = [0]


def run_tlc(module, cfg=None, workers=NCPU, env=None, timeout=3600, extra=(), heap="8g", deque=False):
    """Run TLC on spec/<module>.tla; returns dict(out, rc, states, distinct, ok, errors)."""
    cfg = cfg or (module + ".cfg")
    _meta_n[0] += 1
    meta = os.path.join(BUILD, "tlcmeta", "%d-%d-%s" % (os.getpid(), _meta_n[0], module))
    os.makedirs(meta, exist_ok=True)
    cmd = _tlc_cmd(module + ".tla", cfg, workers, ["-metadir", meta] + list(extra), heap, deque)
    t0 = time.time()
    try:
        p = sh(cmd, timeout=timeout, cwd=SPEC, env=env, check=False)
        out, rc = p.stdout, p.returncode
    except subprocess.TimeoutExpired as e:
        out, rc = ((e.stdout or b"").decode("utf8", "replace") if isinstance(e.stdout, bytes) else (e.stdout or "")) + "\nTIMEOUT", 124
    finally:
        shutil.rmtree(meta, ignore_errors=True)
    res = {"out": out, "rc": rc, "wall": time.time() - t0, "module": module}
    m = re.search(r"(\d+) states generated, (\d+) distinct states found", out)
    res["states"] = int(m.group(1)) if m else 0
    res["distinct"] = int(m.group(2)) if m else 0
    res["ok"] = rc == 0 and "Model checking completed. No error has been found." in out
    res["invariant_violated"] = re.findall(r"Error: Invariant (\S+) is violated", out)
    res["cover"] = re.findall(r"^<(\w+) line .*?>: (\d+):(\d+)", out, re.M)
    return res


def model_run(module, cfg=None, workers=NCPU, timeout=3600, coverage=False, heap="8g"):
    extra = ["-coverage", "1"] if coverage else []
    r = run_tlc(module, cfg, workers=workers, timeout=timeout, extra=extra, heap=heap)
    if not r["ok"] and not r["invariant_violated"] and "is violated" not in r["out"] and "Assumption" not in r["out"]:
        raise Infra("TLC model run %s failed (rc=%s):\n%s" % (module, r["rc"], _tail(r["out"])))
    return r


def _tail(s, n=60):
    lines = [l for l in s.splitlines() if not re.match(r"^(Parsing|Semantic|Linting)", l)]
    return "\n".join(lines[-n:])


BAD_RE = re.compile(r'<<\s*"BADREC",\s*(\d+),\s*(.*?)\s*>>\s*$', re.S)


def validate_trace(trace_module, trace_file, cfg=None, timeout=3600, heap="4g", env=None):
    """Validate one ndjson trace with spec/<trace_module>.tla.  Returns dict:
    accepted (records consumed if the spec reached the end, else None), bad [(line, what)]."""
    e = {"TRACE": trace_file}
    if env:
        e.update(env)
    r = run_tlc(trace_module, cfg, workers=1, env=e, timeout=timeout, heap=heap)
    out = r["out"]
    bad = []
    # PrintT output of tuples may wrap over several lines; normalise
    flat = re.sub(r"\n\s+", " ", out)
    for m in re.finditer(r'<<\s*"BADREC",\s*(\d+),\s*(.*?)\s*>>(?=\s*(?:\n|$))', flat):
        bad.append((int(m.group(1)), m.group(2).strip()))
    acc = re.search(r'<<\s*"ACCEPTED",\s*(\d+)\s*>>', flat)
    info = re.findall(r'<<\s*"INFO",\s*(.*?)\s*>>(?=\s*(?:\n|$))', flat)
    res = {"accepted": int(acc.group(1)) if acc else None, "bad": bad, "info": info, "tlc": r,
           "file": trace_file}
    if res["accepted"] is None and not bad:
        raise Infra("trace validation %s on %s did not finish (rc=%s):\n%s" % (trace_module, trace_file, r["rc"], _tail(out)))
    if res["accepted"] is None:
        # spec evaluation stopped after reporting bad records: treat as rejected at that point
        res["truncated"] = True
    return res


def validate_shards(trace_module, files, cfg=None, timeout=3600, heap="3g", jobs=None, env=None):
    # the heaps of concurrently running validators must fit the machine: at most 48 GB of -Xmx in flight
    gb = max(1, int(heap[:-1])) if heap[-1] in "gG" else 1
    jobs = jobs or min(NCPU, max(1, len(files)), max(1, 48 // gb))
    with cf.ThreadPoolExecutor(max_workers=jobs) as ex:
        return list(ex.map(lambda f: validate_trace(trace_module, f, cfg, timeout, heap, env), files))


def read_line(path, n):
    with open(path) as f:
        for i, l in enumerate(f, 1):
            if i == n:
                return l.rstrip("\n")
    return None


def split_file(path, nshards, outdir, prefix, header_lines=0):
    """Split an ndjson file into nshards files of consecutive lines (stateless traces)."""
    with open(path) as f:
        lines = f.readlines()
    head, body = lines[:header_lines], lines[header_lines:]
    n = len(body)
    if n == 0:
        return [], 0
    nshards = max(1, min(nshards, n))
    per = (n + nshards - 1) // nshards
    outs = []
    for i in range(nshards):
        chunk = body[i * per:(i + 1) * per]
        if not chunk:
            break
        p = os.path.join(outdir, "%s.%02d.ndjson" % (prefix, i))
        with open(p, "w") as g:
            g.writelines(head)
            g.writelines(chunk)
        outs.append(p)
    return outs, n


# ---------------------------------------------------------------------------
# known findings, evidence, exit protocol

def load_known():
    p = os.path.join(VERIF, "known_findings.json")
    if not os.path.exists(p):
        return []
    with open(p) as f:
        return json.load(f).get("findings", [])


class Check:
    """Accumulates results for one property and implements the exit protocol."""

    def __init__(self, pid, tier):
        self.pid = pid
        self.tier = tier
        self.t0 = time.time()
        self.violations = []       # (what, replay_path)
        self.known_hit = []
        self.cov = {"states": 0, "transitions": 0, "traces_validated_against_impl": 0, "samples": [],
                    "records_validated": 0, "model_runs": [], "trace_runs": [], "skipped_by_condition": 0}
        self.assumptions = []
        self.outdir = os.path.join(BUILD if os.environ.get("VERIF_NO_EVIDENCE") else VERIF, "out", pid)
        os.makedirs(self.outdir, exist_ok=True)
        self.work = os.path.join(BUILD, "work", pid)
        shutil.rmtree(self.work, ignore_errors=True)
        os.makedirs(self.work, exist_ok=True)
        self.known = [k for k in load_known() if k.get("property") == pid and k.get("status", "known") == "known"]

    # -- model runs
    def model(self, module, cfg=None, workers=NCPU, timeout=3600, coverage=False, heap="8g", what=""):
        r = model_run(module, cfg, workers, timeout, coverage, heap)
        self.cov["states"] += r["distinct"]
        self.cov["transitions"] += r["states"]
        self.cov["model_runs"].append({"module": module, "cfg": cfg or module + ".cfg", "distinct_states": r["distinct"],
                                       "states_generated": r["states"], "wall_s": round(r["wall"], 1), "ok": r["ok"], "what": what})
        log("[%s] model %s/%s: %d distinct states, %s (%.1fs)" % (self.pid, module, cfg or "", r["distinct"], "ok" if r["ok"] else "FAILED", r["wall"]))
        if not r["ok"]:
            p = os.path.join(self.outdir, "model-%s.txt" % module)
            with open(p, "w") as f:
                f.write(_tail(r["out"], 200))
            self.violation("model run %s: %s" % (module, ",".join(r["invariant_violated"]) or "error"), p)
        return r

    # -- trace validation
    def traces(self, trace_module, files, cfg=None, what="", episodes=None, timeout=3600, heap="3g", classify=None, env=None):
        """Validate files; every BADREC becomes a violation unless it matches a known finding.
        classify(record_dict, what_string) -> key used to match known_findings entries."""
        t0 = time.time()
        results = validate_shards(trace_module, files, cfg, timeout, heap, env=env)
        nrec = 0
        nbad = 0
        for r in results:
            nrec += r["accepted"] or 0
            for (ln, w) in r["bad"]:
                nbad += 1
                rec = read_line(r["file"], ln)
                self._bad(trace_module, r["file"], ln, w, rec, classify)
            if r.get("truncated"):
                self.violation("%s stopped before the end of %s" % (trace_module, os.path.basename(r["file"])), r["file"])
        self.cov["records_validated"] += nrec
        self.cov["traces_validated_against_impl"] += episodes if episodes is not None else len(files)
        self.cov["trace_runs"].append({"module": trace_module, "files": len(files), "records": nrec, "rejected": nbad,
                                       "wall_s": round(time.time() - t0, 1), "what": what})
        log("[%s] trace %s: %d files, %d records, %d rejected (%.1fs) %s" % (self.pid, trace_module, len(files), nrec, nbad, time.time() - t0, what))
        return results

    def _bad(self, module, file, ln, what, rec, classify):
        try:
            recd = json.loads(rec) if rec else {}
        except Exception:
            recd = {}
        key = classify(recd, what) if classify else {"event": recd.get("e", ""), "what": what}
        for k in self.known:
            if all(str(key.get(f)) == str(v) for f, v in k.get("match", {}).items()):
                if k["id"] not in [x["id"] for x in self.known_hit]:
                    self.known_hit.append(k)
                return
        n = len(self.violations)
        p = os.path.join(self.outdir, "violation-%03d.json" % n)
        if n < 200:
            with open(p, "w") as f:
                json.dump({"property": self.pid, "trace_module": module, "line": ln, "spec_says": what,
                           "record": recd or rec, "trace_file": file,
                           "replay": "TRACE=<file with this record> tlc -config %s.cfg %s.tla" % (module, module)}, f, indent=1)
        self.violation("%s rejected record %d of %s: %s" % (module, ln, os.path.basename(file), what[:200]), p)

    def violation(self, what, replay):
        self.violations.append((what, replay))

    def sample(self, s):
        if len(self.cov["samples"]) < 12:
            self.cov["samples"].append(s)

    def sample_lines(self, path, idx=(1, 2, 3), maxlen=400):
        try:
            with open(path) as f:
                for i, l in enumerate(f, 1):
                    if i in idx:
                        self.sample(l.strip()[:maxlen])
                    if i > max(idx):
                        break
        except OSError:
            pass

    def finish(self, level="model_checking", extra_cov=None, exhaustive=None):
        cov = self.cov
        if extra_cov:
            cov.update(extra_cov)
        if exhaustive is not None:
            cov["exhaustive"] = exhaustive
        if not cov["samples"]:
            cov["samples"] = ["(none recorded)"]
        cov["states"] = max(cov["states"], 1)
        cov["transitions"] = max(cov["transitions"], 1)
        cov["evaluations"] = max(1, cov["records_validated"] + cov["transitions"])
        cov["distinct_nontrivial"] = max(2, cov.get("distinct_nontrivial", cov["records_validated"] + cov["states"]))
        cov.setdefault("rule", "records are distinct inputs enumerated or generated by the recorder (duplicates removed before validation where the recorder can produce them); states are distinct TLC states")
        ev = {"property_id": self.pid, "tier": self.tier, "seed": SEED, "level": level, "coverage": cov,
              "assumptions": self.assumptions, "wall_s": round(time.time() - self.t0, 1),
              "violations": len(self.violations),
              "known_findings_hit": [k["id"] for k in self.known_hit]}
        if not os.environ.get("VERIF_NO_EVIDENCE"):
            os.makedirs(os.path.join(VERIF, "evidence"), exist_ok=True)
            with open(os.path.join(VERIF, "evidence", self.pid + ".json"), "w") as f:
                json.dump(ev, f, indent=1)
        for k in self.known_hit:
            log("KNOWN-FINDING: property=%s %s" % (self.pid, k.get("what", k["id"])))
        if self.violations:
            for (w, p) in self.violations[:20]:
                log("VIOLATION property=%s replay=%s" % (self.pid, p))
                log("   " + w)
            if len(self.violations) > 20:
                log("   ... %d more" % (len(self.violations) - 20))
            return 1
        log("[%s] OK tier=%s wall=%.1fs records=%d states=%d" % (self.pid, self.tier, time.time() - self.t0, cov["records_validated"], cov["states"]))
        return 0


FATAL_SIGNALS = {4: "SIGILL", 6: "SIGABRT", 7: "SIGBUS", 8: "SIGFPE", 11: "SIGSEGV", -86: "an exception escaping from the code under test (std::terminate in a C++ recorder, or an exception no Python driver expects)"}


class Crash(Exception):
    """The code under test terminated the recording process with a fatal signal, reproducibly.  A recorder only calls
    the public API on inputs inside the property's domain, and every trace specification requires each recorded call to
    return, so this is reported as a violation (exit 1), not as an infrastructure failure."""

    def __init__(self, cmd, sig, stderr, path):
        Exception.__init__(self, "%s in: %s" % (FATAL_SIGNALS.get(sig, sig), " ".join(cmd)))
        self.cmd, self.sig, self.stderr, self.path = cmd, sig, stderr, path


def run_to_file(cmd, path, timeout=3600, env=None, cwd=None):
    e = dict(os.environ)
    if env:
        e.update(env)
    p = None
    for attempt in (1, 2):
        with open(path, "w") as f:
            p = subprocess.run(cmd, stdout=f, stderr=subprocess.PIPE, timeout=timeout, env=e, cwd=cwd)
        if p.returncode == 0:
            return path
        if -p.returncode not in FATAL_SIGNALS:
            break                                   # not a fatal signal: infrastructure
        # a fatal signal is believed only if a second run repeats it
    if -p.returncode in FATAL_SIGNALS:
        raise Crash(cmd, -p.returncode, p.stderr.decode("utf8", "replace")[-3000:], path)
    raise Infra("recorder failed (%d): %s\n%s" % (p.returncode, " ".join(cmd), p.stderr.decode("utf8", "replace")[-3000:]))


def parallel(fn, items, jobs=NCPU):
    with cf.ThreadPoolExecutor(max_workers=jobs) as ex:
        return list(ex.map(fn, items))


# ---------------------------------------------------------------------------
# Python bindings (PyImath), built from the current working tree with the repo's own CMake

def pyimath_build():
    """Configure+build the imath Python module from REPO (incremental: ninja decides what is stale).
    Returns dict(env=..., python=..., dir=...)."""
    if "py" in _cfg_done:
        return _cfg_done["py"]
    d = os.path.join(BUILD, "py-" + hashlib.sha256(REPO.encode()).hexdigest()[:10])
    py = "/usr/bin/python3.11"
    if not os.path.exists(os.path.join(d, "build.ninja")):
        os.makedirs(d, exist_ok=True)
        sh(["cmake", "-G", "Ninja", "-S", REPO, "-B", d, "-DPYTHON=ON", "-DBUILD_TESTING=OFF", "-DCMAKE_BUILD_TYPE=Release",
            "-DPython3_EXECUTABLE=" + py, "-DPython_EXECUTABLE=" + py], timeout=1200)
    r = sh(["cmake", "--build", d, "-j", str(NCPU)], timeout=3600, check=False)
    if r.returncode != 0:
        raise Infra("PyImath build failed:\n" + r.stdout[-6000:])
    env = {"LD_LIBRARY_PATH": "%s/src/python/PyImath:%s/src/Imath:%s" % (d, d, os.environ.get("LD_LIBRARY_PATH", "")),
           "PYTHONPATH": "%s/python3_11:%s" % (d, os.path.join(HARNESS, "py")),
           "PYTHONHASHSEED": "0"}
    _cfg_done["py"] = {"env": env, "python": py, "dir": d}
    return _cfg_done["py"]
